"""C01, numeric numpy arrays "edited in place":  Delta(DeepDiff(a, b)) + a  ==  b  for arrays of one
shape and dtype (coq/theories/Delta/DeltaNp.v on top of Diff/NpModel.v).

    stream(ctx)       (a) direct oracle on generated same-shape pairs, bare and planted in {'x': arr} / [1, arr],
                          over verbose_level x view x always_include_values (+ bidirectional on a sample);
                      (b) correspondence: payload (index paths in dict order, new / old values, _numpy_paths)
                          + resulting array + number of _raise_or_log calls against DeltaNp.apply_np, applied
                          to a itself and to another base array of the same shape; hand-built payloads
                          (out-of-range indexes, too long / too short paths, casts, wrong old values);
                      (c) probe (counters only): 1-d arrays of different lengths (outside the model).
    replay(ctx, case) re-runs one failing oracle case (case["numpy"] is True)

Arrays: 1-3 dimensions, 0-4 elements per axis, int64 / int32 / float64 (half-integers) / bool, in C,
Fortran, transposed-view and strided-view layouts (generators of harness/npcommon.py).
Note the operand order: delta + array (array + delta raises DeltaNumpyOperatorOverrideError: checked once).
"""
import itertools
import logging

import numpy as np

from harness import values as V
from harness import npcommon as NP
from harness.core import coq_bool, coq_list
from harness.deltacommon import Counting

logging.disable(logging.CRITICAL)

HDR = NP.HDR[:-1] + " Delta.DeltaNp Delta.DeltaNpShow."

CONTAINERS = ("bare", "dict", "list")
PREFIX = {"bare": "root", "dict": "root['x']", "list": "root[1]"}


# ---------------------------------------------------------------------------
# helpers
# ---------------------------------------------------------------------------

def plant(kind, arr):
    if kind == "dict":
        return {"x": arr, "y": 1}
    if kind == "list":
        return [1, arr]
    return arr


def unplant(kind, obj):
    """the array inside the result, or a string saying what is wrong with the container"""
    if kind == "dict":
        if type(obj) is not dict or list(obj.keys()) != ["x", "y"] or obj["y"] != 1 or type(obj["y"]) is not int:
            return "container changed: %r" % (obj,)
        return obj["x"]
    if kind == "list":
        if type(obj) is not list or len(obj) != 2 or obj[0] != 1 or type(obj[0]) is not int:
            return "container changed: %r" % (obj,)
        return obj[1]
    return obj


def arr_json(a):
    return dict(dtype=a.dtype.name, shape=[int(d) for d in a.shape], data=a.tolist(), layout=NP.layout_of(a))


def arr_from_json(j):
    a = np.array(j["data"], dtype=j["dtype"]).reshape(j["shape"])
    if j.get("layout") == "F":
        a = np.asfortranarray(a)
    return a


def same_array(r, b):
    """r is an ndarray equal to b as an array: dtype, shape, elements"""
    return isinstance(r, np.ndarray) and r.dtype == b.dtype and r.shape == b.shape and bool(np.array_equal(r, b))


def snapshot(a):
    return (a.dtype.name, a.shape, a.tolist())


def idx_path(p, prefix="root"):
    """'root[0][1]' -> [0, 1] as Delta parses it (all GET by int), else None"""
    from deepdiff.path import _path_to_elements, GET
    if not p.startswith(prefix):
        return None
    els = _path_to_elements("root" + p[len(prefix):], root_element=None)
    if not all(act == GET and type(e) is int for e, act in els):
        return None
    return [e for e, _ in els]


def canon_scalar(x, want_dtype=None):
    """atom of a payload scalar; with want_dtype it must be a numpy scalar of that dtype"""
    if want_dtype is not None:
        if not isinstance(x, np.generic) or x.dtype != want_dtype:
            return ["UNEXPECTED-SCALAR", type(x).__name__]
    return V.canon_atom(x.item() if isinstance(x, np.generic) else x)


def payload_obs(diff, prefix="root", want_dtype=None):
    """mirror of DeltaNpShow.sx_npdelta: [[path, new, old?] in dict order, _numpy_paths[prefix]]"""
    out = []
    for p, ch in diff.get("values_changed", {}).items():
        ip = idx_path(p, prefix)
        if ip is None or "new_path" in ch or set(ch.keys()) - {"new_value", "old_value"}:
            out.append(["UNEXPECTED-ENTRY", p, sorted(ch.keys())])
            continue
        out.append([ip, canon_scalar(ch["new_value"], want_dtype),
                    (["Some", canon_scalar(ch["old_value"], want_dtype)] if "old_value" in ch else None)])
    for k in sorted(set(diff.keys()) - {"values_changed", "_numpy_paths"}):
        out.append(["UNEXPECTED-CATEGORY", k])
    npaths = diff.get("_numpy_paths") or {}
    name = npaths.get(prefix)
    dt = None if name is None else ["Some", NP.DT_SX.get(name.rstrip("_"), "UNEXPECTED-DTYPE " + name)]
    if set(npaths.keys()) - {prefix}:
        out.append(["UNEXPECTED-NUMPY-PATHS", sorted(npaths.keys())])
    return [out, dt]


def result_obs(r, errs):
    if not isinstance(r, np.ndarray):
        return ["NOT-AN-ARRAY", repr(r)[:80], errs]
    return [NP.canon_arr(r), errs]


def apply_impl(delta, c):
    """(delta + c, number of _raise_or_log calls) or ('RAISED', ...)"""
    with Counting() as cnt:
        try:
            r = delta + c
        except Exception as e:  # noqa
            return ("RAISED", type(e).__name__, str(e)[:120]), cnt.n
    return r, cnt.n


# ---------------------------------------------------------------------------
# generators
# ---------------------------------------------------------------------------

FORCED = [(2, 3), (3, 2, 2), (4,), (2, 2, 2), (1, 3), (3, 1), (0,), (2, 0), (0, 3), (1,), (2, 0, 2), (4, 4)]


def change_some(rng, a, how):
    """a C/F copy of a with `how` in {0, 1, 2, 'some', 'all'} elements changed"""
    c = np.array(a, order=rng.choice("CF"))
    size = a.size
    if not size or how == 0:
        return c
    flat_idx = list(itertools.product(*[range(d) for d in a.shape]))
    if how == "all":
        chosen = flat_idx
    elif how == "some":
        chosen = [i for i in flat_idx if rng.random() < 0.5]
    else:
        chosen = rng.sample(flat_idx, min(how, size))
    for idx in chosen:
        c[idx] = NP.other_value(rng, c[idx].item(), a.dtype.name)
    return c


def gen_same_shape_pairs(rng, n):
    """[(a, b, how)] same shape and dtype; every forced shape first, every dtype and layout reached"""
    out = []
    hows = [0, 1, 1, 2, "some", "some", "all"]
    for k in range(n):
        shape = FORCED[k] if k < len(FORCED) else None
        dtype = NP.DTYPES[k % 4] if k < 2 * len(FORCED) else None
        if shape is None:     # fewer zero-length axes than npcommon.gen_shape: the round trip needs elements to change
            shape = tuple(0 if rng.random() < 0.06 else rng.choice([1, 2, 2, 3, 3, 4]) for _ in range(rng.choice([1, 1, 2, 2, 2, 3, 3])))
        a = NP.gen_array(rng, shape, dtype)
        if rng.random() < 0.5:
            a = NP.layouts(rng, a)[0]
        how = hows[k % len(hows)] if k < 3 * len(hows) else rng.choice(hows)
        b = change_some(rng, a, how)
        if rng.random() < 0.5:
            b = NP.layouts(rng, b)[0]
        out.append((a, b, how))
    return out


MISSING = object()      # no 'old_value' in a hand-built entry
SCALARS = [0, 1, 2, -1, 3, 7, True, False, 1.5, -1.5, -0.5, 2.5, 0.0, 2.0, None]


def wrap_scalar(rng, x):
    """the same value as a Python or a numpy scalar"""
    if x is None or rng.random() < 0.5:
        return x
    if isinstance(x, bool):
        return np.bool_(x)
    if isinstance(x, int):
        return rng.choice([np.int64, np.int32])(x)
    return np.float64(x)


def gen_handbuilt(rng, n):
    """[(entries, c, bidir)], entries = [(index list, new, old or MISSING)] on a random array c: full paths,
    paths that are one too short / too long, out-of-range indexes, values of every scalar kind"""
    out = []
    for k in range(n):
        c = NP.gen_array(rng, FORCED[k % 6] if k < 12 else None)
        if rng.random() < 0.4:
            c = NP.layouts(rng, c)[0]
        bidir = rng.random() < 0.4
        entries = []
        for _e in range(rng.choice([1, 1, 2, 3])):
            mode = rng.choice(["full", "full", "full", "oor", "short", "long", "full"])
            nd = c.ndim
            ln = nd if mode in ("full", "oor") else (nd - 1 if mode == "short" else nd + 1)
            ln = max(ln, 1)
            idx = []
            for ax in range(ln):
                d = c.shape[ax] if ax < nd else 2
                idx.append(rng.randrange(d) if d else 0)
            if mode == "oor":
                ax = rng.randrange(ln)
                idx[ax] = c.shape[ax] + rng.choice([0, 0, 1])
            new = wrap_scalar(rng, rng.choice(SCALARS))
            old = MISSING
            if bidir:
                r = rng.random()
                if r < 0.5:
                    try:
                        cur = c[tuple(idx)]
                        old = cur.item() if isinstance(cur, np.generic) else MISSING
                    except IndexError:
                        old = 0
                    if old is not MISSING and rng.random() < 0.3:
                        old = float(old) if not isinstance(old, float) else old   # numerically equal, other type
                elif r < 0.8:
                    old = wrap_scalar(rng, rng.choice(SCALARS))
            if any(idx == i for i, _n, _o in entries):
                continue            # a dict has one entry per path
            entries.append((idx, new, old))
        out.append((entries, c, bidir))
    return out



def dom_py(entries, c, bidir):
    """mirror of DeltaNp.np_dom"""
    for idx, new, old in entries:
        if not idx:
            return False
        v = new.item() if isinstance(new, np.generic) else new
        if v is None:
            if c.dtype.name == "float64":
                return False
        elif not isinstance(v, (bool, int, float)):
            return False
        if bidir and not (c.ndim <= len(idx) or old is MISSING):
            return False
    return True


def coq_atom(x):
    return V.atom_to_coq(x.item() if isinstance(x, np.generic) else x)


def coq_payload(entries, dtype_name):
    chs = []
    for idx, new, old in entries:
        chs.append("(mkNC %s %s %s)" % (coq_list("%d" % i for i in idx), coq_atom(new),
                                         "None" if old is MISSING else "(Some %s)" % coq_atom(old)))
    return "(mkND %s (Some %s))" % (coq_list(chs), NP.DT_COQ[dtype_name])


def py_payload(entries, dtype_name):
    vc = {}
    for idx, new, old in entries:
        ch = {"new_value": new}
        if old is not MISSING:
            ch["old_value"] = old
        vc["root" + "".join("[%d]" % i for i in idx)] = ch
    return {"values_changed": vc, "_numpy_paths": {"root": dtype_name}}


# ---------------------------------------------------------------------------
# (a) direct oracle
# ---------------------------------------------------------------------------

def oracle_one(ctx, a, b, kind, cfg, always, bidir=False):
    """the property on one (pair, container, configuration); True when it holds"""
    from deepdiff import DeepDiff, Delta
    sa, sb = snapshot(a), snapshot(b)
    A, B = plant(kind, a), plant(kind, b)
    case = dict(numpy=True, a=arr_json(a), b=arr_json(b), container=kind, cfg=dict(cfg),
                always_include_values=always, bidirectional=bidir)
    ok = True
    try:
        with Counting() as cnt:
            d = Delta(DeepDiff(A, B, **cfg), always_include_values=always, bidirectional=bidir)
            r = d + A
    except Exception as e:  # noqa
        ctx.fail(dict(case, observed="raised %s: %s" % (type(e).__name__, str(e)[:200])),
                 "Delta(DeepDiff(a, b)) + a raised %s on same-shape numeric arrays" % type(e).__name__)
        return False
    got = unplant(kind, r)
    if isinstance(got, str) or not same_array(got, b):
        obs = got if isinstance(got, str) else (repr(arr_json(got)) if isinstance(got, np.ndarray) else repr(got)[:200])
        ctx.fail(dict(case, observed=obs), "Delta(DeepDiff(a, b)) + a != b on same-shape numeric arrays")
        ok = False
    elif cnt.n:
        ctx.fail(dict(case, observed="%d error(s) logged while applying" % cnt.n),
                 "applying the delta of two arrays to its own first array logged an error")
        ok = False
    if snapshot(a) != sa or snapshot(b) != sb:
        ctx.fail(dict(case, observed="an input was modified", clause="an input was modified"),
                 "DeepDiff/Delta modified an input array (mutate=False)")
        ok = False
    if isinstance(got, np.ndarray) and (np.shares_memory(got, a) or np.shares_memory(got, b)):
        ctx.count("np:result_shares_memory_with_input")
    return ok


def all_cfgs():
    return [(dict(verbose_level=v, view=view), always)
            for v, view, always in itertools.product((0, 1, 2), ("text", "tree"), (False, True))]


def oracle_pair(ctx, a, b, how):
    equal = bool(np.array_equal(a, b))
    cfgs = all_cfgs()
    for kind in CONTAINERS:
        chosen = cfgs if (kind == "bare" or ctx.thorough) else ctx.rng.sample(cfgs, 4)
        for cfg, always in chosen:
            ok = oracle_one(ctx, a, b, kind, cfg, always)
            ctx.count("np:oracle:%s:%s" % (kind, "ok" if ok else "FAILED"))
            ctx.seen(("np", snapshot(a), snapshot(b), kind, sorted(cfg.items()), always), nontrivial=not equal)
        # bidirectional deltas verify the old values: still nothing logged on the delta's own first array
        cfg, always = ctx.rng.choice(cfgs)
        ok = oracle_one(ctx, a, b, kind, cfg, always, bidir=True)
        ctx.count("np:oracle:bidirectional:%s" % ("ok" if ok else "FAILED"))
        ctx.seen(("np-bidir", snapshot(a), snapshot(b), kind, sorted(cfg.items())), nontrivial=not equal)


def planted_payload_check(ctx, a, b):
    """metamorphic: the payload of the planted pair is the payload of the bare pair below the container's path"""
    from deepdiff import DeepDiff, Delta
    bare = payload_obs(Delta(DeepDiff(a, b)).diff, "root", b.dtype)
    for kind in ("dict", "list"):
        diff = dict(Delta(DeepDiff(plant(kind, a), plant(kind, b))).diff)
        got = payload_obs(diff, PREFIX[kind], b.dtype)
        if got != bare:
            ctx.break_("correspondence", {"name": "c01np planted payload", "container": kind, "a": arr_json(a), "b": arr_json(b),
                                          "bare": repr(bare)[:500], "planted": repr(got)[:500]})
            ctx.count("np:planted_payload:MISMATCH")
        else:
            ctx.count("np:planted_payload:same_as_bare")


# ---------------------------------------------------------------------------
# (b) correspondence
# ---------------------------------------------------------------------------

def corr_pair(ctx, a, b, how, cases):
    from deepdiff import DeepDiff, Delta
    rng = ctx.rng
    ca, cb = NP.arr_to_coq(a), NP.arr_to_coq(b)
    # another base of the same shape and dtype: equal to a at some positions, different at others
    c = change_some(rng, a, rng.choice([1, 2, "some", "all"]))
    if rng.random() < 0.4:
        c = NP.layouts(rng, c)[0]
    runs = [(False, a, "a"), (True, a, "a"), (rng.random() < 0.6, c, "other")]
    for bidir, base, which in runs:
        always = rng.random() < 0.5
        cfg = dict(verbose_level=rng.choice((0, 1, 2)), view=rng.choice(("text", "tree")))
        expr = "sx_np_roundtrip (tbl_ops []) %s %s %s %s %s" % (
            coq_bool(rng.random() < 0.5), coq_bool(bidir), ca, cb, NP.arr_to_coq(base))
        try:
            d = Delta(DeepDiff(a, b, **cfg), bidirectional=bidir, always_include_values=always)
            pay = payload_obs(d.diff, "root", b.dtype)
            r, errs = apply_impl(d, base)
            exp = [True, pay, result_obs(r, errs)]
        except Exception as e:  # noqa - the model never raises: a mismatch
            exp = ["RAISED", type(e).__name__, str(e)[:120]]
        cases.append((expr, exp, dict(numpy=True, a=NP.describe(a), b=NP.describe(b), base=which if which == "a" else NP.describe(base),
                                      bidirectional=bidir, always_include_values=always, cfg=cfg, changed=str(how),
                                      layouts=[NP.layout_of(a), NP.layout_of(b), NP.layout_of(base)])))
        ctx.count("np:corr:base_%s:bidir_%s" % (which, bidir))
        if which == "other" and isinstance(exp[-1], list) and exp[-1][-1]:
            ctx.count("np:corr:other_base:verification_errors_logged")


def handbuilt_case(ctx, entries, c, bidir, cases, label):
    """one hand-built payload applied to c: inside the domain predicate the result array and the error count are
    compared with apply_np, outside only the predicate itself (the model claims nothing there)"""
    from deepdiff import Delta
    dom = dom_py(entries, c, bidir)
    tag = dict(numpy=True, handbuilt=[[idx, repr(new), "MISSING" if old is MISSING else repr(old)] for idx, new, old in entries],
               base=NP.describe(c), bidirectional=bidir, in_domain=dom, layout=NP.layout_of(c), source=label)
    try:
        coq_p, coq_c = coq_payload(entries, c.dtype.name), NP.arr_to_coq(c)     # before the application
    except (TypeError, AssertionError):
        ctx.count("np:%s:not_emittable" % label)
        return
    sc, jc = snapshot(c), arr_json(c)
    r, errs = apply_impl(Delta(py_payload(entries, c.dtype.name), bidirectional=bidir), c)
    if snapshot(c) != sc:
        ctx.fail(dict(numpy=True, a=jc, handbuilt=tag["handbuilt"], bidirectional=bidir, observed="an input was modified",
                      clause="an input was modified"), "Delta + array modified the array (mutate=False)")
    if dom:
        cases.append(("sx_np_apply %s %s %s" % (coq_bool(bidir), coq_p, coq_c),
                      [True, result_obs(r, errs) if not isinstance(r, tuple) else list(r)], tag))
        ctx.count("np:%s:in_domain:errors_%s" % (label, errs if errs < 2 else "2+"))
    else:
        cases.append(("SL [sx_bool (np_dom %s %s %s)]" % (coq_bool(bidir), coq_p, coq_c), [False], tag))
        ctx.count("np:%s:outside_domain:%s" % (label, "raised_" + r[1] if isinstance(r, tuple) else "returned"))


def corr_handbuilt(ctx, n, cases):
    for entries, c, bidir in gen_handbuilt(ctx.rng, n):
        handbuilt_case(ctx, entries, c, bidir, cases, "handbuilt")


def fixed_handbuilt():
    """[(entries, array, bidir)]: the error branches of apply_np, one by one (fresh arrays on every call)"""
    return [
        ([([0, 3], np.int64(9), MISSING)], np.array([[1, 2, 3], [4, 5, 6]]), False),            # last index out of range
        ([([2, 1], np.int64(9), MISSING)], np.array([[1, 2, 3], [4, 5, 6]]), False),            # first index out of range
        ([([1, 1, 0], np.int64(9), MISSING)], np.array([[1, 2, 3], [4, 5, 6]]), False),         # path too long
        ([([1, 1, 0, 0, 0], 9, MISSING)], np.array([[1, 2, 3], [4, 5, 6]]), False),             # much too long
        ([([1], np.int64(9), MISSING)], np.array([[1, 2, 3], [4, 5, 6]]), False),               # too short: broadcast over the row
        ([([1], 50, MISSING), ([1, 0], 5, MISSING)], np.arange(8).reshape(2, 2, 2), False),     # block, then a sub-block of it
        ([([1, 0], 5, MISSING), ([1], 50, MISSING)], np.arange(8).reshape(2, 2, 2), False),     # the other order
        ([([1], 2, MISSING)], np.zeros((2, 0), dtype="int64"), False),                          # empty block
        ([([0, 0], 2, MISSING)], np.zeros((2, 0), dtype="int64"), False),                       # no element at all
        ([([0, 1], None, MISSING)], np.array([[1, 2, 3], [4, 5, 6]]), False),                   # None into int64: TypeError logged
        ([([0, 1], None, 7)], np.array([[1, 2, 3], [4, 5, 6]]), True),                          # ... + verification error
        ([([1], None, MISSING)], np.array([True, True]), False),                                # None into bool: False
        ([([0, 1], -1.5, MISSING)], np.array([[1, 2, 3], [4, 5, 6]]), False),                   # truncation towards zero
        ([([0, 1], 2.5, MISSING)], np.array([[1, 2, 3], [4, 5, 6]], dtype="int32"), False),
        ([([1], 0.5, MISSING)], np.array([True, False]), False),
        ([([1], True, MISSING)], np.array([1.5, 2.5]), False),
        ([([0, 1], 7, 2.0)], np.array([[1, 2, 3], [4, 5, 6]]), True),                           # old value equal across types
        ([([0, 1], 7, True)], np.array([[1, 2, 3], [4, 5, 6]]), True),                          # wrong old value
        ([([0, 1], 7, MISSING)], np.array([[1, 2, 3], [4, 5, 6]]), True),                       # old value missing
        ([([0, 5], 7, 1)], np.array([[1, 2, 3], [4, 5, 6]]), True),                             # out of range, bidirectional: one error
        ([([1], 9, MISSING)], np.array([[1, 2, 3], [4, 5, 6]]), True),                          # short path, no old value
        ([([0, 1], 9, MISSING), ([0, 3], 9, MISSING), ([1, 2], 8, MISSING)], np.array([[1, 2, 3], [4, 5, 6]]), False),
        # outside the domain predicate
        ([([1], 9, 4)], np.array([[1, 2, 3], [4, 5, 6]]), True),                                # ValueError escapes
        ([([1], None, MISSING)], np.array([1.5, 2.5]), False),                                  # NaN
    ]


def corr_fixed(ctx, cases):
    for entries, c, bidir in fixed_handbuilt():
        handbuilt_case(ctx, entries, c, bidir, cases, "fixed")


# ---------------------------------------------------------------------------
# (c) probes outside the model
# ---------------------------------------------------------------------------

def probe_operator_order(ctx):
    from deepdiff import DeepDiff, Delta
    from deepdiff.delta import DeltaNumpyOperatorOverrideError
    a, b = np.array([1, 2, 3]), np.array([1, 5, 3])
    try:
        a + Delta(DeepDiff(a, b))
        ctx.count("probe:np:array_plus_delta:returned")
    except DeltaNumpyOperatorOverrideError:
        ctx.count("probe:np:array_plus_delta:DeltaNumpyOperatorOverrideError")
    except Exception as e:  # noqa
        ctx.count("probe:np:array_plus_delta:" + type(e).__name__)


def probe_other_shapes(ctx, n):
    """1-d arrays of different lengths (iterable_item_added / removed, _do_pre_process / _do_post_process through
    lists), and the no-element pairs of different shape: counters only, no model, never a failure"""
    from deepdiff import DeepDiff, Delta
    rng = ctx.rng
    pairs = []
    for _k in range(n):
        a = NP.gen_array(rng, (rng.randrange(0, 5),))
        c = list(NP.flat(a))
        for _e in range(rng.randint(1, 2)):
            if rng.random() < 0.5 and c:
                del c[rng.randrange(len(c))]
            else:
                c.insert(rng.randint(0, len(c)), NP.other_value(rng, (c or [1])[0], a.dtype.name) if rng.random() < 0.6
                         else rng.choice(c or [0]))
        pairs.append((a, np.array(c, dtype=a.dtype), "1d_length"))
    for sh1, sh2 in NP.FIXED_SHAPES:
        if sh1 != sh2:
            pairs.append((np.zeros(sh1), np.zeros(sh2), "no_elements"))
    for a, b, what in pairs:
        sa = snapshot(a)
        try:
            with Counting() as cnt:
                r = Delta(DeepDiff(a, b)) + a
            if same_array(r, b):
                res = "equal" if not cnt.n else "equal_but_logged"
            elif isinstance(r, np.ndarray) and r.shape == b.shape and np.array_equal(r, b):
                res = "equal_values_other_dtype"
            elif isinstance(r, np.ndarray):
                res = "different_array"
            else:
                res = "not_an_array_" + type(r).__name__
        except Exception as e:  # noqa
            res = "raised_" + type(e).__name__
        if snapshot(a) != sa:
            res += "+input_modified"
        ctx.count("probe:np:%s:%s" % (what, res))


# ---------------------------------------------------------------------------
# entry points
# ---------------------------------------------------------------------------

def stream(ctx):
    n = 600 if ctx.thorough else 60
    pairs = gen_same_shape_pairs(ctx.rng, n)
    cases = []
    for (a, b, how) in pairs:
        ctx.count("np:pairs")
        ctx.count("np:dtype:" + a.dtype.name)
        ctx.count("np:ndim:%d" % a.ndim)
        ctx.count("np:changed:%s" % ("none" if np.array_equal(a, b) else how))
        ctx.count("np:layout:%s/%s" % (NP.layout_of(a), NP.layout_of(b)))
        if a.size == 0:
            ctx.count("np:no_elements")
        oracle_pair(ctx, a, b, how)
        planted_payload_check(ctx, a, b)
        corr_pair(ctx, a, b, how, cases)
    corr_fixed(ctx, cases)
    corr_handbuilt(ctx, 300 if ctx.thorough else 40, cases)
    for c in cases[:1]:
        ctx.sample(c[2])
    bad = ctx.coq_cases("c01np", HDR, cases, shard=300 if ctx.thorough else 130, label="numpy_payload+apply+errors")
    probe_operator_order(ctx)
    probe_other_shapes(ctx, 200 if ctx.thorough else 30)
    return bad


def replay(ctx, case):
    """re-run one failing oracle case recorded by this stream"""
    a, b = arr_from_json(case["a"]), arr_from_json(case["b"])
    ok = oracle_one(ctx, a, b, case.get("container", "bare"), dict(case.get("cfg", {})),
                    case.get("always_include_values", False), case.get("bidirectional", False))
    ctx.evaluations += 1
    print("replay (numpy):", "property holds" if ok else "property FAILS")
    return ok

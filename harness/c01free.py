"""C01 - correspondence of the FAITHFUL Delta application (coq/theories/Delta/DeltaFaithful.v) with delta.py, on inputs
that DeltaModel.apply is documented NOT to follow and that no other stream exercises.  In DeltaFaithful.v an exception
that escapes Delta.__add__ is a result (inl AttributeError / inl TypeError):
    apply_f   DeltaModel's passes with the insertion of _do_item_added refined (the subject of C01_faithful_*)
    apply_ff  also: the write that fails after a tuple was coerced, the item-removed passes, the post-processing

  (A) tuples of DIFFERENT length (outside C01's domain): payload of Delta(DeepDiff(t1, t2)) + the outcome of
      deepcopy(t1) + delta  vs  apply_f and apply_ff on the model's delta; [insert_regular] of the model's run is
      expected to be (the implementation did not raise), [nonneg_paths] to be true.  An insertion inside a tuple
      raises AttributeError ('tuple' object has no attribute 'insert'), a trailing append succeeds.
  (C) pairs INSIDE the guards of C01_roundtrip_partial: the same observable; [insert_regular] (the hypothesis of
      C01_roundtrip_faithful_partial) is expected true, the outcome is t2 without error.
  (B) FREE payloads: a Delta built from a hand-made dict (values_changed, type_changes with new_value,
      iterable_item_added / _removed with valid, out-of-range, NEGATIVE, bool, float, str, None indexes and wrong
      expected values (_find_closest_iterable_element_for_index), iterable_item_moved, dictionary_item_added /
      _removed; optionally bidirectional) applied to a small random base  vs  apply_ff on the same payload given
      as a Coq [mkDelta ...] literal.  FIXED_B: one payload per refined behaviour, run in both tiers.

Observable: [payload (DeltaShow.sx_delta), outcome, ...] with outcome = ["raised", exception class name] or
[canonical result (dict order ignored), errors logged > 0].  Header of the generated Coq files: c01free.HDR.

Generator restrictions of (B) - places where even apply_ff is not the code (DeltaFaithful.v header):
  * no container inside a tuple (base and payload values) and no tuple inside a value that the payload WRITES
    (new_value, added / moved values): otherwise a tuple can end up inside a (coerced) tuple, and the code edits a
    container inside a tuple in place / re-enters post_process_paths_to_convert while iterating it (RuntimeError, or
    the outer tuple silently stays a list); DeltaModel.upd refuses to write through a tuple
  * no removal path is 'root' (dom_delta)
  * type_changes always carry new_value (at the root path a failing constructor call makes the code raise TypeError
    while formatting its error message: 'Delta' object is not subscriptable; DeltaModel logs an error)
  * the paths of one Python dict are distinct also after parsing; iterable_item_removed / iterable_item_moved sources
    are distinct, iterable_item_added / iterable_item_moved targets are distinct (the code merges them with
    dict.update, the model concatenates the lists)
  * cases where the orders of the two sorted passes of one kind cannot be given by one rank table are skipped (counted)
"""
import copy
import time

from harness import core, values as V, diffcommon as D, deltacommon as DC

HDR = DC.HDR[:-1] + " Delta.DeltaFaithful Delta.DeltaFaithfulShow."


def outcome(base, delta):
    """deepcopy(base) + delta on the implementation: ["raised", class] or [canon result, errors > 0]"""
    b = copy.deepcopy(base)
    try:
        with DC.Counting() as cnt:
            r = b + delta
    except Exception as e:           # escapes Delta.__add__
        return ["raised", type(e).__name__], None
    return [DC.canon_unordered(r), cnt.n > 0], r


# --------------------------------------------------------------------------------------------------
# (A) tuples that change their length
# --------------------------------------------------------------------------------------------------

def plant_ld(rng, depth, pair):
    """wrap (a, b) identically into `depth` levels of list / dict (no tuples: a container inside a tuple is out)"""
    a, b = pair
    for _ in range(depth):
        if rng.random() < 0.5:
            pre = [V.gen_atom(rng) for _ in range(rng.randint(0, 2))]
            a, b = copy.deepcopy(pre) + [a], copy.deepcopy(pre) + [b]
        else:
            key = rng.choice(["k", "k2", 1, 2.5, None])
            a, b = {key: a, "z": 0}, {key: b, "z": 0}
    return a, b


FIXED_A = [((1, 2), (1, 7, 2)), ((1, 2, 3), (1, 3)), ((1, 2), (1, 2, 3)), ((1, 2, 3), (1, 2)), ((1, 2), (7, 1, 2)), ((), (1,)),
           ((1,), ()), ((1, 2, 3, 4), (2, 3, 4, 1, 5)), (("a", "b"), ("b",)), ((1, 2), (3, 4, 5))]


def model_expr_a(t1, t2, zip_, thr, conv_tbl, rem, add, always=False, ignore_private=True):
    """[payload; apply_f; apply_ff; insert_regular (DeltaModel's run meets insert-regular steps only); nonneg_paths]
    for base = t1.  On the delta of a diff (added paths end in list positions: nonneg_paths) the faithful run raises
    exactly when the run is not insert-regular (DeltaFaithfulProofs.apply_f_raises_iff)"""
    ops = D.coq_ops_table(D.opcode_table(t1, t2))
    return ("(let r := run_diff hatom_deep (tbl_udiff %s) (tbl_ops %s) no_paths no_paths %s %s %s in "
            "let cv := tbl_conv %s in "
            "let d := to_delta cv false %s (tbl_ops %s) %s %s (fst r) (snd r) in "
            "let ro := order_by %s fst in let ao := order_by %s fst in "
            "SL [sx_delta d; sx_result_f (apply_f cv ro ao d %s); sx_result_f (apply_ff cv ro ao d %s); "
            "sx_bool (insert_regular cv ro ao d %s); sx_bool (nonneg_paths d)])") % (
        D.coq_udiff_table(D.udiff_table(t1, t2)), ops, D.coq_cfg(zip_, thr, ignore_private), V.to_coq(t1), V.to_coq(t2),
        conv_tbl, "true" if always else "false", ops, V.to_coq(t1), V.to_coq(t2),
        DC.coq_paths(rem), DC.coq_paths(add), V.to_coq(t1), V.to_coq(t1), V.to_coq(t1))


def stream_a(ctx, n):
    from deepdiff import DeepDiff, Delta
    rng = ctx.rng
    pairs = [(a, b, 0) for a, b in FIXED_A]
    tries = 0
    while len(pairs) < n and tries < 50 * n:
        tries += 1
        if rng.random() < 0.4:
            # pure insertions (distinct items: difflib and the pairwise pass both see an insertion) / deletions
            a = rng.sample(rng.choice([["a", "b", "c", "d", "e", "f"], [1, 2, 3, 4, 5, 6], ["a", 1, None, 2.5, "b", 7]]), rng.randint(0, 4))
            b = list(a)
            for _ in range(rng.randint(1, 2)):
                if rng.random() < 0.75 or not b:
                    b.insert(rng.randint(0, len(b)), rng.choice(["x", "y", 8, 9]))
                else:
                    del b[rng.randrange(len(b))]
        else:
            a, b, _k = V.gen_atom_list_pair(rng, maxlen=rng.choice([3, 5, 8]))
        if len(a) == len(b) or V.contains_alias(a, b):
            continue
        pairs.append((tuple(a), tuple(b), rng.choice([0, 0, 1, 2])))
    cases = []
    for a, b, depth in pairs:
        t1, t2 = plant_ld(rng, depth, (a, b))
        if V.contains_alias(t1, t2) or not D.in_model_guard(t1, t2):
            t1, t2, depth = a, b, 0
        for zip_ in (False, True):
            thr = rng.choice((0, 0.33, 0.9))
            x, y = copy.deepcopy(t1), copy.deepcopy(t2)
            try:
                dd = DeepDiff(x, y, zip_ordered_iterables=zip_, threshold_to_diff_deeper=thr)
                d = Delta(dd)
            except Exception as e:
                ctx.count("free:A:diff_raised_" + type(e).__name__)
                continue
            rem, add = DC.impl_orders(d)
            conv = DC.conv_table(DC.type_change_pairs(dd.tree))
            pay = DC.delta_obs(d.diff)
            out, r = outcome(t1, d)
            kind = "inside" if a[:min(len(a), len(b))] != b[:min(len(a), len(b))] else "trailing"
            if out[0] == "raised":
                ctx.count("free:A:%s:raised_%s" % (kind, out[1]))
            else:
                ctx.count("free:A:%s:%s" % (kind, "result_equals_t2" if V.typed_eq(r, t2) else "result_differs")
                          + (":errors_logged" if out[1] else ""))
            ctx.count("free:A:depth_%d" % depth)
            if d.diff.get("_iterable_opcodes"):
                ctx.count("free:A:delta_with_opcodes")
            ctx.seen(("freeA", repr(t1), repr(t2), zip_, thr), nontrivial=True)
            tag = dict(stream="free:A", t1=repr(t1), t2=repr(t2), zip=zip_, thr=thr, impl=repr(out))
            ctx.count("free:A:insert_regular_" + str(out[0] != "raised"))
            cases.append((model_expr_a(t1, t2, zip_, thr, conv, rem, add), [pay, out, out, out[0] != "raised", True], tag))
    ctx.coq_cases("c01fa", HDR, cases, shard=max(20, (len(cases) + 3) // 4), label="tuple length change: payload+faithful apply")


# --------------------------------------------------------------------------------------------------
# (B) free payloads
# --------------------------------------------------------------------------------------------------
ATOMS = [None, True, False, 0, 1, 2, 3, 7, -1, 0.5, 1.5, 2.0, "a", "ab", "", "x", b"x", b""]
DKEYS = ["a", "b", "k", 0, 1, 2, -1, None, True, 1.5, ""]


def g_atom(rng):
    return rng.choice(ATOMS)


def g_value(rng, depth, tuples=True):
    """lists / tuples (atoms only) / dicts / a few sets, nested <= depth"""
    if depth <= 0:
        return g_atom(rng)
    r = rng.random()
    if r < 0.25:
        return g_atom(rng)
    if r < 0.55:
        return [g_value(rng, depth - 1, tuples) for _ in range(rng.randint(0, 4))]
    if r < 0.70:
        if not tuples:
            return g_atom(rng)
        return tuple(g_atom(rng) for _ in range(rng.randint(0, 4)))
    if r < 0.95:
        keys = []
        for k in rng.sample(DKEYS, rng.randint(0, 3)):
            if all(not (k == q) for q in keys):
                keys.append(k)
        return {k: g_value(rng, depth - 1, tuples) for k in keys}
    mem = []
    for a in rng.sample([x for x in ATOMS], rng.randint(0, 3)):
        if all(not (a == q) for q in mem):
            mem.append(a)
    return set(mem) if rng.random() < 0.5 else frozenset(mem)


def g_base(rng):
    r = rng.random()
    if r < 0.15:
        # repeated items (small alphabet, == atoms of different type included): the closest-element search has
        # several candidates, also at equal distance on both sides
        alpha = rng.choice([[1, 2], ["a", "b", "c"], [1, True, 1.0, 2], [None, 0, "x"], [0.5, "a"]])
        xs = [rng.choice(alpha) for _ in range(rng.randint(3, 7))]
        r2 = rng.random()
        return xs if r2 < 0.6 else (tuple(xs) if r2 < 0.75 else {"k": xs, 1: rng.choice(alpha)})
    if r < 0.45:
        return [g_value(rng, 1) for _ in range(rng.randint(0, 5))]
    if r < 0.6:
        return tuple(g_atom(rng) for _ in range(rng.randint(0, 5)))
    if r < 0.8:
        return g_value(rng, 2)
    if r < 0.97:
        v = g_value(rng, 2)
        return v if isinstance(v, (list, dict)) else [v, g_value(rng, 1)]
    return g_atom(rng)


def positions(v, path=()):
    """paths of all sub-values (descending into lists, tuples, dicts)"""
    yield path, v
    if isinstance(v, (list, tuple)):
        for i, x in enumerate(v):
            yield from positions(x, path + (i,))
    elif isinstance(v, dict):
        for k, x in v.items():
            yield from positions(x, path + (k,))


def g_last_key(rng, obj, for_seq):
    """last path element for an operation on obj: valid, boundary, out of range, negative, bool, float, str, None"""
    n = len(obj) if isinstance(obj, (list, tuple, dict, set, frozenset, str, bytes)) else 0
    r = rng.random()
    if isinstance(obj, dict) and not for_seq and r < 0.6:
        return rng.choice(list(obj.keys())) if (obj and rng.random() < 0.6) else rng.choice(DKEYS)
    if r < 0.34:
        return rng.randint(0, max(0, n - 1))
    if r < 0.46:
        return n
    if r < 0.54:
        return n + rng.randint(1, 2)
    if r < 0.76:
        return -rng.randint(1, n + 2)
    if r < 0.82:
        return rng.random() < 0.5          # True / False
    if r < 0.88:
        return rng.choice([0.5, 1.5, 1.0, -0.5, 2.5, 7.5])
    if r < 0.96:
        return rng.choice(DKEYS)
    return rng.choice(["a", None, b"x"])


def g_path(rng, base, for_seq=True, want=None):
    """a path (tuple of keys): the position of a container of base (mostly a list/tuple when for_seq) + a last key;
    sometimes a path through nothing"""
    pos = list(positions(base))
    conts = [(p, v) for p, v in pos if isinstance(v, want or ((list, tuple) if for_seq else (dict, list)))]
    r = rng.random()
    texts = [(p, v) for p, v in pos if isinstance(v, (str, bytes)) and len(v) > 0]
    if conts and r < 0.76:
        p, obj = rng.choice(conts)
    elif texts and r < 0.80:
        p, obj = rng.choice(texts)         # an index into a str / bytes
    elif r < 0.93:
        p, obj = rng.choice(pos)           # any sub-value: atoms, strings, sets, dicts as obj
    else:
        p, obj = rng.choice(pos)
        p, obj = p + (rng.choice([0, 5, "a", -1]),), None      # usually does not resolve
    return p + (g_last_key(rng, obj, for_seq),)


def path_str(p):
    return "root" + "".join("[%r]" % (k,) for k in p)


def near_value(rng, base, p):
    """the value at p in base when there is one (so that removals find what they expect), else random"""
    try:
        v = base
        for k in p:
            v = v[k]
        if rng.random() < 0.7:
            return copy.deepcopy(v)
    except Exception:
        pass
    if isinstance(base, (list, tuple)) and base and rng.random() < 0.6:
        try:
            v = base
            for k in p[:-1]:
                v = v[k]
            if isinstance(v, (list, tuple)) and v:
                return copy.deepcopy(rng.choice(v))       # a value that sits elsewhere in the same list
        except Exception:
            pass
    return g_value(rng, 1)


def g_written(rng):
    """a value that the payload WRITES into the base: tuple-free (see the module docstring)"""
    return g_value(rng, 1, tuples=False)


def detuple(v):
    if isinstance(v, (list, tuple)):
        return [detuple(x) for x in v]
    if isinstance(v, dict):
        return {k: detuple(x) for k, x in v.items()}
    return v


def has_tuple(v):
    if isinstance(v, tuple):
        return True
    if isinstance(v, list):
        return any(has_tuple(x) for x in v)
    if isinstance(v, dict):
        return any(has_tuple(x) for x in v.values())
    return False


def written_values(pay):
    out = [ch["new_value"] for cat in ("values_changed", "type_changes") for ch in pay.get(cat, {}).values()]
    out += list(pay.get("iterable_item_added", {}).values()) + list(pay.get("dictionary_item_added", {}).values())
    out += [ch["value"] for ch in pay.get("iterable_item_moved", {}).values()]
    return out


def g_payload(rng, base):
    pay = {}
    used = {}

    def fresh(group, p):
        """distinct parsed paths inside one group (one Python dict, or two that the code merges)"""
        key = repr(tuple(V.canon_atom(k) for k in p))
        if key in used.setdefault(group, set()):
            return False
        used[group].add(key)
        return True
    bidir = rng.random() < 0.25
    shape = rng.random()
    # a few payloads use a single category, most mix them
    cats = ["val", "type", "iadd", "irem", "moved", "dadd", "drem"]
    if shape < 0.35:
        cats = [rng.choice(["iadd", "irem", "moved", "iadd", "irem"])]
    elif shape < 0.6:
        cats = rng.sample(cats, 2)
    else:
        cats = [c for c in cats if rng.random() < 0.5]
    # a removal whose expected value sits at the same distance on both sides of the index (and not at the index)
    lists_at = [(p, v) for p, v in positions(base) if isinstance(v, list) and len(v) >= 3]
    if lists_at and rng.random() < 0.25:
        p, xs = rng.choice(lists_at)
        cands = [(i, dd) for i in range(len(xs)) for dd in range(1, len(xs)) if i - dd >= 0 and i + dd < len(xs)
                 and xs[i - dd] == xs[i + dd] and not (xs[i] == xs[i - dd]) and not isinstance(xs[i - dd], (list, dict, tuple, set, frozenset))]
        if cands:
            i, dd = rng.choice(cands)
            if rng.random() < 0.7:
                if fresh("irem", p + (i,)):
                    pay.setdefault("iterable_item_removed", {})[path_str(p + (i,))] = xs[i - dd]
            elif fresh("irem", p + (i,)) and fresh("iadd", p + (0,)):
                pay.setdefault("iterable_item_moved", {})[path_str(p + (i,))] = {"new_path": path_str(p + (0,)), "value": xs[i - dd]}
    tuples_at = [p for p, v in positions(base) if isinstance(v, tuple) and p]
    if tuples_at and rng.random() < 0.12:
        # a tuple is written into (coerced, registered for post-processing) and then removed or replaced
        p = rng.choice(tuples_at)
        obj = base
        for k in p:
            obj = obj[k]
        q = p + (rng.randint(0, len(obj)),)
        w = rng.random()
        if w < 0.4 and obj and fresh("val", q[:-1] + (0,)):
            pay.setdefault("values_changed", {})[path_str(q[:-1] + (0,))] = {"new_value": g_written(rng)}
        elif w < 0.7 and fresh("dadd", q):
            pay.setdefault("dictionary_item_added", {})[path_str(q)] = g_written(rng)
        elif fresh("iadd", q):
            pay.setdefault("iterable_item_added", {})[path_str(q)] = g_written(rng)
        w = rng.random()
        if w < 0.5 and fresh("drem", p):
            pay.setdefault("dictionary_item_removed", {})[path_str(p)] = near_value(rng, base, p)
        elif w < 0.8 and fresh("dadd", p):
            pay.setdefault("dictionary_item_added", {})[path_str(p)] = g_written(rng)
        elif len(p) > 1 and fresh("drem", p[:-1]):
            pay.setdefault("dictionary_item_removed", {})[path_str(p[:-1])] = near_value(rng, base, p[:-1])
    for c in cats:
        for _ in range(rng.choice([1, 1, 2, 3])):
            if c == "val":
                p = g_path(rng, base, for_seq=rng.random() < 0.5) if rng.random() < 0.9 else ()
                if fresh("val", p):
                    ch = {"new_value": g_written(rng)}
                    if bidir and rng.random() < 0.8:
                        ch["old_value"] = near_value(rng, base, p)
                    pay.setdefault("values_changed", {})[path_str(p)] = ch
            elif c == "type":
                p = g_path(rng, base, for_seq=rng.random() < 0.5) if rng.random() < 0.9 else ()
                if fresh("type", p):
                    nv = g_written(rng)
                    old = near_value(rng, base, p)
                    ch = {"old_type": type(old), "new_type": type(nv), "new_value": nv}
                    if bidir and rng.random() < 0.8:
                        ch["old_value"] = old
                    pay.setdefault("type_changes", {})[path_str(p)] = ch
            elif c == "iadd":
                p = g_path(rng, base) if rng.random() < 0.97 else ()
                if fresh("iadd", p):
                    pay.setdefault("iterable_item_added", {})[path_str(p)] = g_written(rng)
            elif c == "irem":
                p = g_path(rng, base)
                if fresh("irem", p):
                    pay.setdefault("iterable_item_removed", {})[path_str(p)] = near_value(rng, base, p)
            elif c == "moved":
                p = g_path(rng, base)
                q = p[:-1] + (g_last_key(rng, None, True) if rng.random() < 0.3 else rng.randint(0, 5),) if rng.random() < 0.85 else g_path(rng, base)
                if fresh("irem", p) and fresh("iadd", q):
                    pay.setdefault("iterable_item_moved", {})[path_str(p)] = {"new_path": path_str(q), "value": detuple(near_value(rng, base, p))}
            elif c == "dadd":
                p = g_path(rng, base, for_seq=False) if rng.random() < 0.95 else ()
                if fresh("dadd", p):
                    pay.setdefault("dictionary_item_added", {})[path_str(p)] = g_written(rng)
            elif c == "drem":
                p = g_path(rng, base, for_seq=False)
                if fresh("drem", p):
                    pay.setdefault("dictionary_item_removed", {})[path_str(p)] = near_value(rng, base, p)
    return pay, bidir


def coq_opt(x):
    return "None" if x is None else "(Some %s)" % x


def cp(pstr):
    return D.coq_pathc(DC.parse_pathc(pstr))


def coq_delta(pay, bidir):
    """the payload dict as a DeltaModel.delta literal (lists in dict order)"""
    val = ["(mkVC %s None %s %s)" % (cp(p), coq_opt(V.to_coq(ch["old_value"]) if "old_value" in ch else None), V.to_coq(ch["new_value"]))
           for p, ch in pay.get("values_changed", {}).items()]
    typ = ["(mkTC %s None %s %s %s %s)" % (cp(p), DC.TY_COQ[ch["old_type"]], DC.TY_COQ[ch["new_type"]],
                                         coq_opt(V.to_coq(ch["old_value"]) if "old_value" in ch else None),
                                         coq_opt(V.to_coq(ch["new_value"]) if "new_value" in ch else None))
           for p, ch in pay.get("type_changes", {}).items()]

    def pvs(cat):
        return core.coq_list("(%s, %s)" % (cp(p), V.to_coq(v)) for p, v in pay.get(cat, {}).items())
    moved = ["(%s, %s, %s)" % (cp(p), cp(ch["new_path"]), V.to_coq(ch["value"])) for p, ch in pay.get("iterable_item_moved", {}).items()]
    return "(mkDelta %s %s %s %s %s %s %s [] [] [] %s)" % (
        core.coq_list(val), core.coq_list(typ), pvs("dictionary_item_added"), pvs("dictionary_item_removed"),
        pvs("iterable_item_added"), pvs("iterable_item_removed"), core.coq_list(moved), "true" if bidir else "false")


def pass_orders(pay):
    """the visiting order (path strings) of each sorted pass of Delta.__add__ on this payload"""
    from deepdiff import Delta

    def order(items, reverse):
        try:
            s = sorted(items.items(), key=Delta._sort_key_for_item_added, reverse=reverse)
        except TypeError:
            from functools import cmp_to_key
            s = sorted(items.items(), key=cmp_to_key(Delta._sort_comparison), reverse=reverse)
        return [p for p, _ in s]
    moved = pay.get("iterable_item_moved", {})
    irem = dict(pay.get("iterable_item_removed", {}))
    irem.update({k: v["value"] for k, v in moved.items()})
    iadd = dict(pay.get("iterable_item_added", {}))
    iadd.update({v["new_path"]: None for v in moved.values()})
    second = {v["new_path"]: v["value"] for v in moved.values()}
    drem = dict(pay.get("dictionary_item_removed", {}))
    return dict(rem6=(list(irem), order(irem, True)), rem9=(list(drem), order(drem, True)),
                add7=(list(iadd), order(iadd, False)), add7b=(list(second), order(second, False)))


def table_reproduces(table, given, actual):
    """DeltaShow.order_by (stable insertion sort by the rank of the parsed path in `table`) applied to the pass's
    items in payload order gives the order the implementation used"""
    def rank(p):
        c = DC.parse_pathc(p)
        return table.index(c) if c in table else len(table)
    return sorted(given, key=rank) == actual


def has_container_in_tuple_any(pay):
    for cat, items in pay.items():
        for p, ch in items.items():
            vals = [ch[k] for k in ("new_value", "old_value", "value") if isinstance(ch, dict) and k in ch] if isinstance(ch, dict) and cat in (
                "values_changed", "type_changes", "iterable_item_moved") else [ch]
            if any(DC.has_container_in_tuple(v) for v in vals):
                return True
    return False


def feature_counts(base, pay, bidir):
    """counter keys describing the payload (computed BEFORE the application, which mutates the payload dicts)"""
    keys = ["free:B:bidirectional" if bidir else "free:B:directed"] + ["free:B:cat:" + cat for cat in pay]
    neg = flt = other = 0
    for cat in ("iterable_item_added", "iterable_item_removed", "iterable_item_moved"):
        for p, ch in pay.get(cat, {}).items():
            for q in [p] + ([ch["new_path"]] if cat == "iterable_item_moved" else []):
                c = DC.parse_pathc(q)
                if not c:
                    keys.append("free:B:root_path_in_" + cat)
                    continue
                k = D.uncanon_atom(c[-1][1])
                if isinstance(k, bool):
                    other += 1
                elif isinstance(k, int) and k < 0:
                    neg += 1
                elif isinstance(k, float):
                    flt += 1
                elif not isinstance(k, int):
                    other += 1
    if neg:
        keys.append("free:B:with_negative_index")
    if flt:
        keys.append("free:B:with_float_index")
    if other:
        keys.append("free:B:with_bool_str_none_index")
    if isinstance(base, tuple) or any(isinstance(v, tuple) for _p, v in positions(base)):
        keys.append("free:B:base_with_tuple")
    return keys


def features(ctx, pre, out, calls):
    for k in pre:
        ctx.count(k)
    if out[0] == "raised":
        ctx.count("free:B:raised_" + out[1])
    else:
        ctx.count("free:B:completed" + (":errors_logged" if out[1] else ""))
    if calls["closest"]:
        ctx.count("free:B:find_closest_called")
    if calls["closest_hit"]:
        ctx.count("free:B:find_closest_found_elsewhere")


class Spy:
    """counts what the generated payloads make the code do (coverage counters only)"""

    def __enter__(self):
        from deepdiff import Delta
        self.calls = dict(closest=0, closest_hit=0)
        self.orig = Delta._find_closest_iterable_element_for_index
        me = self

        def wrapped(dself, obj, elem, expected_old_value):
            me.calls["closest"] += 1
            r = me.orig(dself, obj, elem, expected_old_value)
            if r is not None and r != elem:
                me.calls["closest_hit"] += 1
            return r
        Delta._find_closest_iterable_element_for_index = wrapped
        return self

    def __exit__(self, *a):
        from deepdiff import Delta
        Delta._find_closest_iterable_element_for_index = self.orig


# always run (both tiers): one payload per behaviour that DeltaFaithful.v refines, and per lemma of DeltaFaithfulProofs.v
FIXED_B = [
    ([1, 2, 3], {"iterable_item_added": {"root[-1]": 9}}, False),                   # insert(-1, None); obj[-1] = 9
    ([1, 2, 3], {"iterable_item_added": {"root[-3]": 9}}, False),
    ([1, 2, 3], {"iterable_item_added": {"root[-4]": 9}}, False),                   # clamped to the front; obj[-4] replaces it
    ([1, 2, 3], {"iterable_item_added": {"root[-7]": 9}}, False),                   # clamped; obj[-7] fails
    ([], {"iterable_item_added": {"root[-1]": 9}}, False),
    ([1, 2, 3], {"iterable_item_added": {"root[True]": 9}}, False),
    ([1, 2, 3], {"iterable_item_added": {"root[0.5]": 9}}, False),                  # list.insert(0.5, None): TypeError
    ([1, 2, 3], {"iterable_item_added": {"root[3.5]": 9}}, False),
    ([1, 2, 3], {"iterable_item_added": {"root['a']": 9}}, False),                  # 'a' < 3: TypeError
    ((1, 2, 3), {"iterable_item_added": {"root[1]": 9}}, False),                    # tuple.insert: AttributeError
    ((1, 2, 3), {"iterable_item_added": {"root[3]": 9}}, False),
    ((1, 2, 3), {"iterable_item_added": {"root[5]": 9}}, False),
    ({"a": 1}, {"iterable_item_added": {"root[0]": 9}}, False),                     # dict.insert: AttributeError
    ({"a": 1}, {"iterable_item_added": {"root[1]": 9}}, False),                     # 1 >= len: d[1] = 9
    ([5], {"iterable_item_added": {"root[0][0]": 9}}, False),                       # len(5): TypeError
    (["ab"], {"iterable_item_added": {"root[0][0]": 9}}, False),                    # str.insert: AttributeError
    ([1, 2], {"iterable_item_added": {"root": 9}}, False),                          # len(Delta): TypeError
    ([1, 2, 3, 4], {"iterable_item_moved": {"root[0]": {"new_path": "root[2]", "value": 1}}}, False),
    ((1, 2, 3, 4), {"iterable_item_moved": {"root[0]": {"new_path": "root[2]", "value": 1}}}, False),   # coerced by the removal first
    ([1, 2, 3, 4], {"iterable_item_moved": {"root[3]": {"new_path": "root[-1]", "value": 4}}}, False),
    (["x", "y", "x"], {"iterable_item_removed": {"root[1]": "x"}}, False),          # equal distance: the first one wins
    ([1, 2, True], {"iterable_item_removed": {"root[1]": 1}}, False),
    ([3, 2, 5, 4, 3], {"iterable_item_removed": {"root[3]": 3}}, False),
    ([1, 2, 3, 1], {"iterable_item_removed": {"root[-2]": 1}}, False),              # negative elem: the first equal item
    ([1, 2, 3], {"iterable_item_removed": {"root[0.5]": 2}}, False),                # float distances
    ([1, 2, 3], {"iterable_item_removed": {"root['a']": 2}}, False),                # index - 'a': TypeError
    ([], {"iterable_item_removed": {"root['a']": 2}}, False),
    ("abc", {"iterable_item_removed": {"root[0]": "a"}}, False),                    # del 'abc'[0]: TypeError
    ((1, 2, 3), {"iterable_item_removed": {"root[-1]": 1}}, True),                  # a tuple is not searched; verification error
    ((1, 2, 3), {"dictionary_item_added": {"root[5]": 9}, "dictionary_item_removed": {"root[0]": 3}}, False),   # failed write coerces
    ({1: (1, 2)}, {"values_changed": {"root[1][0]": {"new_value": 9}}, "dictionary_item_removed": {"root[1]": 5}}, False),   # join: TypeError
    ({"k": (1, 2)}, {"values_changed": {"root['k'][0]": {"new_value": 9}}, "dictionary_item_removed": {"root['k']": 5}}, False),
    ([(1, 2)], {"values_changed": {"root[0][0]": {"new_value": 9}}, "dictionary_item_added": {"root[0]": {"a": 1, "b": 2}}}, False),   # tuple(dict)
    ([(1, 2)], {"values_changed": {"root[0][0]": {"new_value": 9}}, "dictionary_item_added": {"root[0]": "xy"}}, False),
    ((1, 2), {"values_changed": {"root[0]": {"new_value": 9}}, "dictionary_item_added": {"root": 5}}, False),   # tuple(5) at the root: TypeError
]


def stream_b(ctx, n):
    from deepdiff import Delta
    rng = ctx.rng
    cases = []
    tries = 0
    fixed = list(FIXED_B)
    while (fixed or len(cases) < n) and tries < 20 * n:
        tries += 1
        if fixed:
            base, pay, bidir = fixed.pop(0)
            base, pay = copy.deepcopy(base), copy.deepcopy(pay)
            ctx.count("free:B:fixed")
        else:
            base = g_base(rng)
            pay, bidir = g_payload(rng, base)
        if not pay:
            continue
        if DC.has_container_in_tuple(base) or has_container_in_tuple_any(pay) or any(has_tuple(w) for w in written_values(pay)):
            ctx.count("free:B:skipped:container_in_tuple_or_tuple_written")
            continue
        # path strings must parse back to the generated keys, one parsed path per string
        ok = True
        for cat, items in pay.items():
            for p, ch in items.items():
                try:
                    DC.parse_pathc(p)
                    if cat == "iterable_item_moved":
                        DC.parse_pathc(ch["new_path"])
                except Exception:
                    ok = False
        if not ok:
            ctx.count("free:B:skipped:path_does_not_parse")
            continue
        # the very objects handed to Delta (iteration order of a payload set can show up in the result: tuple(set))
        pay = copy.deepcopy(pay)
        po = pass_orders(pay)
        rem_tbl = [DC.parse_pathc(p) for p in po["rem6"][1]] + [DC.parse_pathc(p) for p in po["rem9"][1]]
        add_tbl = [DC.parse_pathc(p) for p in po["add7"][1]]
        if not (table_reproduces(rem_tbl, *po["rem6"]) and table_reproduces(rem_tbl, *po["rem9"])
                and table_reproduces(add_tbl, *po["add7"]) and table_reproduces(add_tbl, *po["add7b"])):
            ctx.count("free:B:skipped:one_rank_table_cannot_give_both_pass_orders")
            continue
        obs = DC.delta_obs(pay)
        features_pre = feature_counts(base, pay, bidir)
        expr = "(let d := %s in SL [sx_delta d; sx_result_f (apply_ff (fun _ _ => None) (order_by %s fst) (order_by %s fst) d %s)])" % (
            coq_delta(pay, bidir), DC.coq_paths(rem_tbl), DC.coq_paths(add_tbl), V.to_coq(base))
        tag_payload = repr(pay)
        d = Delta(pay, bidirectional=bidir, raise_errors=False)      # __add__ mutates pay (dict.update): nothing below reads it
        with Spy() as spy:
            out, r = outcome(base, d)
        features(ctx, features_pre, out, spy.calls)
        ctx.seen(("freeB", repr(base), tag_payload, bidir), nontrivial=(out[0] == "raised" or not V.typed_eq(r, base)))
        tag = dict(stream="free:B", base=repr(base), payload=tag_payload, bidirectional=bidir, impl=repr(out))
        cases.append((expr, [obs, out], tag))
    for c in cases[:2]:
        ctx.sample(c[2])
    ctx.coq_cases("c01fb", HDR, cases, shard=max(40, (len(cases) + 3) // 4), label="free payloads: payload+faithful apply")


# --------------------------------------------------------------------------------------------------
# (C) inside the guards of the round-trip theorem: the run is insert-regular and the faithful run is the round trip
# --------------------------------------------------------------------------------------------------

def stream_c(ctx, n):
    """pairs inside the guards of C01_roundtrip_partial (DC.guardsb_py + the model guard of c01.in_guard): the hypothesis
    [insert_regular] of DeltaFaithfulRoundtrip.roundtrip_f_at observed on the model's run (expected: true), apply_f and
    apply_ff against the implementation (expected: t2, no error)"""
    from deepdiff import DeepDiff, Delta
    from harness.props import c01 as C1
    rng = ctx.rng
    cases = []
    tries = 0
    while len(cases) < n and tries < 30 * n:
        tries += 1
        r = rng.random()
        if r < 0.4:
            a, b, _k = V.gen_atom_list_pair(rng, maxlen=8)
            if rng.random() < 0.25 and len(a) == len(b):
                a, b = tuple(a), tuple(b)
            t1, t2 = V.plant(rng, rng.choice([0, 1, 2]), (a, b))
        else:
            t1 = V.gen_value(rng, depth=rng.choice([2, 3]), width=4)
            vals, _kinds = V.edit_script(rng, t1, rng.randint(1, 3), alias=False)
            t2 = vals[-1]
        always = rng.random() < 0.3
        if V.typed_eq(t1, t2) or not C1.in_guard(t1, t2) or not DC.guardsb_py(t1, t2, False, always):
            continue
        zip_, thr = rng.random() < 0.5, rng.choice((0, 0.33, 0.9))
        try:
            dd = DeepDiff(copy.deepcopy(t1), copy.deepcopy(t2), zip_ordered_iterables=zip_, threshold_to_diff_deeper=thr)
            d = Delta(dd, always_include_values=always)
        except Exception as e:
            ctx.count("free:C:diff_raised_" + type(e).__name__)
            continue
        rem, add = DC.impl_orders(d)
        conv = DC.conv_table(DC.type_change_pairs(dd.tree))
        pay = DC.delta_obs(d.diff)
        has_add = bool(d.diff.get("iterable_item_added"))
        out, res = outcome(t1, d)
        ctx.count("free:C:pairs")
        if has_add:
            ctx.count("free:C:with_iterable_item_added")
        if out[0] == "raised" or out[1] or not V.typed_eq(res, t2):
            ctx.count("free:C:roundtrip_fails_on_the_implementation")      # c01's direct oracle reports these
        ctx.seen(("freeC", repr(t1), repr(t2), zip_, thr, always), nontrivial=True)
        tag = dict(stream="free:C", t1=repr(t1), t2=repr(t2), zip=zip_, thr=thr, always=always, impl=repr(out))
        cases.append((model_expr_a(t1, t2, zip_, thr, conv, rem, add, always=always), [pay, out, out, True, True], tag))
    ctx.coq_cases("c01fc", HDR, cases, shard=max(20, (len(cases) + 3) // 4), label="inside the guards: faithful apply + insert_regular observed")


def stream(ctx):
    t0 = time.time()
    stream_a(ctx, 200 if ctx.thorough else 30)
    stream_c(ctx, 300 if ctx.thorough else 40)
    stream_b(ctx, 1500 if ctx.thorough else 150)
    ctx.note("free_stream_seconds", round(time.time() - t0, 1))

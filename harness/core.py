"""Shared machinery of the /verif checks.

One check = one property module `harness/props/cNN.py` exposing

    THEOREM_FILE = "Properties/CNN.v"      (relative to coq/theories)
    def run(ctx): ...                      (correspondence + direct oracle)
    MATCHERS = {finding_key: predicate(case_dict) -> bool}    (optional)

`run` uses the Ctx API below:

    ctx.rng                 random.Random seeded from VERIF_SEED (one PRNG per run)
    ctx.tier                "quick" | "thorough"
    ctx.coq_cases(name, header, cases)   evaluate model expressions inside Coq and
                            compare with the implementation's observable
    ctx.fail(case, what)    a concrete input on which the PROPERTY fails on the
                            implementation (direct oracle) -> VIOLATION or KNOWN-FINDING
    ctx.break_(kind, detail)  proof / correspondence break (not yet a violation)
    ctx.note(key, value)    extra evidence
    ctx.sample(obj)         a sample case for the evidence file
    ctx.count(key, n=1)     distribution counters for the evidence file

The driver (`main`) does the proof step first (make + coqc of the property
file with Print Assumptions), then `run`, then decides the exit status by the
protocol of DESIGN.md section 4.2.
"""
import hashlib
import importlib
import json
import os
import random
import re
import shutil
import subprocess
import sys
import tempfile
import time
from concurrent.futures import ThreadPoolExecutor

VERIF = os.path.dirname(os.path.dirname(os.path.abspath(__file__)))
COQ = os.path.join(VERIF, "coq")
THEORIES = os.path.join(COQ, "theories")
REPO = os.environ.get("DEEPDIFF_REPO", "/repo")
GUARD = "SEPERMAN_DEEPDIFF_VERIF"
# worker count for coqc shards / fork pools.  It is a function of the machine only (never of the load): several
# modules partition their generated cases by it, and a run must be a function of VERIF_SEED.  What protects an
# overloaded box is the system-wide coqc slot pool in `sh` below.
NCPU = max(1, int(os.environ["VERIF_NCPU"])) if os.environ.get("VERIF_NCPU") else min(16, os.cpu_count() or 4)

KERNEL_TRUST = [
    "Coq 8.16.1 kernel (coqc, full .vo build; no native_compute; vm_compute used only for kernel-checked conversions in _refuted witnesses / finite lemmas and for evaluating the model in generated cases files)",
    "hand-written Gallina model tied to /repo by the correspondence check of this run (generated cases_*.v evaluated with vm_compute, compared with the implementation's canonicalised observables)",
    "the Python harness (generators, canonicalisers, emitters of Coq terms), CPython",
]


def _clean_env():
    env = dict(os.environ)
    env["PYTHONPATH"] = REPO
    env.setdefault("PYTHONHASHSEED", "0")
    env[GUARD] = "1"
    return env


class _CoqcSlot:
    """System-wide bound on concurrently running coqc processes (each needs 0.5-0.8 GB on a cases shard): one of
    N lock files under the temp directory is held (flock) for the life of the process.  With several checks running
    at once on one box - the builders' agents, a validation pass next to a development run - the sum of their worker
    pools used to exhaust the memory and the OOM killer produced spurious 'coqc failed' shards.  Waiting for a slot
    does not count against the coqc timeout.  If the lock directory cannot be used the call proceeds unbounded."""
    N = min(16, os.cpu_count() or 4)

    def __enter__(self):
        self.f = None
        try:
            import fcntl
            d = os.path.join(tempfile.gettempdir(), "verif_coqc_slots")
            os.makedirs(d, exist_ok=True)
            start = (os.getpid() + int(time.time() * 1000)) % self.N  # not the global PRNG: runs are functions of VERIF_SEED
            t0 = time.time()
            while time.time() - t0 < 3600:
                for k in range(self.N):
                    f = open(os.path.join(d, "slot_%d" % ((start + k) % self.N)), "a")
                    try:
                        fcntl.flock(f, fcntl.LOCK_EX | fcntl.LOCK_NB)
                        self.f = f
                        return self
                    except OSError:
                        f.close()
                time.sleep(0.25)
        except Exception:
            self.f = None
        return self

    def __exit__(self, *a):
        if self.f is not None:
            try:
                self.f.close()
            except Exception:
                pass
        return False


def sh(cmd, timeout=600, cwd=None, env=None):
    if isinstance(cmd, (list, tuple)) and cmd and os.path.basename(str(cmd[0])) == "coqc":
        with _CoqcSlot():
            return _sh(cmd, timeout, cwd, env)
    return _sh(cmd, timeout, cwd, env)


def _sh(cmd, timeout=600, cwd=None, env=None):
    p = subprocess.run(cmd, shell=isinstance(cmd, str), cwd=cwd, env=env or _clean_env(),
                       stdout=subprocess.PIPE, stderr=subprocess.STDOUT, timeout=timeout)
    out = p.stdout.decode("utf-8", "replace")
    out = "\n".join(l for l in out.splitlines() if "conda.cli.condarc" not in l)
    return p.returncode, out


# --------------------------------------------------------------------------
# emitting Coq terms
# --------------------------------------------------------------------------

def coq_string(s):
    """A Coq string literal for a Python str of code points < 256 (bytes)."""
    return '"' + s.replace('"', '""') + '"'


def _ascii_ok(s):
    return all(32 <= ord(c) < 127 for c in s)


def coq_pystr(s):
    """Coq term of type pystr (list N) for a Python str (any code points)."""
    if isinstance(s, bytes):
        s = s.decode("latin-1")
    if _ascii_ok(s):
        return "(s2p " + coq_string(s) + ")"
    return "[" + ";".join(str(ord(c)) for c in s) + "]%N"


def coq_Z(z):
    return "(%d)%%Z" % z if z < 0 else "%d%%Z" % z


def coq_bool(b):
    return "true" if b else "false"


def coq_list(items):
    return "[" + "; ".join(items) + "]"


def sx(obj):
    """Python canonical observable -> Coq sx literal.
    str -> SA (code points > 255 or non printable are escaped as {N}),
    bool -> SA "T"/"F", None -> SA "None", int -> SZ, list/tuple -> SL."""
    if obj is None:
        return 'SA "None"'
    if obj is True:
        return 'SA "T"'
    if obj is False:
        return 'SA "F"'
    if isinstance(obj, int):
        return "SZ " + coq_Z(obj)
    if isinstance(obj, str):
        return "SA " + coq_string(sx_escape(obj))
    if isinstance(obj, (list, tuple)):
        return "SL [" + "; ".join(sx(x) for x in obj) + "]"
    raise TypeError("sx: unsupported %r" % (obj,))


def sx_escape(s):
    """Mirror of Coq's show_pystr: printable ASCII except { and } verbatim,
    everything else as {codepoint}."""
    out = []
    for c in s:
        o = ord(c)
        if 32 <= o < 127 and c not in "{}":
            out.append(c)
        else:
            out.append("{%d}" % o)
    return "".join(out)


def sx_show(obj):
    """Python-side rendering identical to Coq's show_sx (for reports)."""
    if obj is None or obj is True or obj is False:
        return "<%s>" % {None: "None", True: "T", False: "F"}[obj]
    if isinstance(obj, int):
        return str(obj)
    if isinstance(obj, str):
        return "<" + sx_escape(obj).replace("\n", "\\n") + ">"
    return "(" + " ".join(sx_show(x) for x in obj) + ")"


# --------------------------------------------------------------------------
# the context
# --------------------------------------------------------------------------

class Ctx:
    def __init__(self, pid, tier, seed, replay=None):
        self.pid = pid
        self.tier = tier
        self.seed = seed
        self.rng = random.Random(seed)
        self.replay = replay
        self.t0 = time.time()
        self.counts = {}
        self.notes = {}
        self.samples = []
        self.failures = []      # concrete property failures on the implementation
        self.breaks = []        # proof / correspondence breaks
        self.known_seen = {}
        self.evaluations = 0
        self.nontrivial = set()
        self.corr_cases = 0
        self.corr_mismatch = 0
        self.proof = {"obligations": 0, "discharged": 0, "axioms": {}, "theorems": []}
        self.scratch = tempfile.mkdtemp(prefix="verif_%s_" % pid)
        self.findings = load_findings(pid)
        self.mod = None
        self._built = set()
        # extension streams: model coverage beyond the property's stated domain (e.g. class
        # instances in the diff / delta models).  Failures and breaks recorded while an
        # extension is active are written to the evidence file and printed as EXTENSION-NOTE
        # lines; they never produce a VIOLATION (the property's text does not speak about them).
        self._ext = None
        self.extensions = {}
        # source ties: model fragments regenerated from /repo's current source by a translator and
        # proved equal to the hand-written model (source_tie_step); name -> record
        self.source_ties = {}

    # ---- bookkeeping -----------------------------------------------------
    @property
    def thorough(self):
        return self.tier == "thorough"

    def count(self, key, n=1):
        self.counts[key] = self.counts.get(key, 0) + n

    def note(self, key, value):
        self.notes[key] = value

    def sample(self, obj, limit=6):
        if len(self.samples) < limit:
            self.samples.append(obj)

    def seen(self, key, nontrivial=True):
        """Register one evaluated case; key identifies it for distinctness."""
        self.evaluations += 1
        if nontrivial:
            self.nontrivial.add(hashlib.md5(repr(key).encode("utf-8", "replace")).digest()[:8])

    def elapsed(self):
        return time.time() - self.t0

    def tie_broken(self, name=None):
        """True when the source tie `name` (or, without a name, any source tie of this property) is
        not intact in this run: the module then escalates its search (thorough-size streams,
        generated-model-vs-hand-model differencing) even in the quick tier."""
        recs = [r for n, r in self.source_ties.items() if name is None or n == name]
        return any(r.get("status") != "intact" for r in recs)

    # ---- outcome reporting ----------------------------------------------
    def extension(self, name):
        """context manager: `with ctx.extension("Obj"): stream(ctx)`"""
        ctx = self

        class _E:
            def __enter__(self_):
                ctx._ext = name
                ctx.extensions.setdefault(name, {"failures": [], "breaks": [], "n_failures": 0, "n_breaks": 0,
                                                 "corr_cases": 0, "corr_mismatches": 0, "evaluations": 0})
                self_.c0, self_.m0, self_.e0 = ctx.corr_cases, ctx.corr_mismatch, ctx.evaluations
                return ctx

            def __exit__(self_, et, ev, tb):
                x = ctx.extensions[name]
                x["corr_cases"] += ctx.corr_cases - self_.c0
                x["corr_mismatches"] += ctx.corr_mismatch - self_.m0
                x["evaluations"] += ctx.evaluations - self_.e0
                # extension traffic is not part of the property's own correspondence totals
                ctx.corr_cases, ctx.corr_mismatch = self_.c0, self_.m0
                ctx._ext = None
                if et is not None and issubclass(et, Exception):
                    import traceback
                    x["breaks"].append({"kind": "harness", "detail": {"error": repr(ev), "trace": "".join(traceback.format_tb(tb))[-1500:]}})
                    x["n_breaks"] += 1
                    return True
                return False
        return _E()

    def fail(self, case, what):
        """`case` (a JSON-able dict) is a concrete input on which the property
        itself fails on the implementation."""
        if self._ext:
            x = self.extensions[self._ext]
            x["n_failures"] += 1
            if len(x["failures"]) < 5:
                x["failures"].append({"what": what, "case": case})
            return "extension"
        for f in self.findings:
            if f.get("status") != "open":
                continue
            m = (getattr(self.mod, "MATCHERS", {}) or {}).get(f["key"])
            try:
                ok = bool(m and m(case))
            except Exception:
                ok = False
            if ok:
                self.known_seen.setdefault(f["key"], {"what": f["what"], "n": 0, "first": case})
                self.known_seen[f["key"]]["n"] += 1
                return "known"
        self.failures.append({"what": what, "case": case})
        return "new"

    def break_(self, kind, detail):
        if self._ext:
            x = self.extensions[self._ext]
            x["n_breaks"] += 1
            if len(x["breaks"]) < 5:
                x["breaks"].append({"kind": kind, "detail": detail})
            return
        self.breaks.append({"kind": kind, "detail": detail})

    # ---- Coq -------------------------------------------------------------
    def coq_cases(self, name, header, cases, shard=300, timeout=900, label=None):
        """cases: list of (coq_expr_of_type_sx, expected_python_observable, tag).
        `header` is Coq text placed before the case list (imports, Local Open
        Scope ...).  Returns list of (index, tag, model_output_text) for the
        mismatching cases and registers a correspondence break for them."""
        if not cases:
            return []
        self.ensure_built(header)
        shards = [cases[i:i + shard] for i in range(0, len(cases), shard)]
        files = []
        for k, sh_ in enumerate(shards):
            fn = os.path.join(self.scratch, "cases_%s_%d.v" % (name, k))
            with open(fn, "w") as f:
                f.write("From Coq Require Import List String ZArith NArith Bool.\n"
                        "Import ListNotations.\nFrom DD Require Import Base.Sx.\n")
                f.write(header + "\n")
                f.write("Local Open Scope string_scope.\n")
                f.write("Definition cases : list (sx * sx) := [\n")
                f.write(";\n".join("(%s,\n %s)" % (m, sx(e)) for (m, e, _t) in sh_))
                f.write("\n].\nEval vm_compute in run_cases cases.\n")
            files.append(fn)

        def one(fn):
            return sh(["coqc", "-Q", THEORIES, "DD", fn], timeout=timeout, cwd=self.scratch)

        bad = []
        with ThreadPoolExecutor(max_workers=NCPU) as ex:
            results = list(ex.map(one, files))
        # a coqc that was killed (out-of-memory killer / a signal on an overloaded box) says nothing about the model:
        # such shards - non-zero exit without any Coq "Error" in the output - are re-run once, one at a time
        for k, (rc, out) in enumerate(results):
            if rc != 0 and "Error" not in out:
                self.count("coqc_shards_rerun_after_kill")
                results[k] = one(files[k])
        for k, (rc, out) in enumerate(results):
            m = re.search(r'"BEGIN\n(.*)END"', out, re.S)
            if rc != 0 or not m:
                self.break_("correspondence", {"name": name, "shard": k, "error": "coqc failed on generated cases: " + out[-1500:]})
                self.corr_mismatch += len(shards[k])
                continue
            body = m.group(1).replace('""', '"')
            for line in body.splitlines():
                if not line.strip():
                    continue
                idx, _, txt = line.partition("\t")
                i = k * shard + int(idx)
                bad.append((i, cases[i][2], txt))
        self.corr_cases += len(cases)
        self.corr_mismatch += len(bad)
        self.count("corr_cases:" + (label or name), len(cases))
        for (i, tag, txt) in bad[:5]:
            self.break_("correspondence", {
                "name": name, "case": tag, "model": txt, "impl": sx_show(cases[i][1]),
                "model_expr": cases[i][0][:2000]})
        if len(bad) > 5:
            self.break_("correspondence", {"name": name, "more": len(bad) - 5})
        return bad

    def ensure_built(self, header):
        """build (once) the .vo files a generated file imports: `From DD Require Import A.B ...`"""
        mods = []
        for m in re.finditer(r"From\s+DD\s+Require\s+Import\s+(.*?)\.(?:\s|$)", header, re.S):
            mods += m.group(1).split()
        mods = [m for m in mods if m not in self._built]
        if not mods:
            return
        self._built.update(mods)
        targets = " ".join("theories/" + m.replace(".", "/") + ".vo" for m in ["Base.Sx"] + mods)
        rc, out = build_coq(target=targets)
        if rc != 0:
            self.break_("correspondence", {"name": "build of model files", "error": out[-2000:]})

    def coq_eval(self, name, header, expr, timeout=900):
        self.ensure_built(header)
        """Evaluate one Coq expression of type string; returns its text (the
        Coq side must produce `"BEGIN\\n" ++ ... ++ "END"`)."""
        fn = os.path.join(self.scratch, "eval_%s.v" % name)
        with open(fn, "w") as f:
            f.write("From Coq Require Import List String ZArith NArith Bool.\n"
                    "Import ListNotations.\nFrom DD Require Import Base.Sx.\n")
            f.write(header + "\nLocal Open Scope string_scope.\n")
            f.write("Eval vm_compute in (%s).\n" % expr)
        rc, out = sh(["coqc", "-Q", THEORIES, "DD", fn], timeout=timeout, cwd=self.scratch)
        m = re.search(r'"BEGIN\n(.*)END"', out, re.S)
        if rc != 0 or not m:
            self.break_("correspondence", {"name": name, "error": "coqc failed: " + out[-1500:]})
            return None
        return m.group(1).replace('""', '"')


# --------------------------------------------------------------------------
# known findings
# --------------------------------------------------------------------------

def load_findings(pid):
    out = []
    paths = [os.path.join(VERIF, "known_findings.json")]
    d = os.path.join(VERIF, "known_findings.d")
    if os.path.isdir(d):
        paths += sorted(os.path.join(d, x) for x in os.listdir(d) if x.endswith(".json"))
    for p in paths:
        if not os.path.exists(p):
            continue
        with open(p) as f:
            data = json.load(f)
        out += [e for e in data.get("findings", []) if e.get("property") == pid]
    # known_findings.json is assembled from known_findings.d: keep one entry per key, the per-property source wins
    uniq = {}
    for e in out:
        uniq[e["key"]] = e
    return list(uniq.values())


# --------------------------------------------------------------------------
# proof step
# --------------------------------------------------------------------------

def ensure_makefile():
    mk = os.path.join(COQ, "Makefile")
    cp = os.path.join(COQ, "_CoqProject")
    if not os.path.exists(mk) or os.path.getmtime(mk) < os.path.getmtime(cp):
        sh("coq_makefile -f _CoqProject -o Makefile", cwd=COQ)


def build_coq(clean=False, timeout=3000, target=None):
    """full build (setup) or, with target, the dependency cone of one file"""
    cmd = "./mk --clean" if clean else "./mk"
    if target:
        cmd += " " + target
    rc, out = sh(cmd, cwd=COQ, timeout=timeout)
    return rc, out


HYGIENE_RE = re.compile(
    r"\b(Admitted|admit|Axiom|Axioms|Parameter|Parameters|Conjecture|Conjectures|Admit Obligations|"
    r"Unset Guard Checking|Unset Positivity Checking|Unset Universe Checking|bypass_check|"
    r"type-in-type|impredicative-set|native_compute)\b")


def strip_coq_comments(text):
    out, depth, i = [], 0, 0
    while i < len(text):
        if text.startswith("(*", i):
            depth += 1
            i += 2
        elif text.startswith("*)", i) and depth:
            depth -= 1
            i += 2
        else:
            if not depth:
                out.append(text[i])
            i += 1
    return "".join(out)


def hygiene():
    """grep the development for forbidden declarations (outside comments)."""
    bad = []
    for root, _d, files in os.walk(THEORIES):
        for fn in files:
            if not fn.endswith(".v"):
                continue
            p = os.path.join(root, fn)
            txt = strip_coq_comments(open(p).read())
            # strings may legitimately contain words; drop string literals
            txt = re.sub(r'"(?:[^"]|"")*"', '""', txt)
            for ln, line in enumerate(txt.splitlines(), 1):
                if HYGIENE_RE.search(line):
                    bad.append("%s:%d: %s" % (os.path.relpath(p, VERIF), ln, line.strip()[:120]))
            # Variable/Hypothesis outside a section
            depth = 0
            for ln, line in enumerate(txt.splitlines(), 1):
                s = line.strip()
                if re.match(r"Section\s+\w+", s):
                    depth += 1
                elif re.match(r"End\s+\w+\s*\.", s) and depth:
                    depth -= 1  # also closes Modules; only sections matter for us
                elif depth == 0 and re.match(r"(Variables?|Hypothes[ie]s|Context)\b", s):
                    bad.append("%s:%d: %s outside a section" % (os.path.relpath(p, VERIF), ln, s[:80]))
    cp = open(os.path.join(COQ, "_CoqProject")).read()
    if re.search(r"type-in-type|impredicative-set|-vos|-vok|bypass", cp):
        bad.append("_CoqProject: forbidden flag")
    return bad


def proof_step(ctx, thm_file):
    """make (no-op when up to date) + unconditional coqc of the property file,
    parsing Print Assumptions."""
    t = time.time()
    # only the dependency cone of this property's theorem file (plus the Show files the
    # correspondence needs, built on demand below): an unrelated broken file is not this
    # property's proof break
    targets = "theories/" + thm_file[:-2] + ".vo " + " ".join(
        "theories/" + m.replace(".", "/") + ".vo" for m in getattr(ctx.mod, "COQ_NEEDS", []))
    rc, out = build_coq(clean=False, target=targets)
    if rc != 0:
        ctx.break_("proof", {"stage": "make", "log": out[-3000:]})
        # continue: maybe the property file's own cone still compiles
    src = os.path.join(THEORIES, thm_file)
    text = strip_coq_comments(open(src).read())
    thms = re.findall(r"^\s*(?:Theorem|Lemma|Corollary)\s+(\w+)", text, re.M)
    ctx.proof["obligations"] = len(thms)
    ctx.proof["theorems"] = thms
    # compile a copy so parallel checks never race on the .vo
    tmp = os.path.join(ctx.scratch, "prop_" + os.path.basename(thm_file))
    shutil.copy(src, tmp)
    rc2, out2 = sh(["coqc", "-Q", THEORIES, "DD", tmp], timeout=900, cwd=ctx.scratch)
    if rc2 != 0:
        ctx.break_("proof", {"stage": "coqc " + thm_file, "log": out2[-3000:]})
        ctx.proof["discharged"] = 0
    else:
        ctx.proof["discharged"] = len(thms) if rc == 0 else 0
        # Print Assumptions blocks, in file order
        blocks = re.split(r"(?=Closed under the global context|Axioms:)", out2)
        blocks = [b for b in blocks if b.startswith("Closed") or b.startswith("Axioms:")]
        printed = re.findall(r"Print Assumptions\s+(\w+)", text)
        for name, b in zip(printed, blocks):
            if b.startswith("Closed"):
                ctx.proof["axioms"][name] = []
            else:
                ax = re.findall(r"^(\S+)\s*:", b[len("Axioms:"):], re.M)
                ctx.proof["axioms"][name] = ax
        if len(printed) != len(blocks):
            ctx.break_("proof", {"stage": "Print Assumptions", "log": "expected %d blocks, got %d" % (len(printed), len(blocks))})
    hb = hygiene()
    if hb:
        ctx.break_("proof", {"stage": "hygiene", "log": hb[:20]})
        ctx.proof["discharged"] = 0
    ctx.proof["wall_s"] = round(time.time() - t, 1)
    if ctx.thorough and getattr(ctx.mod, "COQCHK", None):
        t = time.time()
        mods = " ".join("DD." + m for m in ctx.mod.COQCHK)
        rc3, out3 = sh("coqchk -silent -o -Q %s DD %s" % (THEORIES, mods), timeout=1800, cwd=COQ)
        ctx.proof["coqchk"] = {"rc": rc3, "wall_s": round(time.time() - t, 1), "tail": out3[-2500:]}
        if rc3 != 0:
            ctx.break_("proof", {"stage": "coqchk", "log": out3[-3000:]})


SRCTIE = os.path.join(COQ, "srctie")
STD_PRIM_RE = re.compile(r"^(FloatAxioms\.|Uint63Axioms\.|PrimInt63\.|PrimFloat\.|Uint63\.|Sint63\.|FloatOps\.|SpecFloat\.|"
                         r"(float|int|abs|add|sub|mul|div|opp|sqrt|eqb|ltb|leb|compare|classify|of_uint63|normfr_mantissa|"
                         r"frshiftexp|ldshiftexp|next_up|next_down|land|lor|lxor|lsl|lsr|of_sint63)$)")


def _sha256_file(p):
    try:
        with open(p, "rb") as f:
            return hashlib.sha256(f.read()).hexdigest()
    except OSError:
        return None


def _hygiene_text(label, text):
    bad = []
    txt = re.sub(r'"(?:[^"]|"")*"', '""', strip_coq_comments(text))
    for ln, line in enumerate(txt.splitlines(), 1):
        if HYGIENE_RE.search(line):
            bad.append("%s:%d: %s" % (label, ln, line.strip()[:120]))
    return bad


def source_tie_step(ctx):
    """Second tie between model and code (DESIGN.md section 4.5): for every entry of the property
    module's SOURCE_TIES, a fail-closed translator (harness/translate/<translator>.py, Python `ast`
    -> Gallina text) regenerates a model fragment from the CURRENT source under REPO; the generated
    file and the committed equivalence proofs coq/srctie/<equiv>.v (generated definition = the
    hand-written model's definition, for all arguments) are compiled in the run's scratch directory.

    status: intact | translator-rejected | generated-model-does-not-compile |
            equivalence-proof-broken | not-closed | hygiene
    A tie that is not intact is NOT by itself a proof or correspondence break (the hand-written
    model and the correspondence check remain the deciding tie, and a harmless rewrite can break a
    syntactic translation): it is recorded in the evidence file, printed as SOURCE-TIE-NOTE, and the
    module escalates its search (ctx.tie_broken()).  A concrete input on which the generated and
    the hand-written model differ is fed to the ordinary correspondence / oracle machinery by the
    module (hook `on_source_tie_break(ctx, name, rec)`), where it is judged like any other case."""
    ties = getattr(ctx.mod, "SOURCE_TIES", None) or []
    if not ties:
        return
    gen_dir = os.path.join(ctx.scratch, "srctie")
    os.makedirs(gen_dir, exist_ok=True)
    for tie in ties:
        t = time.time()
        name = tie["name"]
        rec = {"status": "intact", "translator": "harness/translate/%s.py" % tie["translator"],
               "fragment": tie.get("fragment", ""), "generated_module": "DDGen." + tie["gen_module"],
               "equivalence_files": ["coq/srctie/%s.v" % e for e in tie.get("equiv", [])],
               "source_sha256": {f: _sha256_file(os.path.join(REPO, f)) for f in tie.get("sources", [])},
               "theorems": [], "axioms_per_theorem": {}}
        ctx.source_ties[name] = rec
        needs = tie.get("needs", [])
        if needs:
            rc, out = build_coq(target=" ".join("theories/" + m.replace(".", "/") + ".vo" for m in needs))
            if rc != 0:
                rec.update(status="equivalence-proof-broken", detail="build of the hand-written model failed: " + out[-1500:])
                continue
        try:
            tmod = importlib.import_module("harness.translate." + tie["translator"])
            text = tmod.translate(REPO)
        except Exception as e:  # fail closed: anything outside the supported fragment rejects the source
            rec.update(status="translator-rejected", detail=("%s: %s" % (type(e).__name__, e))[:1500])
            rec["wall_s"] = round(time.time() - t, 1)
            continue
        gen = os.path.join(gen_dir, tie["gen_module"] + ".v")
        with open(gen, "w") as f:
            f.write(text)
        rec["generated_sha256"] = hashlib.sha256(text.encode()).hexdigest()
        rec["generated_lines"] = text.count("\n")
        committed = os.path.join(SRCTIE, tie["gen_module"] + ".v")
        if os.path.exists(committed):
            rec["same_as_committed_generated_file"] = (open(committed).read() == text)
        hb = _hygiene_text(tie["gen_module"] + ".v", text)
        base = ["coqc", "-Q", THEORIES, "DD", "-Q", gen_dir, "DDGen"]
        rc, out = sh(base + [gen], timeout=600, cwd=gen_dir)
        if rc != 0:
            rec.update(status="generated-model-does-not-compile", detail=out[-1500:])
            rec["wall_s"] = round(time.time() - t, 1)
            continue
        for e in tie.get("equiv", []):
            src = os.path.join(SRCTIE, e + ".v")
            if not os.path.exists(src):
                rec.update(status="equivalence-proof-broken", detail="missing file coq/srctie/%s.v" % e)
                break
            etext = open(src).read()
            hb += _hygiene_text(e + ".v", etext)
            dst = os.path.join(gen_dir, e + ".v")
            shutil.copy(src, dst)
            rc, out = sh(base + [dst], timeout=900, cwd=gen_dir)
            stripped = strip_coq_comments(etext)
            thms = re.findall(r"^\s*(?:Theorem|Lemma|Corollary)\s+(\w+)", stripped, re.M)
            if rc != 0:
                rec.update(status="equivalence-proof-broken", detail="coqc %s.v: %s" % (e, out[-1500:]))
                break
            rec["theorems"] += thms
            blocks = [b for b in re.split(r"(?=Closed under the global context|Axioms:)", out)
                      if b.startswith("Closed") or b.startswith("Axioms:")]
            printed = re.findall(r"Print Assumptions\s+(\w+)", stripped)
            for nm, b in zip(printed, blocks):
                rec["axioms_per_theorem"][nm] = [] if b.startswith("Closed") else re.findall(r"^(\S+)\s*:", b[len("Axioms:"):], re.M)
            # the standard library's primitive integers / floats and their specification axioms (as listed for the
            # float-dependent theorems of C19 / C17, DESIGN.md section 6) are accepted and recorded; anything else is not
            foreign = [a for nm in printed for a in rec["axioms_per_theorem"].get(nm, []) if not STD_PRIM_RE.match(a)]
            if len(printed) != len(blocks) or foreign:
                rec.update(status="not-closed", detail="Print Assumptions: %d commands, %d blocks, %r" % (len(printed), len(blocks), rec["axioms_per_theorem"]))
                break
        if hb and rec["status"] == "intact":
            rec.update(status="hygiene", detail=hb[:10])
        rec["wall_s"] = round(time.time() - t, 1)
    for name, rec in ctx.source_ties.items():
        if rec["status"] != "intact":
            hook = getattr(ctx.mod, "on_source_tie_break", None)
            if hook:
                try:
                    rec["search"] = hook(ctx, name, rec)
                except Exception as e:
                    rec["search"] = {"error": repr(e)[:500]}


# --------------------------------------------------------------------------
# evidence + exit protocol
# --------------------------------------------------------------------------

def write_replay(ctx, payload):
    d = os.path.join(VERIF, "replays")
    os.makedirs(d, exist_ok=True)
    h = hashlib.sha1(json.dumps(payload, sort_keys=True, default=repr).encode()).hexdigest()[:10]
    p = os.path.join(d, "%s-%s.json" % (ctx.pid, h))
    with open(p, "w") as f:
        json.dump(payload, f, indent=1, default=repr, sort_keys=True)
    return p


def finish(ctx):
    mod = ctx.mod
    lines = []
    violations = 0
    # known findings
    for key, info in sorted(ctx.known_seen.items()):
        lines.append("KNOWN-FINDING: property=%s %s [%s; %d failing case(s) this run]" % (ctx.pid, info["what"], key, info["n"]))
    # open findings whose witness no longer fails are reported by the module as breaks
    ctx.failures.sort(key=lambda f: len(json.dumps(f["case"], default=repr)))
    for f in ctx.failures[:1]:
        p = write_replay(ctx, {"property": ctx.pid, "kind": "failing-input", "what": f["what"], "case": f["case"],
                               "seed": ctx.seed, "tier": ctx.tier,
                               "how_to_rerun": "./check %s --replay <this file>" % ctx.pid})
        lines.append("VIOLATION property=%s replay=%s" % (ctx.pid, p))
        violations += 1
    if not ctx.failures and ctx.breaks:
        p = write_replay(ctx, {"property": ctx.pid, "kind": "broken-proof-or-correspondence",
                               "what": "the theorem / correspondence named below no longer checks and the search over the implementation found no failing input",
                               "breaks": ctx.breaks[:10], "seed": ctx.seed, "tier": ctx.tier,
                               "theorem_file": getattr(mod, "THEOREM_FILE", None)})
        lines.append("VIOLATION property=%s replay=%s no-failing-input-found" % (ctx.pid, p))
        violations += 1
    ev = {
        "property_id": ctx.pid,
        "tier": ctx.tier,
        "seed": ctx.seed,
        "level": "proof",
        "coverage": {
            "obligations": ctx.proof["obligations"],
            "discharged": ctx.proof["discharged"],
            "checker_cmd": "make -C /verif/coq (full .vo build) && coqc -Q theories DD theories/%s  [Print Assumptions parsed]" % getattr(mod, "THEOREM_FILE", "?"),
            "trusted_base": KERNEL_TRUST + list(getattr(mod, "TRUSTED", [])),
            "theorems": ctx.proof["theorems"],
            "axioms_per_theorem": ctx.proof["axioms"],
            "proof_wall_s": ctx.proof.get("wall_s"),
            "coqchk": ctx.proof.get("coqchk"),
            "evaluations": ctx.evaluations,
            "distinct_nontrivial": len(ctx.nontrivial),
            "rule": getattr(mod, "RULE", ""),
            "samples": ctx.samples or ["(none)"],
            "correspondence": {"cases": ctx.corr_cases, "mismatches": ctx.corr_mismatch},
            "traces_validated_against_impl": ctx.corr_cases,
            "distribution": ctx.counts,
            "breaks": ctx.breaks[:10],
            "known_findings_seen": {k: v["n"] for k, v in ctx.known_seen.items()},
            "direct_oracle_failures": len(ctx.failures),
            "extensions": ctx.extensions,
            "source_tie": ctx.source_ties,
            **ctx.notes,
        },
        "assumptions": list(getattr(mod, "ASSUMPTIONS", [])),
        "wall_s": round(ctx.elapsed(), 2),
        "violations": violations,
    }
    # runs against another copy of the repository (seeded-change tooling) must not
    # overwrite the evidence of the registered checks
    evdir = os.path.join(VERIF, "evidence") if os.path.realpath(REPO) == "/repo" else os.path.join(VERIF, "evidence", "other-repo")
    if getattr(ctx, "no_proof", False) or ctx.replay:
        # development runs (--no-proof) and replays are not records of a registered check
        evdir = os.path.join(VERIF, "evidence", "dev")
    os.makedirs(evdir, exist_ok=True)
    with open(os.path.join(evdir, ctx.pid + ".json"), "w") as f:
        json.dump(ev, f, indent=1, default=repr)
    for name, x in sorted(ctx.extensions.items()):
        if x["n_failures"] or x["n_breaks"]:
            lines.append("EXTENSION-NOTE: property=%s extension=%s (outside the property's stated domain; not a violation): "
                         "%d oracle failure(s), %d model/implementation disagreement(s) or break(s); details in the evidence file"
                         % (ctx.pid, name, x["n_failures"], x["n_breaks"]))
    for name, rec in sorted(ctx.source_ties.items()):
        if rec.get("status") != "intact":
            lines.append("SOURCE-TIE-NOTE: property=%s fragment=%s status=%s (the model fragment translated from the current source is no "
                         "longer proved equal to the hand-written model; not by itself a violation: the correspondence check remains the "
                         "deciding tie and the search was escalated; details in the evidence file)" % (ctx.pid, name, rec.get("status")))
    for l in lines:
        print(l)
    print("%s %s tier=%s seed=%d proof=%d/%d corr=%d cases (%d mismatches) oracle_evals=%d failures=%d known=%d wall=%.1fs" % (
        "FAIL" if violations else "OK", ctx.pid, ctx.tier, ctx.seed, ctx.proof["discharged"], ctx.proof["obligations"],
        ctx.corr_cases, ctx.corr_mismatch, ctx.evaluations, len(ctx.failures), len(ctx.known_seen), ctx.elapsed()))
    shutil.rmtree(ctx.scratch, ignore_errors=True)
    return 1 if violations else 0


def main(argv):
    import argparse
    ap = argparse.ArgumentParser()
    ap.add_argument("pid")
    ap.add_argument("--tier", default=os.environ.get("VERIF_TIER", "quick"), choices=["quick", "thorough"])
    ap.add_argument("--replay", default=None)
    ap.add_argument("--no-proof", action="store_true", help="development only: skip the proof step")
    a = ap.parse_args(argv)
    seed = int(os.environ.get("VERIF_SEED", "20260929"))
    os.environ["PYTHONPATH"] = REPO
    os.environ[GUARD] = "1"
    if REPO not in sys.path:
        sys.path.insert(0, REPO)
    ctx = Ctx(a.pid, a.tier, seed, a.replay)
    ctx.no_proof = a.no_proof
    try:
        ctx.mod = importlib.import_module("harness.props." + a.pid.lower())
        if not a.no_proof:
            proof_step(ctx, ctx.mod.THEOREM_FILE)
        if not a.no_proof or os.environ.get("VERIF_SOURCE_TIE") == "1":
            try:
                source_tie_step(ctx)
            except Exception as e:  # the second tie is optional: its machinery failing is recorded, never an alarm
                ctx.source_ties["_step"] = {"status": "machinery-error", "detail": repr(e)[:800]}
        if a.replay:
            with open(a.replay) as f:
                ctx.mod.replay(ctx, json.load(f))
        else:
            ctx.mod.run(ctx)
    except Exception as e:  # a crash of the check itself must not look like a pass
        import traceback
        ctx.break_("harness", {"error": repr(e), "trace": traceback.format_exc()[-3000:]})
    return finish(ctx)


# --------------------------------------------------------------------------
# ordering on canonical observables, identical to Coq's sx_compare
# --------------------------------------------------------------------------

def _sx_atom_text(o):
    if o is None:
        return "None"
    if o is True:
        return "T"
    if o is False:
        return "F"
    return sx_escape(o)


def sx_cmp(a, b):
    ka = 1 if (isinstance(a, int) and not isinstance(a, bool)) else 2 if isinstance(a, (list, tuple)) else 0
    kb = 1 if (isinstance(b, int) and not isinstance(b, bool)) else 2 if isinstance(b, (list, tuple)) else 0
    if ka != kb:
        return -1 if ka < kb else 1
    if ka == 0:
        x, y = _sx_atom_text(a), _sx_atom_text(b)
        return -1 if x < y else (1 if x > y else 0)
    if ka == 1:
        return -1 if a < b else (1 if a > b else 0)
    for x, y in zip(a, b):
        c = sx_cmp(x, y)
        if c:
            return c
    return -1 if len(a) < len(b) else (1 if len(a) > len(b) else 0)


def sx_sorted(items):
    import functools
    return sorted(items, key=functools.cmp_to_key(sx_cmp))

"""Shared by C01 / C08 (and C14, C20): running Delta on the implementation,
canonicalising payload and results, emitting the model expressions."""
import copy
import logging
from functools import cmp_to_key

from harness import values as V, diffcommon as D
from harness.core import coq_list, sx_sorted

logging.disable(logging.CRITICAL)

HDR = ("From DD Require Import Base.PyStr Base.Value Path.PathModel Diff.Tree Diff.DiffModel Diff.TextView Diff.DiffShow "
       "Delta.DeltaModel Delta.DeltaShow.")


def parse_pathc(p):
    """delta path string -> canonical key sequence as Delta parses it (all GET by atom)"""
    from deepdiff.path import _path_to_elements
    els = _path_to_elements(p, root_element=None)
    return [["k", V.canon_atom(e)] for e, _a in els]


def canon_unordered(v):
    """mirror of DeltaShow.sx_value_unordered"""
    if isinstance(v, list):
        return ["L", [canon_unordered(x) for x in v]]
    if isinstance(v, tuple):
        return ["T", [canon_unordered(x) for x in v]]
    if isinstance(v, dict):
        return ["D", sx_sorted([[V.canon_atom(k), canon_unordered(x)] for k, x in v.items()])]
    if isinstance(v, frozenset):
        return ["F", sx_sorted([V.canon_atom(x) for x in v])]
    if isinstance(v, set):
        return ["S", sx_sorted([V.canon_atom(x) for x in v])]
    return V.canon_atom(v)


def _opt(x):
    return None if x is None else ["Some", x]


_NF = object()


def delta_obs(diff):
    """canonical payload of Delta.diff (mirror of DeltaShow.sx_delta)"""
    out = []
    for p, ch in diff.get("values_changed", {}).items():
        out.append(["val", parse_pathc(p), _opt(parse_pathc(ch["new_path"]) if ch.get("new_path") else None),
                    (["Some", V.canon(ch["old_value"])] if "old_value" in ch else None), V.canon(ch["new_value"])])
    for p, ch in diff.get("type_changes", {}).items():
        out.append(["type", parse_pathc(p), _opt(parse_pathc(ch["new_path"]) if ch.get("new_path") else None),
                    D.TYPE_NAMES[ch["old_type"]], D.TYPE_NAMES[ch["new_type"]],
                    (["Some", V.canon(ch["old_value"])] if "old_value" in ch else None),
                    (["Some", V.canon(ch["new_value"])] if "new_value" in ch else None)])
    for cat, tag in (("dictionary_item_added", "dadd"), ("dictionary_item_removed", "drem"),
                     ("iterable_item_added", "iadd"), ("iterable_item_removed", "irem")):
        for p, v in diff.get(cat, {}).items():
            out.append([tag, parse_pathc(p), V.canon(v)])
    for p, ch in diff.get("iterable_item_moved", {}).items():
        out.append(["moved", parse_pathc(p), parse_pathc(ch["new_path"]), V.canon(ch["value"])])
    for cat, tag in (("set_item_added", "sadd"), ("set_item_removed", "srem")):
        for p, items in diff.get(cat, {}).items():
            out.append([tag, parse_pathc(p), sx_sorted([V.canon_atom(a) for a in items])])
    for p, ops in diff.get("_iterable_opcodes", {}).items():
        out.append(["ops", parse_pathc(p),
                    [[o.tag, o.t1_from_index, o.t1_to_index, o.t2_from_index, o.t2_to_index,
                      [V.canon(x) for x in (o.new_values or [])],
                      _opt([V.canon(x) for x in o.old_values] if o.old_values is not None else None)] for o in ops]])
    known = {"values_changed", "type_changes", "dictionary_item_added", "dictionary_item_removed", "iterable_item_added",
             "iterable_item_removed", "iterable_item_moved", "set_item_added", "set_item_removed", "_iterable_opcodes"}
    for k in sorted(set(diff.keys()) - known):
        out.append(["UNEXPECTED-CATEGORY", k])
    return sx_sorted(out)


TY_COQ = {type(None): "TNone", bool: "TBool", int: "TInt", float: "TFloat", str: "TStr", bytes: "TBytes",
          list: "TList", tuple: "TTuple", dict: "TDict", set: "TSet", frozenset: "TFrozen"}


def in_universe(v):
    try:
        V.canon(v)
        return True
    except Exception:
        return False


def conv_table(pairs):
    """[(new_type, old_value)] -> Coq table of new_type(old_value) (None when the
    call raises or leaves the universe)"""
    rows, seen = [], set()
    for ty, old in pairs:
        key = (ty, repr(V.canon(old)))
        if key in seen:
            continue
        seen.add(key)
        try:
            r = ty(copy.deepcopy(old))
            res = "Some " + V.to_coq(r) if in_universe(r) else "None"
        except Exception:
            res = "None"
        rows.append("(%s, %s, %s)" % (TY_COQ[ty], V.to_coq(old), res))
    return coq_list(rows)


def type_change_pairs(tree, extra_bases=()):
    """(new_type, value) pairs a delta of this tree can ask conv for: the old
    values of its type changes (to_delta) and whatever sits there in a base"""
    out = []
    for lv in tree.get("type_changes", []) or []:
        if type(lv.t1) is not type and type(lv.t2) in TY_COQ and in_universe(lv.t1):
            out.append((type(lv.t2), lv.t1))
    return out


def impl_orders(delta):
    """the order in which the implementation's passes visit their items, as path lists"""
    from deepdiff import Delta

    def order(items, reverse):
        try:
            s = sorted(items.items(), key=Delta._sort_key_for_item_added, reverse=reverse)
        except TypeError:
            s = sorted(items.items(), key=cmp_to_key(Delta._sort_comparison), reverse=reverse)
        return [parse_pathc(p) for p, _ in s]
    diff = delta.diff
    irem = dict(diff.get("iterable_item_removed", {}))
    irem.update({k: v["value"] for k, v in diff.get("iterable_item_moved", {}).items()})
    drem = dict(diff.get("dictionary_item_removed", {}))
    iadd = dict(diff.get("iterable_item_added", {}))
    iadd.update({v["new_path"]: None for v in diff.get("iterable_item_moved", {}).values()})
    rem = order(irem, True) + order(drem, True)
    add = order(iadd, False)
    return rem, add


def coq_paths(ps):
    return coq_list(D.coq_pathc(p) for p in ps)


def model_expr(t1, t2, zip_, thr, bidir, always, base, conv_tbl, rem, add, want="add", ignore_private=True):
    """model of  base + Delta(DeepDiff(t1,t2,cfg), bidirectional, always_include_values)  (want='add')
    or base - delta (want='sub'); also renders the payload"""
    appl = "apply" if want == "add" else "sub"
    res = "sx_result" if want == "add" else "sx_sub_result"
    return ("(let r := run_diff hatom_simple (tbl_udiff %s) (tbl_ops %s) no_paths no_paths %s %s %s in "
            "let cv := tbl_conv %s in "
            "let d := to_delta cv %s %s (tbl_ops %s) %s %s (fst r) (snd r) in "
            "SL [sx_delta d; %s (%s cv (order_by %s fst) (order_by %s fst) d %s)])") % (
        D.coq_udiff_table(D.udiff_table(t1, t2)), D.coq_ops_table(D.opcode_table(t1, t2)),
        D.coq_cfg(zip_, thr, ignore_private), V.to_coq(t1), V.to_coq(t2),
        conv_tbl, "true" if bidir else "false", "true" if always else "false",
        D.coq_ops_table(D.opcode_table(t1, t2)), V.to_coq(t1), V.to_coq(t2),
        res, appl, coq_paths(rem), coq_paths(add), V.to_coq(base))


class Counting:
    """context manager counting Delta._raise_or_log calls (errors logged or raised)"""

    def __enter__(self):
        from deepdiff import Delta
        self.n = 0
        self.orig = Delta._raise_or_log
        me = self

        def wrapped(dself, msg, level="error"):
            me.n += 1
            return me.orig(dself, msg, level)
        Delta._raise_or_log = wrapped
        return self

    def __exit__(self, *a):
        from deepdiff import Delta
        Delta._raise_or_log = self.orig


def has_container_in_tuple(v):
    if isinstance(v, tuple) and any(isinstance(x, (list, tuple, dict, set, frozenset)) for x in v):
        return True
    if isinstance(v, (list, tuple)):
        return any(has_container_in_tuple(x) for x in v)
    if isinstance(v, dict):
        return any(has_container_in_tuple(x) for x in v.values())
    return False

"""Shared by C01 / C08 (and C14, C20): running Delta on the implementation,
canonicalising payload and results, emitting the model expressions."""
import copy
import logging
from functools import cmp_to_key

from harness import values as V, diffcommon as D
from harness.core import coq_list, sx_sorted

logging.disable(logging.CRITICAL)

HDR = ("From DD Require Import Base.PyStr Base.Value Path.PathModel Diff.Tree Diff.DiffModel Diff.TextView Diff.DiffShow "
       "Delta.DeltaModel Delta.DeltaShow.")


def parse_pathc(p):
    """delta path string -> canonical key sequence as Delta parses it (all GET by atom)"""
    from deepdiff.path import _path_to_elements
    els = _path_to_elements(p, root_element=None)
    return [["k", V.canon_atom(e)] for e, _a in els]


def canon_unordered(v):
    """mirror of DeltaShow.sx_value_unordered"""
    if isinstance(v, list):
        return ["L", [canon_unordered(x) for x in v]]
    if isinstance(v, tuple):
        return ["T", [canon_unordered(x) for x in v]]
    if isinstance(v, dict):
        return ["D", sx_sorted([[V.canon_atom(k), canon_unordered(x)] for k, x in v.items()])]
    if isinstance(v, frozenset):
        return ["F", sx_sorted([V.canon_atom(x) for x in v])]
    if isinstance(v, set):
        return ["S", sx_sorted([V.canon_atom(x) for x in v])]
    return V.canon_atom(v)


def _opt(x):
    return None if x is None else ["Some", x]


_NF = object()


def delta_obs(diff):
    """canonical payload of Delta.diff (mirror of DeltaShow.sx_delta)"""
    out = []
    for p, ch in diff.get("values_changed", {}).items():
        out.append(["val", parse_pathc(p), _opt(parse_pathc(ch["new_path"]) if ch.get("new_path") else None),
                    (["Some", V.canon(ch["old_value"])] if "old_value" in ch else None), V.canon(ch["new_value"])])
    for p, ch in diff.get("type_changes", {}).items():
        out.append(["type", parse_pathc(p), _opt(parse_pathc(ch["new_path"]) if ch.get("new_path") else None),
                    D.TYPE_NAMES[ch["old_type"]], D.TYPE_NAMES[ch["new_type"]],
                    (["Some", V.canon(ch["old_value"])] if "old_value" in ch else None),
                    (["Some", V.canon(ch["new_value"])] if "new_value" in ch else None)])
    for cat, tag in (("dictionary_item_added", "dadd"), ("dictionary_item_removed", "drem"),
                     ("iterable_item_added", "iadd"), ("iterable_item_removed", "irem")):
        for p, v in diff.get(cat, {}).items():
            out.append([tag, parse_pathc(p), V.canon(v)])
    for p, ch in diff.get("iterable_item_moved", {}).items():
        out.append(["moved", parse_pathc(p), parse_pathc(ch["new_path"]), V.canon(ch["value"])])
    for cat, tag in (("set_item_added", "sadd"), ("set_item_removed", "srem")):
        for p, items in diff.get(cat, {}).items():
            out.append([tag, parse_pathc(p), sx_sorted([V.canon_atom(a) for a in items])])
    for p, ops in diff.get("_iterable_opcodes", {}).items():
        out.append(["ops", parse_pathc(p),
                    [[o.tag, o.t1_from_index, o.t1_to_index, o.t2_from_index, o.t2_to_index,
                      [V.canon(x) for x in (o.new_values or [])],
                      _opt([V.canon(x) for x in o.old_values] if o.old_values is not None else None)] for o in ops]])
    known = {"values_changed", "type_changes", "dictionary_item_added", "dictionary_item_removed", "iterable_item_added",
             "iterable_item_removed", "iterable_item_moved", "set_item_added", "set_item_removed", "_iterable_opcodes"}
    for k in sorted(set(diff.keys()) - known):
        out.append(["UNEXPECTED-CATEGORY", k])
    return sx_sorted(out)


TY_COQ = {type(None): "TNone", bool: "TBool", int: "TInt", float: "TFloat", str: "TStr", bytes: "TBytes",
          list: "TList", tuple: "TTuple", dict: "TDict", set: "TSet", frozenset: "TFrozen"}


def in_universe(v):
    try:
        V.canon(v)
        return True
    except Exception:
        return False


def conv_table(pairs):
    """[(new_type, old_value)] -> Coq table of new_type(old_value) (None when the
    call raises or leaves the universe)"""
    rows, seen = [], set()
    for ty, old in pairs:
        key = (ty, repr(V.canon(old)))
        if key in seen:
            continue
        seen.add(key)
        try:
            r = ty(copy.deepcopy(old))
            res = "Some " + V.to_coq(r) if in_universe(r) else "None"
        except Exception:
            res = "None"
        rows.append("(%s, %s, %s)" % (TY_COQ[ty], V.to_coq(old), res))
    return coq_list(rows)


def type_change_pairs(tree, extra_bases=()):
    """(new_type, value) pairs a delta of this tree can ask conv for: the old
    values of its type changes (to_delta) and whatever sits there in a base"""
    out = []
    for lv in tree.get("type_changes", []) or []:
        if type(lv.t1) is not type and type(lv.t2) in TY_COQ and in_universe(lv.t1):
            out.append((type(lv.t2), lv.t1))
    return out


def impl_orders(delta):
    """the order in which the implementation's passes visit their items, as path lists"""
    from deepdiff import Delta

    def order(items, reverse):
        try:
            s = sorted(items.items(), key=Delta._sort_key_for_item_added, reverse=reverse)
        except TypeError:
            s = sorted(items.items(), key=cmp_to_key(Delta._sort_comparison), reverse=reverse)
        return [parse_pathc(p) for p, _ in s]
    diff = delta.diff
    irem = dict(diff.get("iterable_item_removed", {}))
    irem.update({k: v["value"] for k, v in diff.get("iterable_item_moved", {}).items()})
    drem = dict(diff.get("dictionary_item_removed", {}))
    iadd = dict(diff.get("iterable_item_added", {}))
    iadd.update({v["new_path"]: None for v in diff.get("iterable_item_moved", {}).values()})
    rem = order(irem, True) + order(drem, True)
    add = order(iadd, False)
    return rem, add


def coq_paths(ps):
    return coq_list(D.coq_pathc(p) for p in ps)


def model_expr(t1, t2, zip_, thr, bidir, always, base, conv_tbl, rem, add, want="add", ignore_private=True):
    """model of  base + Delta(DeepDiff(t1,t2,cfg), bidirectional, always_include_values)  (want='add')
    or base - delta (want='sub'); also renders the payload"""
    appl = "apply" if want == "add" else "sub"
    res = "sx_result" if want == "add" else "sx_sub_result"
    return ("(let r := run_diff hatom_deep (tbl_udiff %s) (tbl_ops %s) no_paths no_paths %s %s %s in "
            "let cv := tbl_conv %s in "
            "let d := to_delta cv %s %s (tbl_ops %s) %s %s (fst r) (snd r) in "
            "SL [sx_delta d; %s (%s cv (order_by %s fst) (order_by %s fst) d %s)])") % (
        D.coq_udiff_table(D.udiff_table(t1, t2)), D.coq_ops_table(D.opcode_table(t1, t2)),
        D.coq_cfg(zip_, thr, ignore_private), V.to_coq(t1), V.to_coq(t2),
        conv_tbl, "true" if bidir else "false", "true" if always else "false",
        D.coq_ops_table(D.opcode_table(t1, t2)), V.to_coq(t1), V.to_coq(t2),
        res, appl, coq_paths(rem), coq_paths(add), V.to_coq(base))


class Counting:
    """context manager counting Delta._raise_or_log calls (errors logged or raised)"""

    def __enter__(self):
        from deepdiff import Delta
        self.n = 0
        self.orig = Delta._raise_or_log
        me = self

        def wrapped(dself, msg, level="error"):
            me.n += 1
            return me.orig(dself, msg, level)
        Delta._raise_or_log = wrapped
        return self

    def __exit__(self, *a):
        from deepdiff import Delta
        Delta._raise_or_log = self.orig


def has_container_in_tuple(v):
    if isinstance(v, tuple) and any(isinstance(x, (list, tuple, dict, set, frozenset)) for x in v):
        return True
    if isinstance(v, (list, tuple)):
        return any(has_container_in_tuple(x) for x in v)
    if isinstance(v, dict):
        return any(has_container_in_tuple(x) for x in v.values())
    return False


# ---- C01: the hypotheses of the round-trip theorem, observed on the implementation ----
# Python mirrors of the Coq booleans of Delta/DeltaChain.v + Delta/DeltaHyp.v: the model value is
# compared with the mirror (agreement), and the mirror is what gets counted / asserted.

HYP_HDR = HDR[:-1] + " Delta.DeltaChain Delta.DeltaHyp."


def _is_atom(v):
    return not isinstance(v, (list, tuple, dict, set, frozenset))


def _atoms_of(v, acc):
    if isinstance(v, (list, tuple)):
        for x in v:
            _atoms_of(x, acc)
    elif isinstance(v, dict):
        for k, x in v.items():
            acc.append(k)
            _atoms_of(x, acc)
    elif isinstance(v, (set, frozenset)):
        acc.extend(v)
    else:
        acc.append(v)


def _py_eq(a, b):
    """Value.py_eq: numbers (bool/int/float) compare numerically, str with str, bytes with bytes, None with None"""
    num = (bool, int, float)
    if isinstance(a, num) and isinstance(b, num):
        return a == b
    if type(a) is type(b) and isinstance(a, (str, bytes, type(None))):
        return a == b
    return False


def alias_free_py(t1, t2):
    atoms = []
    _atoms_of(t1, atoms)
    _atoms_of(t2, atoms)
    for i, a in enumerate(atoms):
        for b in atoms[i + 1:]:
            if _py_eq(a, b) and type(a) is not type(b):
                return False
    return True


def okpb_py(t1, t2, bidir, always):
    if isinstance(t1, list) and isinstance(t2, list):
        return all(okpb_py(x, y, bidir, always) for x, y in zip(t1, t2))
    if isinstance(t1, tuple) and isinstance(t2, tuple):
        return all(_is_atom(x) for x in t1) and all(_is_atom(y) for y in t2) and len(t1) == len(t2)
    if isinstance(t1, dict) and isinstance(t2, dict):
        return all(okpb_py(v1, t2[k], bidir, always) for k, v1 in t1.items() if k in t2)
    return type(t1) is type(t2) or bidir or always or (_is_atom(t1) and _is_atom(t2))


def nopriv_py(v):
    if isinstance(v, (list, tuple)):
        return all(nopriv_py(x) for x in v)
    if isinstance(v, dict):
        return all(not (isinstance(k, str) and k.startswith("__")) and nopriv_py(x) for k, x in v.items())
    return True


def guardsb_py(t1, t2, bidir, always, ignore_private=True):
    """mirror of DeltaChain.guardsb (wf holds of every Python value)"""
    return (alias_free_py(t1, t2) and okpb_py(t1, t2, bidir, always)
            and ((not ignore_private) or (nopriv_py(t1) and nopriv_py(t2))))


def guards_reasons(t1, t2, bidir, always, ignore_private=True):
    out = []
    if not alias_free_py(t1, t2):
        out.append("alias")
    if not okpb_py(t1, t2, bidir, always):
        out.append("tuple_or_type_change")
    if ignore_private and not (nopriv_py(t1) and nopriv_py(t2)):
        out.append("private_key")
    return out


def valid_ops_py(xs, ys, ops):
    """mirror of DeltaChain.valid_opsb on difflib opcodes (tag, i1, i2, j1, j2)"""
    i = j = 0
    for (tag, i1, i2, j1, j2) in ops:
        if i1 != i or j1 != j or i1 > i2 or j1 > j2:
            return False
        if tag == "equal":
            a, b = list(xs[i1:i2]), list(ys[j1:j2])
            if (i2 - i1) != (j2 - j1) or len(a) != len(b):
                return False
            if not all(_is_atom(x) and _is_atom(y) and _py_eq(x, y) for x, y in zip(a, b)):
                return False
        elif tag == "replace":
            if not (i1 < i2 and j1 < j2):
                return False
        elif tag == "delete":
            if not (i1 < i2 and j1 == j2):
                return False
        elif tag == "insert":
            if not (i1 == i2 and j1 < j2):
                return False
        else:
            return False
        i, j = i2, j2
    return i == len(xs) and j == len(ys)


def _at(v, cpath):
    for tag, x in cpath:
        v = v[x] if tag == "x" else v[D.uncanon_atom(x)]
    return v


def ops_table_ok_py(t1, t2, table):
    return all(valid_ops_py(_at(t1, p), _at(t2, p), ops) for p, ops in table)


def idx_lt_c(p1, p2):
    """mirror of DeltaChain.idx_ltb on canonical parsed paths: first divergence at two int keys, p1's smaller"""
    for (a, b) in zip(p1, p2):
        if a == b:
            continue
        ka, kb = a[1], b[1]
        if isinstance(ka, list) and isinstance(kb, list) and ka[0] == "i" and kb[0] == "i":
            return ka[1] < kb[1]
        return False
    return False


def desc_ok(paths):
    return all(not idx_lt_c(paths[i], paths[j]) for i in range(len(paths)) for j in range(i + 1, len(paths)))


def asc_ok(paths):
    return all(not idx_lt_c(paths[j], paths[i]) for i in range(len(paths)) for j in range(i + 1, len(paths)))


def impl_orders_split(delta):
    """visiting orders of the three sorted passes restricted to the payload categories the model sorts
    (iterable_item_removed, dictionary_item_removed, iterable_item_added), and whether the
    mixed-type fallback comparator was used"""
    from deepdiff import Delta
    fallback = [False]

    def order(items, reverse):
        try:
            s = sorted(items.items(), key=Delta._sort_key_for_item_added, reverse=reverse)
        except TypeError:
            fallback[0] = True
            s = sorted(items.items(), key=cmp_to_key(Delta._sort_comparison), reverse=reverse)
        return [p for p, _ in s]
    diff = delta.diff
    irem = dict(diff.get("iterable_item_removed", {}))
    irem.update({k: v["value"] for k, v in diff.get("iterable_item_moved", {}).items()})
    iadd = dict(diff.get("iterable_item_added", {}))
    iadd.update({v["new_path"]: None for v in diff.get("iterable_item_moved", {}).values()})
    drem = dict(diff.get("dictionary_item_removed", {}))
    r6 = [parse_pathc(p) for p in order(irem, True) if p in diff.get("iterable_item_removed", {})]
    r9 = [parse_pathc(p) for p in order(drem, True)]
    a7 = [parse_pathc(p) for p in order(iadd, False) if p in diff.get("iterable_item_added", {})]
    return r6, r9, a7, fallback[0]


def hyp_expr(t1, t2, zip_, thr, bidir, always, conv_tbl, rem, add, ignore_private=True):
    """Coq expression (sx) of the three observed hypotheses: guardsb, valid_opsb on every difflib
    opcode list, descending / ascending visiting orders (+ permutation on the paths)"""
    ops = D.coq_ops_table(D.opcode_table(t1, t2))
    return ("(let r := run_diff hatom_deep (tbl_udiff %s) (tbl_ops %s) no_paths no_paths %s %s %s in "
            "let cv := tbl_conv %s in "
            "let d := to_delta cv %s %s (tbl_ops %s) %s %s (fst r) (snd r) in "
            "sx_hyp (guardsb %s %s %s %s %s) (ops_table_okb %s %s %s) "
            "(orders_okb (order_by %s fst) (order_by %s fst) d))") % (
        D.coq_udiff_table(D.udiff_table(t1, t2)), ops, D.coq_cfg(zip_, thr, ignore_private), V.to_coq(t1), V.to_coq(t2),
        conv_tbl, "true" if bidir else "false", "true" if always else "false", ops, V.to_coq(t1), V.to_coq(t2),
        D.coq_cfg(zip_, thr, ignore_private), "true" if bidir else "false", "true" if always else "false",
        V.to_coq(t1), V.to_coq(t2), V.to_coq(t1), V.to_coq(t2), ops, coq_paths(rem), coq_paths(add))


# ---- C01: ignore_order payload (index maps) ----
IO_HDR = HDR[:-1] + " Hash.HashModel DiffIO.DiffIOModel DiffIO.DiffIOShow Delta.DeltaIO Delta.DeltaIOShow."


def delta_io_obs(diff):
    """canonical payload of a Delta built from DeepDiff(ignore_order=True) (mirror of DeltaIOShow.sx_delta_io)"""
    keys = ("iterable_items_added_at_indexes", "iterable_items_removed_at_indexes")
    base = {k: v for k, v in diff.items() if k not in keys}
    maps = []
    for k, tag in zip(keys, ("addat", "remat")):
        for p, m in diff.get(k, {}).items():
            maps.append([tag, parse_pathc(p), sx_sorted([[i, V.canon(x)] for i, x in m.items()])])
    return [delta_obs(base), sx_sorted(maps)]


def model_io_expr(t1, t2, thr, rep, pairs_tbl_coq, conv_tbl, rem, add, base):
    return "run_dio %s %s %s %s %s %s %s false false %s %s %s" % (
        D.coq_udiff_table(D.udiff_table(t1, t2)), D.coq_cfg(False, thr), "true" if rep else "false",
        pairs_tbl_coq, conv_tbl, coq_paths(rem), coq_paths(add), V.to_coq(t1), V.to_coq(t2), V.to_coq(base))


def model_expr_hyp(t1, t2, zip_, thr, bidir, always, base, conv_tbl, rem, add, ignore_private=True):
    """model_expr (payload + applied result) and the observed hypotheses (hyp_expr) in ONE Coq expression sharing
    the diff and the delta: SL [payload; result; sx_hyp guardsb valid_ops orders_ok]"""
    ops = D.coq_ops_table(D.opcode_table(t1, t2))
    b = lambda x: "true" if x else "false"
    return ("(let r := run_diff hatom_simple (tbl_udiff %s) (tbl_ops %s) no_paths no_paths %s %s %s in "
            "let cv := tbl_conv %s in "
            "let d := to_delta cv %s %s (tbl_ops %s) %s %s (fst r) (snd r) in "
            "SL [sx_delta d; sx_result (apply cv (order_by %s fst) (order_by %s fst) d %s); "
            "sx_hyp (guardsb %s %s %s %s %s) (ops_table_okb %s %s %s) (orders_okb (order_by %s fst) (order_by %s fst) d)])") % (
        D.coq_udiff_table(D.udiff_table(t1, t2)), ops, D.coq_cfg(zip_, thr, ignore_private), V.to_coq(t1), V.to_coq(t2),
        conv_tbl, b(bidir), b(always), ops, V.to_coq(t1), V.to_coq(t2),
        coq_paths(rem), coq_paths(add), V.to_coq(base),
        D.coq_cfg(zip_, thr, ignore_private), b(bidir), b(always), V.to_coq(t1), V.to_coq(t2),
        V.to_coq(t1), V.to_coq(t2), ops, coq_paths(rem), coq_paths(add))

"""C04 - every reported entry is backed by the inputs (default alignment mode).

proof:           Diff/DiffFaithful.v, TextFaithful.v, FaithfulShape.v, FaithfulSource.v, FaithfulExact.v,
                 FaithfulMemo.v -> Properties/C04.v (all values, every opcode oracle; K17 / K18 characterised exactly)
correspondence:  tree-view result (kind, both key sequences, both leaf objects, diff
                 text) + recorded-opcode paths of DeepDiff in default mode vs the model; pairs whose sets hold
                 ==-aliased members against the model with DeepDiff's run-wide table (Diff/DiffMemo.v);
                 removes_at / adds_at of the difflib opcodes (the vocabulary of C04_K17_exact) against the
                 Python reading the K17 / K18 matchers use; the entry-local guard of C04_text_*_local
direct oracle:   the property itself on the text view with deepdiff.extract
"""
import base64
import copy
import difflib
import pickle
import re

from harness import core, values as V, diffcommon as D

THEOREM_FILE = "Properties/C04.v"
COQCHK = ["Properties.C04"]
RULE = ("pairs: (a) lists over a 4-atom alphabet, length <= 12, related by insert/delete/replace/move/duplicate/rotate edits (plus an adjacent swap behind an insertion: the K17 shape in a quarter of them; plus replaced items on both sides of an insertion/deletion in one list of distinct atoms: same-index and shifted replace blocks in one run), planted under 0-2 "
        "common container levels; (a') dicts with 4-8 common keys inserted in different orders, and t2 with all dicts rebuilt in shuffled insertion order (20%); (b) random nested values and edit scripts (1-3 edits); (c) pairs with one to three set / frozenset pairs holding ==-aliased numbers (1 / True / 1.0 ...) at list positions, dict values or nested (5%); "
        "one container object at two positions of t1 in 15% + a dedicated 4% stream; x verbose {1,2} x threshold {0,0.33,0.9}, default "
        "alignment (zip_ordered_iterables=False). Non-trivial = the diff is non-empty; distinct by (t1, t2).")
TRUSTED = ["difflib.SequenceMatcher opcodes are an oracle: the theorems hold for EVERY opcode list, the correspondence feeds the model the opcodes difflib returns",
           "DeepHash of set members: HashModel.hash_atom with the injective hex hasher in place of SHA-256 (same equality pattern assumed); pairs whose sets hold == atoms of different type are compared with the table-threaded model Diff/DiffMemo.v run_diff_m (C04_with_table_*), all others with the memo-free model",
           "values are tree-shaped (no shared mutable containers), floats are half-integers, no bytes dict keys (finding F5)"]
ASSUMPTIONS = ["threshold_to_diff_deeper <= 1", "dict/set inputs satisfy Python's representation invariant (keys pairwise !=)"]

THRS = (0, 0.33, 0.9)


# ---------------------------------------------------------------------------
# the shapes of C04_K17_exact / C04_K18_exact, read off difflib's opcodes in Python
# (compared with Diff/FaithfulSource.v removes_at / adds_at inside Coq on every run: stream "marks")
# ---------------------------------------------------------------------------

def py_removes_at(ops, i):
    """some block removes t1 index i: inside a 'delete' block, or in the surplus of the t1 chunk of a 'replace' block"""
    return any((tag == "delete" and i1 <= i < i2) or (tag == "replace" and i1 + (j2 - j1) <= i < i2)
               for tag, i1, i2, j1, j2 in ops)


def py_adds_at(ops, i):
    """some block adds t2 index i: inside an 'insert' block, or in the surplus of the t2 chunk of a 'replace' block"""
    return any((tag == "insert" and j1 <= i < j2) or (tag == "replace" and j1 + (i2 - i1) <= i < j2)
               for tag, i1, i2, j1, j2 in ops)


_LAST_IDX = re.compile(r"^(.*)\[(\d+)\]$")


def parent_lists(t1, t2, path):
    """(parent path string, index, the two all-atom sequences of one type that t1 / t2 hold there) or None"""
    from deepdiff import extract
    m = _LAST_IDX.match(path)
    if not m:
        return None
    parent, i = m.group(1), int(m.group(2))
    try:
        a, b = extract(t1, parent), extract(t2, parent)
    except Exception:
        return None
    if not (type(a) is type(b) and isinstance(a, (list, tuple)) and D.all_atoms(a) and D.all_atoms(b)):
        return None
    return parent, i, a, b


def recorded_paths(t1, t2, thr):
    """keys of _iterable_opcodes: the lists on which the opcode replay won"""
    from deepdiff import DeepDiff
    r = DeepDiff(copy.deepcopy(t1), copy.deepcopy(t2), view="tree", threshold_to_diff_deeper=thr)
    return set(r._iterable_opcodes.keys())


def k17_shape(t1, t2, path, thr, old, new):
    """C04_K17_exact, right-hand side: the parent is a pair of all-atom sequences whose opcodes were recorded,
    a block removes t1 index i, a block adds t2 index i, t1[parent][i] == t2[parent][i], and these two items
    are what is reported"""
    pl = parent_lists(t1, t2, path)
    if pl is None:
        return False
    parent, i, a, b = pl
    ops = difflib.SequenceMatcher(isjunk=None, a=a, b=b, autojunk=False).get_opcodes()
    return bool(i < len(a) and i < len(b) and py_removes_at(ops, i) and py_adds_at(ops, i) and a[i] == b[i]
                and V.typed_eq(a[i], old) and V.typed_eq(b[i], new) and parent in recorded_paths(t1, t2, thr))


def k18_shape(t1, t2, path, new_path, old, new):
    """C04_K18_exact, right-hand side: the entry is the k-th compared pair of a 'replace' block whose chunks
    start at different indexes (path = parent[i1+k], new_path of the verbose_level=2 run = parent[j1+k]), the two
    items are not ==, and t2 does not hold the reported new value at the t1 index"""
    pl = parent_lists(t1, t2, path)
    m = _LAST_IDX.match(new_path or "")
    if pl is None or not m or m.group(1) != pl[0]:
        return False
    parent, i, a, b = pl
    j = int(m.group(2))
    ops = difflib.SequenceMatcher(isjunk=None, a=a, b=b, autojunk=False).get_opcodes()
    for tag, i1, i2, j1, j2 in ops:
        k = i - i1
        if (tag == "replace" and i1 != j1 and 0 <= k < min(i2 - i1, j2 - j1) and j == j1 + k
                and V.typed_eq(a[i], old) and V.typed_eq(b[j], new) and not (a[i] == b[j])
                and not (i < len(b) and V.typed_eq(b[i], new))):
            return True
    return False


def k17(case):
    """values_changed with identical old and new value at a list index (made by
    mutual_add_removes from an add and a remove at one path, default mode).  Matcher audit: (a) the failing
    clause is "really differ" and nothing else (check_entries reaches it only after both sides resolved),
    (b)+(c) the input and the entry have the shape of C04_K17_exact (recomputed from difflib in k17_shape)."""
    return (case.get("clause") == "changed value does not differ" and case.get("category") == "values_changed"
            and not case.get("zip") and case.get("k17_shape") is True)


def k18(case):
    """verbose_level=1 omits new_path: the new value sits at another index of t2
    (the verbose_level=2 result gives the new_path and it resolves).  Matcher audit: (a) the clause is the
    t2-side resolution at verbose_level=1 of a values_changed / type_changes entry, (b)+(c) the entry is a
    shifted pair of a 'replace' block as in C04_K18_exact (k18_shape) and the verbose_level=2 run of the same
    call carries a new_path that resolves to the reported value."""
    return (case.get("clause") == "new value does not resolve in t2" and case.get("verbose_level") == 1
            and case.get("category") in ("values_changed", "type_changes")
            and not case.get("zip") and case.get("verbose2_new_path_resolves") is True and case.get("k18_shape") is True)


MATCHERS = {"K17": k17, "K18": k18}


def check_entries(ctx, t1, t2, res, verbose, cfg, skip=None):
    """the property on a text-view result; with `skip`, only on the entries whose path it does not reject
    (C04_text_entries_faithful_local: an entry whose own path keys satisfy C09's guard is faithful whatever
    other keys the inputs hold)"""
    from deepdiff import extract
    if skip is not None:
        kept = {}
        for cat, items in res.items():
            if isinstance(items, dict):
                kept[cat] = {p: v for p, v in items.items() if not skip(p)}
            else:
                try:
                    kept[cat] = [p for p in items if not skip(p)]
                except TypeError:
                    kept[cat] = items
        ctx.count("local_guard_stream:entries checked", sum(len(v) for v in kept.values() if hasattr(v, "__len__")))
        ctx.count("local_guard_stream:entries skipped (hostile key on their own path)",
                  sum(len(v) for v in res.values() if hasattr(v, "__len__")) - sum(len(v) for v in kept.values() if hasattr(v, "__len__")))
        res = kept

    def ex(obj, path):
        try:
            return True, extract(obj, path)
        except Exception:
            return False, None

    def teq(a, b):
        # a reported value that is not a value of the universe at all (e.g. the `not present` sentinel) is not equal to the input's
        try:
            return V.typed_eq(a, b)
        except TypeError:
            return False

    def bad(clause, path, **extra):
        case = dict(t1=repr(t1), t2=repr(t2), clause=clause, path=path, verbose_level=verbose, **cfg)
        case.update(extra)
        try:
            if pickle.dumps((t1, t2)) != pickle.dumps(eval(repr((t1, t2)))):
                # the same container object at several positions: repr does not determine the inputs
                case["pickle"] = base64.b64encode(pickle.dumps((t1, t2))).decode("ascii")
        except Exception:
            case["pickle"] = base64.b64encode(pickle.dumps((t1, t2))).decode("ascii")
        ctx.fail(case, "entry not backed by the inputs: %s at %s" % (clause, path))

    def v2_info(path, new_value, cat):
        """(does the verbose_level=2 run of the same call carry a new_path that resolves to new_value, that new_path)"""
        if verbose != 1:
            return False, None
        from deepdiff import DeepDiff
        r2 = DeepDiff(copy.deepcopy(t1), copy.deepcopy(t2), threshold_to_diff_deeper=cfg["thr"], verbose_level=2)
        ch2 = r2.get(cat, {}).get(path)
        if not ch2 or "new_path" not in ch2:
            return False, None
        ok, v = ex(t2, ch2["new_path"])
        return bool(ok and V.typed_eq(v, new_value)), ch2["new_path"]

    def bad_new(path, ch, cat):
        res_ok, np2 = v2_info(path, ch["new_value"], cat)
        bad("new value does not resolve in t2", path, category=cat, verbose2_new_path_resolves=res_ok, verbose2_new_path=np2,
            k18_shape=k18_shape(t1, t2, path, np2, ch["old_value"], ch["new_value"]))

    def parent_is_seq(path):
        # crude: path ends with [<int>]
        import re
        return bool(re.search(r"\[\d+\]$", path))

    for p, ch in res.get("values_changed", {}).items():
        ok1, a = ex(t1, p)
        ok2, b = ex(t2, ch.get("new_path", p))
        if not (ok1 and teq(a, ch["old_value"])):
            bad("old value does not resolve in t1", p)
        elif not (ok2 and teq(b, ch["new_value"])):
            bad_new(p, ch, "values_changed")
        elif not (ch["old_value"] != ch["new_value"]):
            bad("changed value does not differ", p, category="values_changed", parent_is_sequence=parent_is_seq(p),
                k17_shape=k17_shape(t1, t2, p, cfg["thr"], ch["old_value"], ch["new_value"]))
    for p, ch in res.get("type_changes", {}).items():
        ok1, a = ex(t1, p)
        ok2, b = ex(t2, ch.get("new_path", p))
        if not (ok1 and teq(a, ch["old_value"])):
            bad("old value does not resolve in t1", p)
        elif not (ok2 and teq(b, ch["new_value"])):
            bad_new(p, ch, "type_changes")
        elif type(ch["old_value"]) is type(ch["new_value"]) or ch["old_type"] is not type(ch["old_value"]) or ch["new_type"] is not type(ch["new_value"]):
            bad("type change without a change of type", p)
    for cat, here, there in (("iterable_item_added", t2, None), ("iterable_item_removed", t1, None),
                             ("dictionary_item_added", t2, t1), ("dictionary_item_removed", t1, t2)):
        items = res.get(cat, {})
        it = items.items() if isinstance(items, dict) else [(p, None) for p in items]
        for p, val in it:
            ok, v = ex(here, p)
            if not ok or (isinstance(items, dict) and not teq(v, val)):
                bad(cat + " does not resolve to the reported value", p)
            if there is not None:
                ok2, _ = ex(there, p)
                if ok2:
                    bad(cat + ": key exists on the other side", p)
    for p, ch in res.get("iterable_item_moved", {}).items():
        ok1, a = ex(t1, p)
        ok2, b = ex(t2, ch["new_path"])
        if not (ok1 and ok2 and teq(b, ch["value"]) and a == b):
            bad("moved item does not resolve", p)


def has_set(v):
    if isinstance(v, (set, frozenset)):
        return True
    if isinstance(v, dict):
        return any(has_set(x) for x in v.values())
    if isinstance(v, (list, tuple)):
        return any(has_set(x) for x in v)
    return False


def check_set_items(ctx, t1, t2, cfg):
    """set_item_added / set_item_removed (an added / removed item of an iterable that has no index): the level's
    parent path resolves, on the item's side, to a set that holds the reported item (C04_entries_resolve, kinds
    KSetAdd / KSetRem).  Tree view: the text form root[<item>] cannot be told from a subscript."""
    from deepdiff import DeepDiff, extract
    r = DeepDiff(copy.deepcopy(t1), copy.deepcopy(t2), view="tree", threshold_to_diff_deeper=cfg["thr"])
    for cat, side, root in (("set_item_added", "t2", t2), ("set_item_removed", "t1", t1)):
        for lv in r.get(cat, []) or []:
            item, ppath = getattr(lv, side), lv.up.path()
            try:
                s = extract(root, ppath)
            except Exception:
                s = None
            ctx.count("set_item_level_checked")
            if not (isinstance(s, (set, frozenset)) and any(V.typed_eq(m, item) for m in s)):
                ctx.fail(dict(t1=repr(t1), t2=repr(t2), clause=cat + ": not a member of the set at its path", path=ppath,
                              item=repr(item), **cfg), "entry not backed by the inputs: %s %r at %s" % (cat, item, ppath))


def py_keys_ok(v):
    """harness reading of Diff/TextFaithful.keys_ok (C09's guard on every dict key at any depth)"""
    if isinstance(v, dict):
        for k, x in v.items():
            if isinstance(k, str) and (("'" in k and '"' in k) or k.endswith(chr(119232))):
                return False
            if isinstance(k, float) and not abs(k) < 2 ** 53:
                return False
            if isinstance(k, bytes) and (not all(32 <= ch <= 126 and ch != 92 for ch in k) or (b"'" in k and b'"' in k)):
                return False
            if not py_keys_ok(x):
                return False
        return True
    if isinstance(v, (list, tuple)):
        return all(py_keys_ok(x) for x in v)
    return True


GUARD_HDR = D.MODEL_HDR + "\nFrom DD Require Import Diff.TextFaithfulShow Diff.FaithfulShow."
MEMO_HDR = D.MODEL_HDR_M + "\nFrom DD Require Import Diff.TextFaithfulShow Diff.FaithfulShow."
ALIAS_POOL = [0, False, 0.0, 1, True, 1.0, 2, 2.0, "a", None, 3]


def py_path_ok(cp):
    """harness reading of Path/PathModel.path_ok on a canonical path (C09's guard on the keys of ONE path)"""
    for tag, x in cp:
        if tag != "k":
            continue
        k = D.uncanon_atom(x)
        if isinstance(k, str) and (("'" in k and '"' in k) or k.endswith(chr(119232))):
            return False
        if isinstance(k, float) and not abs(k) < 2 ** 53:
            return False
        if isinstance(k, bytes) and (not all(32 <= ch <= 126 and ch != 92 for ch in k) or (b"'" in k and b'"' in k)):
            return False
    return True


def gen_set_alias_pair(rng):
    """one to three set / frozenset pairs whose members are ==-aliased across (or inside) the pair, at list
    positions, dict values (t2's key order shuffled) or nested: DeepDiff's run-wide ==-keyed DeepHash table
    decides what is reported; whatever it is must be backed by the inputs"""
    def aset():
        out = set()
        for a in rng.sample(ALIAS_POOL, rng.randint(0, 3)):
            if all(not (a == b) for b in out):
                out.add(a)
        return frozenset(out) if rng.random() < 0.25 else out
    def aliases(x):
        return [c for c in ([int(x), float(x)] + ([bool(x)] if x in (0, 1) else [])) if type(c) is not type(x)]
    k = rng.choice([1, 2, 2, 3])
    pairs = []
    for _i in range(k):
        a = aset()
        b = aset() if rng.random() < 0.7 else type(a)(a)
        if type(a) is not type(b) and rng.random() < 0.8:
            b = type(a)(b)
        if rng.random() < 0.6:
            # make sure some member of b is an alias (==, other type) of a member of a
            nums = [x for x in a if type(x) in (int, bool, float)]
            if nums:
                x = rng.choice(nums)
                y = rng.choice(aliases(x))
                b = type(b)([m for m in b if not (m == y)] + [y])
        pairs.append((a, b))
    shape = rng.choice(["list", "dict", "dict", "nested", "tuple", "with_list"])
    if k == 1 and rng.random() < 0.4:
        return pairs[0]
    if shape == "list":
        return [a for a, _ in pairs], [b for _, b in pairs]
    if shape == "tuple":
        return tuple(a for a, _ in pairs), tuple(b for _, b in pairs)
    if shape == "with_list":
        # an all-atom list with aliased atoms next to the sets: both code paths in one run
        x, y, _kinds = V.gen_atom_list_pair(rng, alphabet=[1, True, 1.0, 2])
        return {"s": pairs[0][0], "l": x}, {"l": y, "s": pairs[0][1]}
    keys = rng.sample(["x", "y", "z", 1, None], k)
    order2 = list(range(k))
    rng.shuffle(order2)
    t1 = {keys[i]: pairs[i][0] for i in range(k)}
    t2 = {keys[i]: pairs[i][1] for i in order2}
    if shape == "nested":
        return [0, {"d": t1}], [0, {"d": t2}]
    return t1, t2


HOSTILE = "HOSTILE"
HOSTILE_KEYS = [HOSTILE + "'\"", "\"" + HOSTILE + "'s", HOSTILE + chr(119232)]


def hostile_path(p):
    return HOSTILE in p


def gen_hostile_pairs(ctx, n):
    """a dict key that does not round-trip through a path string (C09 findings K5 / K6: both quote characters, or
    the parser's escape character last) somewhere in the inputs, changes below it AND elsewhere: the whole-input
    guard keys_ok of C04_text_entries_faithful fails, the entry-local guard of C04_text_entries_faithful_local
    holds for the entries elsewhere - those are checked by the direct oracle, the others only compared with the model"""
    rng = ctx.rng
    out = []
    for _ in range(n):
        a, b, _kinds = V.gen_atom_list_pair(rng)
        hk = rng.choice(HOSTILE_KEYS)
        v1 = V.gen_value(rng, 2, 3)
        v2 = V.edit_script(rng, v1, 1)[0][-1] if rng.random() < 0.7 else v1
        shape = rng.choice(["top", "nested", "list"])
        if shape == "top":
            t1, t2 = {hk: v1, "ok": a, "d": {"k": 1, "gone": 0}}, {"ok": b, hk: v2, "d": {"k": 2, "new": 0}}
        elif shape == "nested":
            t1, t2 = {"x": {hk: v1, "l": a}, "y": 1}, {"x": {hk: v2, "l": b}, "y": "1"}
        else:
            t1, t2 = [a, {hk: v1}, 0], [b, {hk: v2}, 1]
        out.append((t1, t2))
        ctx.count("gen:hostile_key_elsewhere")
    return out


def gen_pairs(ctx, n):
    rng = ctx.rng
    out = []
    for i in range(n):
        r = rng.random()
        if r < 0.04:
            # one list object at two places of t1, edited differently at the same index in t2
            n = rng.randint(3, 6)
            shared = [rng.randint(0, 9) for _ in range(n)]
            k = rng.randrange(n)
            x = list(shared); del x[k]
            y = list(shared); y.insert(k, rng.randint(10, 19))
            if rng.random() < 0.5:
                t1, t2 = {"a": shared, "b": shared}, {"a": x, "b": y}
            else:
                t1, t2 = [shared, 0, shared], [y, 0, x]
            ctx.count("gen:shared_list_same_index_edit")
        elif r < 0.12:
            # same key set, different insertion order (the result may not depend on it)
            a, b = V.gen_wide_dict_pair(rng)
            t1, t2 = V.plant(rng, rng.choice([0, 0, 1]), (a, b))
            ctx.count("gen:wide_dict_reordered")
        elif r < 0.16:
            a, b = V.gen_row_list_pair(rng)
            t1, t2 = V.plant(rng, rng.choice([0, 0, 1]), (a, b))
            ctx.count("gen:tuple_rows")
        elif r < 0.6:
            if rng.random() < 0.3:
                # ==-equal atoms of different type (1 / True / 1.0, 0 / False / 0.0): difflib puts them into one
                # 'equal' block; whatever is reported for such a pair must still resolve on both sides (seeded C04-8)
                alph = rng.choice([[1, True, 1.0, 2], [0, False, 0.0, "a"], [1, 2, 3, 4], [2, 2.0, "x", None]])
                a, b, kinds = V.gen_atom_list_pair(rng, alphabet=alph)
                ALIAS = {1: [True, 1.0], True: [1, 1.0], 0: [False, 0.0], False: [0, 0.0], 2: [2.0], 3: [3.0], 4: [4.0]}
                for _ in range(rng.randint(1, 3)):
                    if b:
                        j = rng.randrange(len(b))
                        for k0, al in ALIAS.items():
                            if type(b[j]) is type(k0) and b[j] == k0:
                                b[j] = rng.choice(al)
                                kinds = kinds + ["retype_alias"]
                                break
                ctx.count("gen:atom_list_alias")
            elif rng.random() < 0.15:
                # replaced items on BOTH sides of an insertion / deletion in one list of mostly distinct atoms: the difflib
                # pass wins with a replace block whose chunks start at the same index (in front) and one or two whose chunks
                # start at different indexes (behind); every entry behind must carry a new_path that resolves
                # (C04_text_new_path_given; seeded change C04-9: an answer cached for the first sibling was reused)
                n = rng.randint(5, 10)
                pool = list(range(1, 30)) + ["a", "b", "c", "d", "e", "f", "g", 0.5, 1.5, None]
                a = rng.sample(pool, n)
                b = list(a)
                p2 = rng.randrange(1, n - 1)                       # where the insertion / deletion happens
                fronts = rng.sample(range(0, p2), rng.choice([1, 1, 2]) if p2 >= 2 else 1)
                backs = rng.sample(range(p2 + 1, n), rng.choice([1, 1, 2]) if n - p2 - 1 >= 2 else 1)
                for j in fronts + backs:
                    b[j] = rng.choice([100 + j, "n%d" % j, str(a[j]), -1.5])    # new value, sometimes of another type
                if rng.random() < 0.6:
                    b[p2:p2] = [rng.choice([0, "ins", 77])] * rng.choice([1, 1, 2])
                else:
                    del b[p2]
                if rng.random() < 0.3:
                    a, b = tuple(a), tuple(b)
                kinds = ["replace_both_sides_of_indel"]
                ctx.count("gen:replace_both_sides_of_indel")
            elif rng.random() < 0.17:
                # an adjacent swap behind an insertion: difflib removes an item at index i and adds an equal one at
                # index i in about a quarter of these (the shape of C04_K17_exact), shifted replace blocks in others
                n = rng.randint(3, 8)
                a = [rng.choice(["a", "b", "c", 1, True]) for _ in range(n)]
                b = list(a)
                j = rng.randrange(1, n)
                b[j - 1], b[j] = b[j], b[j - 1]
                b.insert(rng.randrange(0, j), rng.choice(["z", "a", 2]))
                if rng.random() < 0.3:
                    b.append(rng.choice(["a", "q"]))
                if rng.random() < 0.3:
                    a, b = tuple(a), tuple(b)
                kinds = ["swap_behind_insert"]
                ctx.count("gen:swap_behind_insert")
            else:
                a, b, kinds = V.gen_atom_list_pair(rng)
            t1, t2 = V.plant(rng, rng.choice([0, 0, 1, 2]), (a, b))
            ctx.count("gen:atom_list_edit")
            for k in kinds:
                ctx.count("edit:" + k)
        elif r < 0.87:
            t1 = V.gen_value(rng, depth=3, width=4, strings=V.STR_POOL + ["a\nb", "a\nc\n"])
            vals, kinds = V.edit_script(rng, t1, rng.randint(1, 3))
            t2 = vals[-1]
            ctx.count("gen:edit_script")
            for k in kinds:
                ctx.count("edit:" + k)
        elif r < 0.95:
            t1, t2 = V.gen_value(rng, 3, 4), V.gen_value(rng, 3, 4)
            ctx.count("gen:independent")
        else:
            t1, t2 = gen_set_alias_pair(rng)
            ctx.count("gen:set_alias_pair")
        if rng.random() < 0.2:
            t2 = V.reorder_dicts(rng, t2)
            ctx.count("gen:t2_dicts_reordered")
        if rng.random() < 0.15:
            # the quantifier allows an object to occur at two positions of t1: the model sees the unfolded tree
            t1s, ok = V.share(rng, t1)
            if ok:
                t1 = t1s
                ctx.count("gen:shared_subobject_in_t1")
        if rng.random() < 0.10 and isinstance(t1, (list, dict, tuple, set, frozenset)):
            # ONE container object at two positions of t1 (or of t2, or of both), everything else fresh; the
            # model is fed the unfolded tree, a failing case is replayed from a pickle (lessons of round 3)
            form = rng.choice(["dict", "list", "tuple"])
            side = rng.choice(["t1", "t1", "t2", "both"])

            def wrap(x, y):
                return {"p": x, "q": y} if form == "dict" else ([x, 0, y] if form == "list" else (x, y))
            a2 = t1 if side in ("t1", "both") else copy.deepcopy(t1)
            b2 = t2 if side in ("t2", "both") else copy.deepcopy(rng.choice([t1, t2]))
            t1, t2 = wrap(t1, a2), wrap(t2, b2)
            ctx.count("gen:one_container_object_at_two_positions:" + side)
        out.append((t1, t2))
    return out


def observe_exactness(ctx, t1, t2, r, cfg):
    """BOTH directions of C04_K17_exact and of C04_shifted_levels_source / C04_shifted_pairs_reported observed on
    the implementation: the levels predicted from the recorded difflib opcodes alone (a block removes t1 index i, a
    block adds t2 index i, the items are ==; the not-== pairs of the replace blocks whose chunks start at different
    indexes) must be exactly the values_changed levels with identical values / the changed levels with two paths."""
    from deepdiff import extract
    from deepdiff.model import FORCE_DEFAULT
    p17, pshift = set(), set()
    for q, ops in r._iterable_opcodes.items():
        try:
            a, b = extract(t1, q), extract(t2, q)
        except Exception:
            ctx.count("exactness:recorded list under a key that does not parse back (C09): skipped")
            return
        tup = [(o.tag, o.t1_from_index, o.t1_to_index, o.t2_from_index, o.t2_to_index) for o in ops]
        for i in range(min(len(a), len(b))):
            if py_removes_at(tup, i) and py_adds_at(tup, i) and a[i] == b[i]:
                p17.add("%s[%d]" % (q, i))
        for tag, i1, i2, j1, j2 in tup:
            if tag == "replace" and i1 != j1:
                for k in range(min(i2 - i1, j2 - j1)):
                    if not (a[i1 + k] == b[j1 + k]):
                        pshift.add(("%s[%d]" % (q, i1 + k), "%s[%d]" % (q, j1 + k)))
    o17 = {lv.path(force=FORCE_DEFAULT) for lv in (r.get("values_changed", []) or []) if not (lv.t1 != lv.t2)}
    oshift = set()
    for cat in ("values_changed", "type_changes"):
        for lv in r.get(cat, []) or []:
            pa, pb = lv.path(force=FORCE_DEFAULT), lv.path(use_t2=True, force=FORCE_DEFAULT)
            if pa != pb:
                oshift.add((pa, pb))
    ctx.count("exactness:K17 levels predicted from the opcodes = observed", len(p17))
    ctx.count("exactness:shifted levels predicted from the opcodes = observed", len(pshift))
    if p17 != o17 or pshift != oshift:
        ctx.break_("correspondence", {"name": "C04_K17_exact / C04_shifted_* on the implementation",
                                      "detail": "levels predicted from the recorded opcodes differ from the reported ones",
                                      "t1": repr(t1), "t2": repr(t2), "cfg": cfg, "k17_predicted": sorted(p17), "k17_observed": sorted(o17),
                                      "shifted_predicted": sorted(pshift), "shifted_observed": sorted(oshift)})


def marks_cases(ctx, t1, t2, cases, budget):
    """removes_at / adds_at of Diff/FaithfulSource.v (what C04_K17_exact / C04_replay_*_levels speak about) on the
    real difflib opcodes of every all-atom list pair of the inputs, against the Python reading the matchers use"""
    for cp, ops in D.opcode_table(t1, t2):
        if budget[0] <= 0:
            return
        a, b = t1, t2
        for el in D.py_path(cp):
            a, b = a[el], b[el]
        if all(tag == "equal" for tag, *_ in ops):
            continue
        budget[0] -= 1
        exp = [[py_removes_at(ops, i) for i in range(len(a))], [py_adds_at(ops, i) for i in range(len(b))]]
        coq_ops = D.coq_list("mkOp %s %d %d %d %d" % (D.TAGS[o[0]], o[1], o[2], o[3], o[4]) for o in ops)
        cases.append(("sx_c04_marks %s %s %s" % (coq_ops, D.coq_list(V.to_coq(x) for x in a), D.coq_list(V.to_coq(x) for x in b)),
                      exp, {"a": repr(a), "b": repr(b), "ops": repr(ops), "what": "removes_at / adds_at"}))
        ctx.count("marks_case")
        if any(e1 and e2 for e1, e2 in zip(exp[0], exp[1])):
            ctx.count("marks_case:some index both removed and added (K17 candidate)")


def one_pair(ctx, t1, t2, cases, corr=True, mcases=None, budget=None, skip=None):
    from deepdiff import DeepDiff
    in_guard = D.in_model_guard(t1, t2)
    # pairs whose sets hold ==-aliased members go to the model with DeepDiff's run-wide table (valid everywhere)
    tree_case, text_case, model_expr, out = ((D.tree_case, D.text_case, D.model_tree_expr, cases) if in_guard
                                             else (D.memo_tree_case, D.memo_text_case, D.memo_tree_expr, mcases))
    if corr and out is None:
        corr = False
        ctx.count("outside_model_guard")
    if corr and not in_guard:
        ctx.count("aliased_set_members:run_on_table_model")
    thr_text = ctx.rng.choice(THRS)
    for thr in THRS:
        cfg = dict(zip=False, thr=thr)
        if corr:
            case, r, unmod = tree_case(t1, t2, False, thr)
            if case is None:
                ctx.fail(dict(t1=repr(t1), t2=repr(t2), clause="DeepDiff raised " + type(r).__name__, **cfg), "DeepDiff raised " + repr(r))
                continue
            out.append(case)
            ctx.count("pass1_won(opcodes recorded)" if r._iterable_opcodes else "pass2_or_single")
            if not unmod:
                ctx.fail(dict(t1=repr(t1), t2=repr(t2), clause="inputs modified", **cfg), "DeepDiff modified an input")
            observe_exactness(ctx, t1, t2, r, cfg)
            if thr == thr_text and budget is not None and budget[1] > 0 and (isinstance(t1, dict) or ctx.rng.random() < 0.25):
                budget[1] -= 1
                # the entry-local guard of C04_text_*_local on this run: Coq's count against the harness's reading of the tree
                obs = case[1][0]
                okc = sum(1 for e in obs if py_path_ok(e[1]))
                out.append((case[0].replace("sx_tree (", "sx_c04_local_guard (", 1), [okc, len(obs)],
                            {"t1": repr(t1), "t2": repr(t2), "thr": thr, "what": "local guard path_ok (ep1 e) of C04_text_*_local"}))
                ctx.count("hyp:local guard: levels with path_ok", okc)
                ctx.count("hyp:local guard: levels", len(obs))
                if okc == len(obs) and not (py_keys_ok(t1) and py_keys_ok(t2)):
                    ctx.count("hyp:local guard holds for every level although keys_ok fails")
        if corr and thr == thr_text:
            # the TEXT view of the same run against Diff/TextView.v (what C04_text_* speak about), default alignment
            for verbose in (1, 2):
                tcase, r, _ = text_case(t1, t2, False, thr, verbose)
                if tcase is not None:
                    out.append(tcase)
                    ctx.count("text_view_case:verbose%d" % verbose)
            g = py_keys_ok(t1) and py_keys_ok(t2)
            ctx.count("hyp:C04_text guard (wf, keys_ok) holds" if g else "hyp:C04_text guard fails")
            out.append(("sx_c04_guard %s %s" % (V.to_coq(t1), V.to_coq(t2)), g, {"t1": repr(t1), "t2": repr(t2), "what": "guard of C04_text_*"}))
            if budget is not None:
                marks_cases(ctx, t1, t2, out, budget)
        for verbose in (1, 2):
            try:
                res = DeepDiff(copy.deepcopy(t1), copy.deepcopy(t2), threshold_to_diff_deeper=thr, verbose_level=verbose)
            except Exception as e:
                ctx.fail(dict(t1=repr(t1), t2=repr(t2), clause="DeepDiff raised " + type(e).__name__, **cfg), "DeepDiff raised " + repr(e))
                continue
            ctx.seen((repr(t1), repr(t2), thr, verbose), nontrivial=bool(res))
            check_entries(ctx, t1, t2, res, verbose, cfg, skip=skip)
        if (thr == thr_text or not corr) and has_set(t1) and has_set(t2) and (skip is None):
            check_set_items(ctx, t1, t2, cfg)


def replay_witnesses(ctx):
    """each open finding's Coq witness must still fail on the implementation;
    otherwise the model no longer describes the code there"""
    from deepdiff import DeepDiff
    t1, t2 = ["a", "b", "a", "b"], ["c", "a", "b", "b", "a"]
    res = DeepDiff(t1, t2, verbose_level=2)
    vc = res.get("values_changed", {})
    if any(f["key"] == "K17" and f.get("status") == "open" for f in ctx.findings):
        if not any(ch["old_value"] == ch["new_value"] for ch in vc.values()):
            ctx.break_("correspondence", {"name": "K17 witness", "detail": "C04_changed_really_differ_refuted's witness no longer fails on the implementation; model out of date", "impl": repr(res)})
    check_entries(ctx, t1, t2, res, 2, dict(zip=False, thr=0.33))


def run(ctx):
    pairs = gen_pairs(ctx, 6000 if ctx.thorough else 900)
    cases, mcases = [], []
    budget = [2500 if ctx.thorough else 160, 4000 if ctx.thorough else 300]
    for t1, t2 in pairs:
        one_pair(ctx, t1, t2, cases, mcases=mcases, budget=budget)
    budget[1] = 10 ** 6           # every hostile-key pair gets its local-guard case
    for t1, t2 in gen_hostile_pairs(ctx, 300 if ctx.thorough else 40):
        one_pair(ctx, t1, t2, cases, mcases=mcases, budget=budget, skip=hostile_path)
    for c in cases[:3]:
        ctx.sample(c[2])
    ctx.coq_cases("c04", GUARD_HDR, cases, shard=150, label="default_mode_tree")
    ctx.coq_cases("c04m", MEMO_HDR, mcases, shard=150, label="table_model_tree_and_text")
    replay_witnesses(ctx)

    # extension: class instances (attributes) inside the same models - beyond the property's stated domain,
    # recorded in the evidence file, never a violation (core.Ctx.extension; coq/theories/Obj)
    with ctx.extension("Obj"):
        from harness import objcommon as O
        O.stream_c04(ctx)


def replay(ctx, data):
    case = data.get("case", {})
    if "pickle" in case:
        t1, t2 = pickle.loads(base64.b64decode(case["pickle"]))      # rebuilds objects shared between positions
        one_pair(ctx, t1, t2, [], corr=False)
    elif "t1" in case:
        t1, t2 = eval(case["t1"]), eval(case["t2"])
        one_pair(ctx, t1, t2, [], corr=False)
    else:
        run(ctx)

"""C04 - every reported entry is backed by the inputs (default alignment mode).

proof:           Diff/DiffFaithful.v -> Properties/C04.v (all values, every opcode oracle)
correspondence:  tree-view result (kind, both key sequences, both leaf objects, diff
                 text) + recorded-opcode paths of DeepDiff in default mode vs the model
direct oracle:   the property itself on the text view with deepdiff.extract
"""
import copy

from harness import core, values as V, diffcommon as D

THEOREM_FILE = "Properties/C04.v"
COQCHK = ["Properties.C04"]
RULE = ("pairs: (a) lists over a 4-atom alphabet, length <= 12, related by insert/delete/replace/move/duplicate/rotate edits, planted under 0-2 "
        "common container levels; (a') dicts with 4-8 common keys inserted in different orders, and t2 with all dicts rebuilt in shuffled insertion order (20%); (b) random nested values and edit scripts (1-3 edits); x verbose {1,2} x threshold {0,0.33,0.9}, default "
        "alignment (zip_ordered_iterables=False). Non-trivial = the diff is non-empty; distinct by (t1, t2).")
TRUSTED = ["difflib.SequenceMatcher opcodes are an oracle: the theorems hold for EVERY opcode list, the correspondence feeds the model the opcodes difflib returns",
           "DeepHash of set members is replaced by an injective stand-in in the model (inputs with == atoms of different type or tag-like strings inside sets are outside the correspondence; finding K1)",
           "values are tree-shaped (no shared mutable containers), floats are half-integers, no bytes dict keys (finding F5)"]
ASSUMPTIONS = ["threshold_to_diff_deeper <= 1", "dict/set inputs satisfy Python's representation invariant (keys pairwise !=)"]

THRS = (0, 0.33, 0.9)


def k17(case):
    """values_changed with identical old and new value at a list index (made by
    mutual_add_removes from an add and a remove at one path, default mode)"""
    return case.get("clause") == "changed value does not differ" and case.get("parent_is_sequence") and not case.get("zip")


def k18(case):
    """verbose_level=1 omits new_path: the new value sits at another index of t2
    (the verbose_level=2 result gives the new_path and it resolves)"""
    return (case.get("clause") == "new value does not resolve in t2" and case.get("verbose_level") == 1
            and not case.get("zip") and case.get("verbose2_new_path_resolves") is True)


MATCHERS = {"K17": k17, "K18": k18}


def check_entries(ctx, t1, t2, res, verbose, cfg):
    """the property on a text-view result"""
    from deepdiff import extract

    def ex(obj, path):
        try:
            return True, extract(obj, path)
        except Exception:
            return False, None

    def teq(a, b):
        # a reported value that is not a value of the universe at all (e.g. the `not present` sentinel) is not equal to the input's
        try:
            return V.typed_eq(a, b)
        except TypeError:
            return False

    def bad(clause, path, **extra):
        case = dict(t1=repr(t1), t2=repr(t2), clause=clause, path=path, verbose_level=verbose, **cfg)
        case.update(extra)
        ctx.fail(case, "entry not backed by the inputs: %s at %s" % (clause, path))

    def v2_resolves(path, new_value, cat):
        if verbose != 1:
            return False
        from deepdiff import DeepDiff
        r2 = DeepDiff(copy.deepcopy(t1), copy.deepcopy(t2), threshold_to_diff_deeper=cfg["thr"], verbose_level=2)
        ch2 = r2.get(cat, {}).get(path)
        if not ch2 or "new_path" not in ch2:
            return False
        ok, v = ex(t2, ch2["new_path"])
        return ok and V.typed_eq(v, new_value)

    def parent_is_seq(path):
        # crude: path ends with [<int>]
        import re
        return bool(re.search(r"\[\d+\]$", path))

    for p, ch in res.get("values_changed", {}).items():
        ok1, a = ex(t1, p)
        ok2, b = ex(t2, ch.get("new_path", p))
        if not (ok1 and teq(a, ch["old_value"])):
            bad("old value does not resolve in t1", p)
        elif not (ok2 and teq(b, ch["new_value"])):
            bad("new value does not resolve in t2", p, verbose2_new_path_resolves=v2_resolves(p, ch["new_value"], "values_changed"))
        elif not (ch["old_value"] != ch["new_value"]):
            bad("changed value does not differ", p, parent_is_sequence=parent_is_seq(p))
    for p, ch in res.get("type_changes", {}).items():
        ok1, a = ex(t1, p)
        ok2, b = ex(t2, ch.get("new_path", p))
        if not (ok1 and teq(a, ch["old_value"])):
            bad("old value does not resolve in t1", p)
        elif not (ok2 and teq(b, ch["new_value"])):
            bad("new value does not resolve in t2", p, verbose2_new_path_resolves=v2_resolves(p, ch["new_value"], "type_changes"))
        elif type(ch["old_value"]) is type(ch["new_value"]) or ch["old_type"] is not type(ch["old_value"]) or ch["new_type"] is not type(ch["new_value"]):
            bad("type change without a change of type", p)
    for cat, here, there in (("iterable_item_added", t2, None), ("iterable_item_removed", t1, None),
                             ("dictionary_item_added", t2, t1), ("dictionary_item_removed", t1, t2)):
        items = res.get(cat, {})
        it = items.items() if isinstance(items, dict) else [(p, None) for p in items]
        for p, val in it:
            ok, v = ex(here, p)
            if not ok or (isinstance(items, dict) and not teq(v, val)):
                bad(cat + " does not resolve to the reported value", p)
            if there is not None:
                ok2, _ = ex(there, p)
                if ok2:
                    bad(cat + ": key exists on the other side", p)
    for p, ch in res.get("iterable_item_moved", {}).items():
        ok1, a = ex(t1, p)
        ok2, b = ex(t2, ch["new_path"])
        if not (ok1 and ok2 and teq(b, ch["value"]) and a == b):
            bad("moved item does not resolve", p)


def py_keys_ok(v):
    """harness reading of Diff/TextFaithful.keys_ok (C09's guard on every dict key at any depth)"""
    if isinstance(v, dict):
        for k, x in v.items():
            if isinstance(k, str) and (("'" in k and '"' in k) or k.endswith(chr(119232))):
                return False
            if isinstance(k, float) and not abs(k) < 2 ** 53:
                return False
            if isinstance(k, bytes) and (not all(32 <= ch <= 126 and ch != 92 for ch in k) or (b"'" in k and b'"' in k)):
                return False
            if not py_keys_ok(x):
                return False
        return True
    if isinstance(v, (list, tuple)):
        return all(py_keys_ok(x) for x in v)
    return True


GUARD_HDR = D.MODEL_HDR + "\nFrom DD Require Import Diff.TextFaithfulShow."


def gen_pairs(ctx, n):
    rng = ctx.rng
    out = []
    for i in range(n):
        r = rng.random()
        if r < 0.04:
            # one list object at two places of t1, edited differently at the same index in t2
            n = rng.randint(3, 6)
            shared = [rng.randint(0, 9) for _ in range(n)]
            k = rng.randrange(n)
            x = list(shared); del x[k]
            y = list(shared); y.insert(k, rng.randint(10, 19))
            if rng.random() < 0.5:
                t1, t2 = {"a": shared, "b": shared}, {"a": x, "b": y}
            else:
                t1, t2 = [shared, 0, shared], [y, 0, x]
            ctx.count("gen:shared_list_same_index_edit")
        elif r < 0.12:
            # same key set, different insertion order (the result may not depend on it)
            a, b = V.gen_wide_dict_pair(rng)
            t1, t2 = V.plant(rng, rng.choice([0, 0, 1]), (a, b))
            ctx.count("gen:wide_dict_reordered")
        elif r < 0.16:
            a, b = V.gen_row_list_pair(rng)
            t1, t2 = V.plant(rng, rng.choice([0, 0, 1]), (a, b))
            ctx.count("gen:tuple_rows")
        elif r < 0.6:
            if rng.random() < 0.3:
                # ==-equal atoms of different type (1 / True / 1.0, 0 / False / 0.0): difflib puts them into one
                # 'equal' block; whatever is reported for such a pair must still resolve on both sides (seeded C04-8)
                alph = rng.choice([[1, True, 1.0, 2], [0, False, 0.0, "a"], [1, 2, 3, 4], [2, 2.0, "x", None]])
                a, b, kinds = V.gen_atom_list_pair(rng, alphabet=alph)
                ALIAS = {1: [True, 1.0], True: [1, 1.0], 0: [False, 0.0], False: [0, 0.0], 2: [2.0], 3: [3.0], 4: [4.0]}
                for _ in range(rng.randint(1, 3)):
                    if b:
                        j = rng.randrange(len(b))
                        for k0, al in ALIAS.items():
                            if type(b[j]) is type(k0) and b[j] == k0:
                                b[j] = rng.choice(al)
                                kinds = kinds + ["retype_alias"]
                                break
                ctx.count("gen:atom_list_alias")
            else:
                a, b, kinds = V.gen_atom_list_pair(rng)
            t1, t2 = V.plant(rng, rng.choice([0, 0, 1, 2]), (a, b))
            ctx.count("gen:atom_list_edit")
            for k in kinds:
                ctx.count("edit:" + k)
        elif r < 0.9:
            t1 = V.gen_value(rng, depth=3, width=4, strings=V.STR_POOL + ["a\nb", "a\nc\n"])
            vals, kinds = V.edit_script(rng, t1, rng.randint(1, 3))
            t2 = vals[-1]
            ctx.count("gen:edit_script")
            for k in kinds:
                ctx.count("edit:" + k)
        else:
            t1, t2 = V.gen_value(rng, 3, 4), V.gen_value(rng, 3, 4)
            ctx.count("gen:independent")
        if rng.random() < 0.2:
            t2 = V.reorder_dicts(rng, t2)
            ctx.count("gen:t2_dicts_reordered")
        if rng.random() < 0.15:
            # the quantifier allows an object to occur at two positions of t1: the model sees the unfolded tree
            t1s, ok = V.share(rng, t1)
            if ok:
                t1 = t1s
                ctx.count("gen:shared_subobject_in_t1")
        out.append((t1, t2))
    return out


def one_pair(ctx, t1, t2, cases, corr=True):
    from deepdiff import DeepDiff
    for thr in THRS:
        cfg = dict(zip=False, thr=thr)
        if corr and D.in_model_guard(t1, t2):
            case, r, unmod = D.tree_case(t1, t2, False, thr)
            if case is None:
                ctx.fail(dict(t1=repr(t1), t2=repr(t2), clause="DeepDiff raised " + type(r).__name__, **cfg), "DeepDiff raised " + repr(r))
                continue
            cases.append(case)
            ctx.count("pass1_won(opcodes recorded)" if r._iterable_opcodes else "pass2_or_single")
            if not unmod:
                ctx.fail(dict(t1=repr(t1), t2=repr(t2), clause="inputs modified", **cfg), "DeepDiff modified an input")
        elif corr:
            ctx.count("outside_model_guard")
        if corr and D.in_model_guard(t1, t2) and thr == ctx.rng.choice(THRS):
            # the TEXT view of the same run against Diff/TextView.v (what C04_text_* speak about), default alignment
            for verbose in (1, 2):
                tcase, r, _ = D.text_case(t1, t2, False, thr, verbose)
                if tcase is not None:
                    cases.append(tcase)
                    ctx.count("text_view_case:verbose%d" % verbose)
            g = py_keys_ok(t1) and py_keys_ok(t2)
            ctx.count("hyp:C04_text guard (wf, keys_ok) holds" if g else "hyp:C04_text guard fails")
            cases.append(("sx_c04_guard %s %s" % (V.to_coq(t1), V.to_coq(t2)), g, {"t1": repr(t1), "t2": repr(t2), "what": "guard of C04_text_*"}))
        for verbose in (1, 2):
            try:
                res = DeepDiff(copy.deepcopy(t1), copy.deepcopy(t2), threshold_to_diff_deeper=thr, verbose_level=verbose)
            except Exception as e:
                ctx.fail(dict(t1=repr(t1), t2=repr(t2), clause="DeepDiff raised " + type(e).__name__, **cfg), "DeepDiff raised " + repr(e))
                continue
            ctx.seen((repr(t1), repr(t2), thr, verbose), nontrivial=bool(res))
            check_entries(ctx, t1, t2, res, verbose, cfg)


def replay_witnesses(ctx):
    """each open finding's Coq witness must still fail on the implementation;
    otherwise the model no longer describes the code there"""
    from deepdiff import DeepDiff
    t1, t2 = ["a", "b", "a", "b"], ["c", "a", "b", "b", "a"]
    res = DeepDiff(t1, t2, verbose_level=2)
    vc = res.get("values_changed", {})
    if any(f["key"] == "K17" and f.get("status") == "open" for f in ctx.findings):
        if not any(ch["old_value"] == ch["new_value"] for ch in vc.values()):
            ctx.break_("correspondence", {"name": "K17 witness", "detail": "C04_changed_really_differ_refuted's witness no longer fails on the implementation; model out of date", "impl": repr(res)})
    check_entries(ctx, t1, t2, res, 2, dict(zip=False, thr=0.33))


def run(ctx):
    pairs = gen_pairs(ctx, 6000 if ctx.thorough else 900)
    cases = []
    for t1, t2 in pairs:
        one_pair(ctx, t1, t2, cases)
    for c in cases[:3]:
        ctx.sample(c[2])
    ctx.coq_cases("c04", GUARD_HDR, cases, shard=150, label="default_mode_tree")
    replay_witnesses(ctx)

    # extension: class instances (attributes) inside the same models - beyond the property's stated domain,
    # recorded in the evidence file, never a violation (core.Ctx.extension; coq/theories/Obj)
    with ctx.extension("Obj"):
        from harness import objcommon as O
        O.stream_c04(ctx)


def replay(ctx, data):
    case = data.get("case", {})
    if "t1" in case:
        t1, t2 = eval(case["t1"]), eval(case["t2"])
        one_pair(ctx, t1, t2, [], corr=False)
    else:
        run(ctx)

"""C10 - tree view, text view, to_dict, to_json and pretty() describe the same changes.

proof:           Views/ViewsModel.v + ViewsProofs.v -> Properties/C10.v
correspondence:  ordered mode (the model of Diff/DiffModel.v): for each generated pair x threshold x
                 verbose_level, ONE Coq case holding all presentations of the run:
                   pretty() statements (split at the prefix), json.loads(to_json()) as a JSON-able
                   value (duplicate keys kept), to_dict(view_override='text') of the tree-view object,
                   to_dict(view_override='tree') of the text-view object;
                 plus str()/repr()/JSON-able value of single generated values.
direct oracle:   the relational statement on the real objects, in ordered mode, ignore_order and
                 ignore_order+report_repetition, verbose 0/1/2, view text/tree:
                   chain walk (up/down, child relationships, identity with the sub-objects of the
                   inputs, root holds the original objects); tree vs text (same (category, path,
                   values) at verbose 2, the documented projection below); to_dict(view_override)
                   in both directions; to_json parses, same categories and paths, same on both
                   views; pretty(): one non-empty statement per level, naming the level's path,
                   same on both views.
"""
import copy
import json

from harness import core, values as V, diffcommon as D

THEOREM_FILE = "Properties/C10.v"
COQCHK = ["Properties.C10"]
RULE = ("pairs of nested values (depth <= 3, width <= 4; atoms None/bool/int/half-integer float/str/bytes incl. quotes, backslash, "
        "newline, tab, DEL, Latin-1 and non-UTF-8 bytes; list/tuple/dict/set/frozenset): 30% edit scripts of 1-3 edits, 15% dict-rooted "
        "values with 1-4 key add/delete/rekey/replace edits, 25% atom "
        "lists related by insert/delete/replace/move/dup planted under 0-2 levels, 10% independent values, 6% 2-4 sets at different paths "
        "(dict values / list items / nested) each gaining and losing members, 6% ONE set / frozenset object shared by 2-3 places of t1 (and sometimes of t2) "
        "with member changes at each place, 8% one planted set pair; plus 5 fixed multi-container pairs and 3 fixed shared-set pairs; "
        "x {ordered, ignore_order, ignore_order+report_repetition} x verbose_level {0,1,2} x view {text,tree} "
        "(ordered mode also x threshold_to_diff_deeper {0.33, 0}). Non-trivial = non-empty tree; distinct by (t1, t2, mode, verbose).")
TRUSTED = ["the JSON text encoder (json / orjson) and json.loads: the model stops at the JSON-able value that json.dumps walks; the check parses to_json() back",
           "difflib opcodes / unified_diff text / DeepHash of set members enter the ordered-diff model as oracles (as in C04)",
           "the doubly linked DiffLevel chain is abstracted to its two key sequences and leaf objects: the up/down symmetry and the identity (`is`) of node objects with the inputs' sub-objects are checked by the chain walk on every generated case, not proved",
           "ignore_order / report_repetition presentations are covered by the direct oracle and by the theorems that are parametric in the entry list; the correspondence cases are ordered-mode runs",
           "Python repr() of str for code points >= 256 (assumed printable) and of floats >= 1e16 is outside the model; generators stay below"]
ASSUMPTIONS = ["verbose_level in {0,1,2}", "dict/set inputs satisfy Python's representation invariant; values are tree-shaped except that one set / frozenset object may sit at several places; no bytes dict keys (finding F5)"]

MARK = "\x01<S>\x02"
HDR = D.MODEL_HDR + "\nFrom DD Require Import Views.ViewsModel Views.ViewsShow."
STRS = V.STR_POOL + ["a\nb", "a\nc\n", "it's", 'q"q', "b'\"c", "back\\slash", "tab\there", "\x7f", "caf\xe9", "\x85\xa0\xad", "{x}", "[0]", "root"]
BYTES = [b"a", b"", b"ab", b"caf\xc3\xa9", b"\xff", b"it's", b'q"', b"\xe2\x82\xac", b"\xc0\x80", b"\xed\xa0\x80", b"n\nl"]


# ---------------------------------------------------------------------------
# known findings
# ---------------------------------------------------------------------------
def k_pretty_set_root(case):
    """(finding fixed in 9738d10; kept for reference, not registered)
    pretty() names an item of a set that is not the root object as root[<item>]"""
    return (case.get("clause") == "pretty statement does not name the path of the change"
            and case.get("report_type") in ("set_item_added", "set_item_removed")
            and case.get("set_path") not in (None, "root"))


def k_json_bytes(case):
    """to_json raises UnicodeDecodeError for a bytes value that is not valid UTF-8"""
    return (case.get("clause") == "to_json raised" and case.get("exception") == "UnicodeDecodeError"
            and case.get("has_non_utf8_bytes") is True)


def k_rep_chain(case):
    """report_repetition=True: below a list with repeated items the t2-side child relationship carries the
    t1 index (child_relationship_param2=None), and every index of a repeated item gets the first item's object"""
    return (case.get("clause") == "chain" and case.get("mode") == "ignore_order+repetition" and case.get("repeats_at_link") is True
            and set(case.get("problem_tags", ["?"])) <= {"t2-sub", "t2-noitem", "t2-eq-not-is", "t1-eq-not-is"})


MATCHERS = {"C10-to_json-non-utf8-bytes": k_json_bytes,
            "C10-repetition-t2-index": k_rep_chain}


# ---------------------------------------------------------------------------
# observers
# ---------------------------------------------------------------------------
def walk_values(v):
    yield v
    if isinstance(v, (list, tuple, set, frozenset)):
        for x in v:
            yield from walk_values(x)
    elif isinstance(v, dict):
        for k, x in v.items():
            yield k
            yield from walk_values(x)


def has_type(v, t):
    return any(type(x) is t for x in walk_values(v))


def non_utf8_bytes(*vals):
    for v in vals:
        for x in walk_values(v):
            if isinstance(x, bytes):
                try:
                    x.decode("utf-8")
                except UnicodeDecodeError:
                    return True
    return False


def repr_in_model(*vals):
    for v in vals:
        for x in walk_values(v):
            if isinstance(x, str) and any(ord(c) > 255 for c in x):
                return False
            if isinstance(x, float) and abs(x) >= 1e15:
                return False
    return True


def jcanon(x):
    """parsed JSON (object_pairs_hook=pairs) -> mirror of ViewsShow.sx_jv"""
    if x is None:
        return "null"
    if x is True or x is False:
        return ["b", x]
    if isinstance(x, int):
        return ["i", x]
    if isinstance(x, float):
        t = x * 2
        if t != int(t):
            raise ValueError("float outside the universe: %r" % x)
        return ["f", int(t)]
    if isinstance(x, str):
        return ["s", x]
    if isinstance(x, list):
        return ["A", [jcanon(y) for y in x]]
    if isinstance(x, Pairs):
        return ["O", [[k, jcanon(v)] for k, v in x.pairs]]
    raise TypeError(x)


class Pairs:
    def __init__(self, pairs):
        self.pairs = pairs

    def keys(self):
        return [k for k, _ in self.pairs]


def json_obs(text):
    """mirror of ViewsShow.sx_json on the JSON text"""
    top = json.loads(text, object_pairs_hook=Pairs)
    if not isinstance(top, Pairs):
        return jcanon(top)
    cats = []
    for c, payload in top.pairs:
        if isinstance(payload, Pairs):
            p = ["O", core.sx_sorted([[k, jcanon(v)] for k, v in payload.pairs])]
        elif isinstance(payload, list):
            p = ["A", core.sx_sorted([jcanon(y) for y in payload])]
        else:
            p = jcanon(payload)
        cats.append([c, p])
    return ["json", core.sx_sorted(cats)]


def pretty_statements(dd):
    s = dd.pretty(prefix=MARK)
    if s == "":
        return []
    assert s.startswith(MARK), s
    return s[len(MARK):].split("\n" + MARK)


def tree_levels(tree):
    out = []
    for kind in sorted(tree.keys()):
        v = tree[kind]
        if kind == "deep_distance" or isinstance(v, (int, float)):
            continue
        for lv in v:
            out.append((kind, lv))
    return out


def quoted(item):
    # the documented spelling of a set member: root[3], root['a'] (str and bytes are "strings" to deepdiff)
    return "'%s'" % item if isinstance(item, (str, bytes)) else str(item)


def tree_pairs(tree):
    """[(category, path as the text view spells it, t1, t2, new_path, level)] for every level of a tree view"""
    out = []
    for kind, lv in tree_levels(tree):
        if kind in ("set_item_added", "set_item_removed"):
            item = lv.t2 if kind == "set_item_added" else lv.t1
            out.append((kind, "%s[%s]" % (lv.up.path(), quoted(item)), lv.t1, lv.t2, None, lv))
        else:
            p, p2 = lv.path(force="fake"), lv.path(use_t2=True, force="fake")
            out.append((kind, p, lv.t1, lv.t2, p2 if p2 != p else None, lv))
    return out


def text_pairs(res):
    """{(category, path): dict of what the text view shows for it}"""
    out = {}
    for cat, body in res.items():
        if cat == "deep_distance":
            continue
        if isinstance(body, dict):
            for p, x in body.items():
                out[(cat, p)] = x
        else:
            for p in body:
                out[(cat, p)] = None
    return out


NP = None


def srepr(v):
    """repr() that keeps the sharing of set / frozenset objects: a set object that occurs more than once is bound
    by an assignment expression at its first occurrence ([0, (s0 := {1, 2}), s0]); eval() rebuilds the aliasing"""
    count = {}

    def scan(x):
        if isinstance(x, (set, frozenset)):
            count[id(x)] = count.get(id(x), 0) + 1
        elif isinstance(x, (list, tuple)):
            for y in x:
                scan(y)
        elif isinstance(x, dict):
            for y in x.values():
                scan(y)
    scan(v)
    if not any(n > 1 for n in count.values()):
        return repr(v)
    names = {}

    def go(x):
        if isinstance(x, (set, frozenset)):
            if count[id(x)] > 1:
                if id(x) in names:
                    return names[id(x)]
                names[id(x)] = "s%d" % len(names)
                return "(%s := %r)" % (names[id(x)], x)
            return repr(x)
        if isinstance(x, list):
            return "[" + ", ".join(go(y) for y in x) + "]"
        if isinstance(x, tuple):
            return "(" + ", ".join(go(y) for y in x) + ("," if len(x) == 1 else "") + ")"
        if isinstance(x, dict):
            return "{" + ", ".join("%r: %s" % (k, go(y)) for k, y in x.items()) + "}"
        return repr(x)
    return go(v)


def is_np(x):
    return x is D.notpresent()


def same(a, b):
    if is_np(a) or is_np(b):
        return is_np(a) and is_np(b)
    try:
        return V.typed_eq(a, b)
    except Exception:
        return a == b and type(a) is type(b)


# ---------------------------------------------------------------------------
# direct oracle
# ---------------------------------------------------------------------------
def has_repeats(seq):
    if not isinstance(seq, (list, tuple)):
        return False
    items = list(seq)
    return any(items[i] == items[j] for i in range(len(items)) for j in range(i + 1, len(items)))


def chain_problems(lv, a, b):
    """walk one level chain; returns [(tag, text)], and whether a container at a
    failing link holds repeated (==) items"""
    bad = []
    repeats = False
    root = lv.all_up
    if root.t1 is not a or root.t2 is not b:
        bad.append(("root", "walking up does not reach a root holding the original t1 and t2"))
    if root.up is not None:
        bad.append(("root", "root has an up link"))
    x, n = lv, 0
    while x.up is not None and n < 1000:
        if x.up.down is not x:
            bad.append(("updown", "up.down is not self"))
        x, n = x.up, n + 1
    if x is not root:
        bad.append(("updown", "all_up differs from following up"))
    cur = root
    while cur.down is not None:
        d = cur.down
        if d.up is not cur:
            bad.append(("updown", "down.up is not self"))
        r1, r2 = cur.t1_child_rel, cur.t2_child_rel
        if r1 is None and r2 is None:
            bad.append(("rel", "a link without child relationship"))
        n0 = len(bad)
        for side, rel, other, parent, child in ((1, r1, r2, cur.t1, d.t1), (2, r2, r1, cur.t2, d.t2)):
            if is_np(child):
                if rel is not None:
                    bad.append(("rel", "t%d: child relationship to a not-present child" % side))
                continue
            use = rel or other     # DiffLevel.path() falls back to the other side's relationship
            if rel is not None:
                if rel.parent is not parent:
                    bad.append(("rel", "t%d: relationship parent is not the upper node's object" % side))
                if rel.child is not child:
                    bad.append(("rel", "t%d: relationship child is not the lower node's object" % side))
            if use is None:
                continue
            if isinstance(parent, (list, tuple, dict)):
                try:
                    sub = parent[use.param]
                except Exception:
                    bad.append(("t%d-noitem" % side, "t%d: parent has no item %r" % (side, use.param)))
                    continue
                if sub is not child:
                    if same(sub, child):
                        bad.append(("t%d-eq-not-is" % side, "t%d: node object equals parent[%r] but is another object" % (side, use.param)))
                    else:
                        bad.append(("t%d-sub" % side, "t%d: node object is not parent[%r]" % (side, use.param)))
            elif isinstance(parent, (set, frozenset)):
                if not any(m is child for m in parent):
                    bad.append(("t%d-sub" % side, "t%d: node object is not a member of the parent set" % side))
            else:
                bad.append(("rel", "t%d: parent of a link is not a container" % side))
        if len(bad) > n0 and (has_repeats(cur.t1) or has_repeats(cur.t2)):
            repeats = True
        cur = d
    if cur is not lv:
        bad.append(("updown", "the reported level is not the leaf of its chain"))
    return bad, repeats


def check_mode(ctx, a, b, mode, kw, cfg):
    """all oracle clauses for one pair under one configuration; a, b are the very
    objects handed to DeepDiff.  Returns {verbose: (dt, dr)}."""
    from deepdiff import DeepDiff
    runs = {}

    def bad(clause, what, **extra):
        case = dict(t1=srepr(a), t2=srepr(b), mode=mode, clause=clause, **cfg)
        case.update(extra)
        ctx.fail(case, "%s: %s" % (clause, what))

    for verbose in (0, 1, 2):
        try:
            dt = DeepDiff(a, b, verbose_level=verbose, view="text", **kw)
            dr = DeepDiff(a, b, verbose_level=verbose, view="tree", **kw)
        except Exception as e:
            ctx.count("deepdiff_raised:" + type(e).__name__)
            continue
        runs[verbose] = (dt, dr)
        cfgv = dict(verbose=verbose)
        tp = tree_pairs(dr)
        ctx.seen((repr(a), repr(b), mode, verbose, cfg.get("thr")), nontrivial=bool(tp))
        for kind, _p, _x, _y, _np, _lv in tp:
            ctx.count("levels:" + kind)
        # ---- chains (both objects' trees) ----
        for which, tree in (("tree-view", dr), ("text-view .tree", dt.tree)):
            for kind, lv in tree_levels(tree):
                pb, reps = chain_problems(lv, a, b)
                if pb:
                    bad("chain", "%s %s %s: %s" % (which, kind, lv.path(force="fake"), "; ".join(t for _g, t in pb[:3])), report_type=kind,
                        problems=[t for _g, t in pb[:4]], problem_tags=sorted({g for g, _t in pb}), repeats_at_link=reps, **cfgv)
                    break
        # ---- tree vs text ----
        txt = text_pairs(dt)
        keys_tree = [(k, p) for k, p, *_ in tp]
        if verbose == 2:
            visible = keys_tree
        elif verbose == 1:
            visible = [kp for kp in keys_tree if kp[0] != "iterable_item_moved"]
        else:
            visible = [kp for kp in keys_tree if kp[0] not in ("iterable_item_moved", "values_changed")]
        if sorted(visible) != sorted(txt.keys()):
            lost = sorted(set(visible) - set(txt.keys()))
            extra = sorted(set(txt.keys()) - set(visible))
            dup = len(visible) != len(set(visible))
            bad("tree and text differ in (category, path)", "tree-only %r text-only %r duplicates-in-tree %r" % (lost[:3], extra[:3], dup),
                duplicates_in_tree=dup, tree_only=lost[:3], text_only=extra[:3], **cfgv)
        else:
            for kind, p, x, y, np_, lv in tp:
                if (kind, p) not in txt:
                    continue
                t = txt[(kind, p)]
                ok = True
                if kind == "type_changes":
                    ok = t["old_type"] is type(x) and t["new_type"] is type(y)
                    if verbose >= 1:
                        ok = ok and "old_value" in t and same(t["old_value"], x) and same(t["new_value"], y)
                    else:
                        ok = ok and "old_value" not in t
                    ok = ok and (t.get("new_path") == (np_ if verbose == 2 else None))
                elif kind == "values_changed":
                    ok = same(t["old_value"], x) and same(t["new_value"], y) and (t.get("new_path") == (np_ if verbose == 2 else None))
                    ok = ok and t.get("diff") == lv.additional.get("diff")
                elif kind in ("dictionary_item_added", "dictionary_item_removed"):
                    shown = y if kind.endswith("added") else x
                    ok = (same(t, shown) and isinstance(dt[kind], dict)) if verbose == 2 else (t is None and not isinstance(dt[kind], dict))
                elif kind in ("iterable_item_added", "iterable_item_removed"):
                    ok = same(t, y if kind.endswith("added") else x)
                elif kind == "iterable_item_moved":
                    ok = same(t["value"], y) and t["new_path"] == lv.path(use_t2=True)
                elif kind == "repetition_change":
                    rep = lv.additional["repetition"]
                    ok = same(t["value"], x) and all(t[q] == rep[q] for q in ("old_repeat", "new_repeat", "old_indexes", "new_indexes"))
                if not ok:
                    bad("tree and text differ in the values of an entry", "%s %s: text %r, tree t1=%r t2=%r" % (kind, p, t, x, y), report_type=kind, **cfgv)
                    break
        # ---- to_dict(view_override) ----
        try:
            ov_text, ov_tree = dr.to_dict(view_override="text"), dt.to_dict(view_override="tree")
            own_text, own_tree = dt.to_dict(), dr.to_dict()
            if not (text_pairs_eq(ov_text, dt) and text_pairs_eq(own_text, dt)):
                bad("to_dict(view_override='text') differs from the text view", "%r vs %r" % (ov_text, dict(dt)), **cfgv)
            t_ov, t_own, t_dr = tree_sig(ov_tree), tree_sig(own_tree), tree_sig(dr)
            if not (t_ov == t_dr and t_own == t_dr):
                bad("to_dict(view_override='tree') differs from the tree view", "%r vs %r" % (t_ov, t_dr), **cfgv)
        except Exception as e:
            bad("to_dict raised", repr(e), exception=type(e).__name__, **cfgv)
        # ---- to_json ----
        in_table = not (has_type(a, frozenset) or has_type(b, frozenset))
        if in_table:
            try:
                js_t, js_r = dt.to_json(), dr.to_json()
                pj = json.loads(js_t, object_pairs_hook=Pairs)
                jkeys = []
                for c, payload in pj.pairs:
                    members = payload.keys() if isinstance(payload, Pairs) else payload
                    jkeys += [(c, m) for m in members]
                if sorted(jkeys) != sorted(txt.keys()):
                    bad("to_json categories/paths differ from the text view", "%r vs %r" % (sorted(jkeys)[:4], sorted(txt.keys())[:4]), **cfgv)
                if json_obs(js_t) != json_obs(js_r):
                    bad("to_json of the tree-view object differs from the text-view object's", "%s vs %s" % (js_t, js_r), **cfgv)
            except Exception as e:
                bad("to_json raised", repr(e), exception=type(e).__name__, has_non_utf8_bytes=non_utf8_bytes(a, b), **cfgv)
        else:
            ctx.count("to_json_skipped:frozenset")
        # ---- pretty ----
        try:
            st, sr = pretty_statements(dt), pretty_statements(dr)
            if sorted(st) != sorted(sr):
                bad("pretty() differs between the views", "%r vs %r" % (st, sr), **cfgv)
            if len(sr) != len(tp):
                bad("pretty() statement count differs from the number of changes", "%d statements, %d levels" % (len(sr), len(tp)), **cfgv)
            else:
                # pretty iterates sorted(tree.keys()) and each category in order, as tree_levels does
                for s, (kind, p, x, y, np_, lv) in zip(sr, tp):
                    if s == "":
                        bad("empty pretty statement", "%s %s" % (kind, p), report_type=kind, **cfgv)
                        break
                    named = lv.up.path() if kind.startswith("set_item") else lv.path()
                    if named not in s:
                        bad("pretty statement does not name the path of the change", "%r for %s at %s" % (s, kind, named),
                            report_type=kind, set_path=(lv.up.path() if kind.startswith("set_item") else None), **cfgv)
                        break
        except Exception as e:
            bad("pretty raised", repr(e), exception=type(e).__name__, **cfgv)
    return runs


def interference_mappings():
    """default_mapping arguments an unrelated caller might pass; they name types of the convertor table
    (and frozenset, which is in no row: a later plain to_json() must still raise for it)"""
    import decimal
    from deepdiff.helper import SetOrdered
    return [
        {bytes: lambda x: x.hex(), type: lambda t: t.__module__ + "." + t.__qualname__},
        {set: lambda x: "set:" + repr(sorted(x, key=repr)), decimal.Decimal: str},
        {SetOrdered: lambda x: ["SetOrdered"] + list(x), bytes: lambda x: "bytes"},
        {frozenset: lambda x: sorted(x, key=repr), type: lambda t: "T"},
    ]


def check_history(ctx, a, b, mode, runs, cfg):
    """to_json() of a comparison is a function of the comparison alone: an unrelated
    to_json(default_mapping=...) / json_dumps(default_mapping=...) in between must not change it"""
    from deepdiff import DeepDiff
    from deepdiff.serialization import json_dumps

    def snap(d):
        try:
            return ["ok", d.to_json()]
        except Exception as e:
            return ["raise", type(e).__name__]

    maps = interference_mappings()
    for verbose, (dt, dr) in runs.items():
        if verbose == 0:
            continue
        before = [snap(dt), snap(dr)]
        m = ctx.rng.choice(maps)
        how = ctx.rng.choice(["other-diff", "same-diff", "json_dumps"])
        try:
            if how == "other-diff":
                DeepDiff({"x": b"\x00", "s": {1}, "t": 1, "f": frozenset([1])}, {"x": b"\x01", "s": {2}, "t": "1", "n": 0, "f": frozenset([2])},
                         verbose_level=2).to_json(default_mapping=m)
            elif how == "same-diff":
                dt.to_json(default_mapping=m)
            else:
                json_dumps({"v": [b"ab", {1, 2}, int, frozenset([3])]}, default_mapping=m)
        except Exception:
            pass
        after = [snap(dt), snap(dr)]
        ctx.count("history:" + how)
        if before != after:
            ctx.fail(dict(t1=repr(a), t2=repr(b), mode=mode, clause="to_json depends on an earlier default_mapping call", verbose=verbose,
                          interference=how, mapping_types=sorted(t.__name__ for t in m), before=before[0], after=after[0], **cfg),
                     "to_json() changed after an unrelated %s with default_mapping for %s: %r -> %r" % (
                         how, sorted(t.__name__ for t in m), before[0], after[0]))
            break


def text_pairs_eq(d1, d2):
    p1, p2 = text_pairs(d1), text_pairs(d2)
    if sorted(p1.keys()) != sorted(p2.keys()):
        return False
    if set(d1.keys()) != set(d2.keys()):
        return False
    for k in p1:
        x, y = p1[k], p2[k]
        if isinstance(x, dict) and isinstance(y, dict):
            if set(x) != set(y) or not all(same(x[q], y[q]) if not isinstance(x[q], type) else x[q] is y[q] for q in x):
                return False
        elif not ((x is None and y is None) or same(x, y)):
            return False
    return True


def tree_sig(tree):
    """order-insensitive signature of a tree-view dict: empty categories are not compared"""
    sig = []
    for kind, p, x, y, np_, lv in tree_pairs(tree):
        sig.append(repr((kind, p, np_, None if is_np(x) else V.canon_sorted(x), None if is_np(y) else V.canon_sorted(y),
                         lv.additional.get("diff"), dict(lv.additional.get("repetition", {})))))
    return sorted(sig)


# ---------------------------------------------------------------------------
# correspondence
# ---------------------------------------------------------------------------
def c10_case(a, b, thr, verbose, dt, dr):
    """one Coq case: all presentations of an ordered-mode run"""
    try:
        js = json_obs(dt.to_json())
    except (TypeError, UnicodeDecodeError):
        js = "raise"
    exp = [core.sx_sorted(pretty_statements(dt)),
           js,
           ["text", D.text_obs(dr.to_dict(view_override="text"))],
           ["tree", D.tree_obs(dt.to_dict(view_override="tree"))]]
    run = "(run_diff hatom_simple (tbl_udiff %s) (tbl_ops %s) no_paths no_paths %s %s %s)" % (
        D.coq_udiff_table(D.udiff_table(a, b)), D.coq_ops_table(D.opcode_table(a, b)),
        D.coq_cfg(False, thr, True), V.to_coq(a), V.to_coq(b))
    return ("sx_c10 %d %s" % (verbose, run), exp, {"t1": repr(a), "t2": repr(b), "thr": thr, "verbose": verbose})


IO_HDR = ("From DD Require Import Base.PyStr Base.Value Path.PathModel Diff.Tree Diff.DiffModel Diff.TextView Diff.DiffShow "
          "Hash.HashModel DiffIO.DiffIOModel DiffIO.DiffIOShow Views.ViewsModel Views.ViewsShow.")


def io_case(a, b, verbose, dt, dr):
    """one Coq case: all presentations of an ignore_order run (report_repetition=False), the
    model being fed the pairings the implementation used (recorded as in C05)"""
    from deepdiff import DeepDiff
    from harness.props import c05
    with c05.Recording() as rec:
        d2 = DeepDiff(a, b, ignore_order=True, view="tree", verbose_level=verbose)
        tbl = c05.pairs_table(rec)
        if not all(c05.pairs_valid(x) for x in rec):
            return None
    if D.tree_obs(d2) != D.tree_obs(dr):
        return None
    try:
        js = json_obs(dt.to_json())
    except (TypeError, UnicodeDecodeError):
        js = "raise"
    exp = [core.sx_sorted(pretty_statements(dt)), js,
           ["text", D.text_obs(dr.to_dict(view_override="text"))],
           ["tree", D.tree_obs(dt.to_dict(view_override="tree"))]]
    run = "(fst (run_diff_io hexhash (tbl_udiff %s) no_paths no_paths %s false (tbl_pairs %s) %s %s))" % (
        D.coq_udiff_table(D.udiff_table(a, b)), D.coq_cfg(False, 0.33), c05.coq_pairs_table(tbl), V.to_coq(a), V.to_coq(b))
    return ("sx_c10_es %d %s" % (verbose, run), exp, {"t1": repr(a), "t2": repr(b), "mode": "ignore_order", "verbose": verbose})


def text_rep_obs(res):
    """text-view dict -> (D.text_obs of everything but repetition_change, sorted repetition records)"""
    rest = {k: v for k, v in res.items() if k != "repetition_change"}
    reps = []
    for p, r in (res.get("repetition_change") or {}).items():
        if r["old_repeat"] != len(r["old_indexes"]) or r["new_repeat"] != len(r["new_indexes"]) or set(r) != {"old_repeat", "new_repeat", "old_indexes", "new_indexes", "value"}:
            reps.append(["MALFORMED", p])
        else:
            reps.append([p, list(r["old_indexes"]), list(r["new_indexes"]), V.canon(r["value"])])
    return ["text", D.text_obs(rest), core.sx_sorted(reps)]


def rep_case(a, b, verbose, dt, dr):
    """one Coq case: all presentations of an ignore_order + report_repetition run, incl. the
    repetition_change category of the text view / to_json (model: run_diff_io with rep = true)"""
    from deepdiff import DeepDiff
    from harness.props import c05
    with c05.Recording() as rec:
        d2 = DeepDiff(a, b, ignore_order=True, report_repetition=True, view="tree", verbose_level=verbose)
        tbl = c05.pairs_table(rec)
        if not all(c05.pairs_valid(x) for x in rec):
            return None
    if c05.io_obs(d2) != c05.io_obs(dr):
        return None
    try:
        js = json_obs(dt.to_json())
    except (TypeError, UnicodeDecodeError):
        js = "raise"
    exp = [core.sx_sorted(pretty_statements(dt)), js,
           text_rep_obs(dr.to_dict(view_override="text")),
           ["tree", D.tree_obs(dt.to_dict(view_override="tree"))]]
    run = "(run_diff_io hexhash (tbl_udiff %s) no_paths no_paths %s true (tbl_pairs %s) %s %s)" % (
        D.coq_udiff_table(D.udiff_table(a, b)), D.coq_cfg(False, 0.33), c05.coq_pairs_table(tbl), V.to_coq(a), V.to_coq(b))
    expr = "(let r := %s in sx_c10_rep %d (fst r) (map (fun x => (rpath x, rold x, rnew x)) (snd r)))" % (run, verbose)
    return (expr, exp, {"t1": repr(a), "t2": repr(b), "mode": "ignore_order+repetition", "verbose": verbose})


def value_case(v):
    try:
        js = jcanon(json.loads(_dumps(v), object_pairs_hook=Pairs))
    except (TypeError, UnicodeDecodeError):
        js = "raise"
    return ("sx_strs %s" % V.to_coq(v), [str(v), repr(v), js], {"value": repr(v)})


def _dumps(v):
    from deepdiff.serialization import json_dumps
    return json_dumps(v)


# ---------------------------------------------------------------------------
# generators
# ---------------------------------------------------------------------------
def gen_atom(rng):
    r = rng.random()
    if r < 0.12:
        return rng.choice(BYTES)
    if r < 0.3:
        return rng.choice(STRS)
    return V.gen_atom(rng, strings=STRS)


def keygen(rng):
    while True:
        k = gen_atom(rng)
        if not isinstance(k, bytes):
            return k


def gen_val(rng, depth=3, width=4, kinds="LTDSFA"):
    if depth <= 0 or rng.random() < 0.25:
        return gen_atom(rng)
    k = rng.choice(kinds)
    n = rng.randint(0, width)
    if k == "L":
        return [gen_val(rng, depth - 1, width, kinds) for _ in range(n)]
    if k == "T":
        return tuple(gen_val(rng, depth - 1, width, kinds) for _ in range(n))
    if k in "DSF":
        keys = []
        for _ in range(n * 3):
            q = gen_atom(rng) if k != "D" else keygen(rng)
            if len(keys) < n and all(not (q == z) for z in keys):
                keys.append(q)
        if k == "D":
            return {q: gen_val(rng, depth - 1, width, kinds) for q in keys}
        return set(keys) if k == "S" else frozenset(keys)
    return gen_atom(rng)


def gen_pairs(ctx, n):
    rng = ctx.rng
    out = []
    for _ in range(n):
        r = rng.random()
        if r < 0.3:
            t1 = gen_val(rng, 3, 4, kinds="LTDSA" if rng.random() < 0.8 else "LTDSFA")
            vals, kinds = V.edit_script(rng, t1, rng.randint(1, 3), strings=STRS)
            t2 = vals[-1]
            ctx.count("gen:edit_script")
        elif r < 0.45:
            t1 = gen_val(rng, 3, 4, kinds="DDDLTA")
            if not isinstance(t1, dict):
                t1 = {"k": t1, 1: gen_val(rng, 2, 3, kinds="DLA"), None: gen_atom(rng)}
            vals, kinds = V.edit_script(rng, t1, rng.randint(1, 4), strings=STRS,
                                        kinds=["dict_add", "dict_add", "dict_del", "dict_del", "dict_rekey", "replace_atom", "replace_sub", "type_change"])
            t2 = vals[-1]
            ctx.count("gen:dict_edit_script")
        elif r < 0.7:
            x, y, _k = V.gen_atom_list_pair(rng, maxlen=8)
            t1, t2 = V.plant(rng, rng.choice([0, 0, 1, 2]), (x, y))
            ctx.count("gen:atom_list_edit")
        elif r < 0.8:
            t1, t2 = gen_val(rng, 3, 3), gen_val(rng, 3, 3)
            ctx.count("gen:independent")
        elif r < 0.86:
            t1, t2 = gen_multi_sets(rng)
            ctx.count("gen:multi_sets")
        elif r < 0.92:
            t1, t2 = gen_shared_sets(rng)
            ctx.count("gen:shared_set_object")
        else:
            s1 = gen_val(rng, 1, 4, kinds="S")
            s2 = gen_val(rng, 1, 4, kinds="S")
            if not isinstance(s1, set) or not isinstance(s2, set):
                s1, s2 = {1, 2, "a"}, {2, 3, "b"}
            t1, t2 = V.plant(rng, rng.choice([0, 1, 2]), (s1, s2))
            ctx.count("gen:sets")
        out.append((t1, t2))
    return out


def gen_multi_sets(rng):
    """2-4 sets at different paths (dict values, list items, nested), each gaining / losing members"""
    n = rng.randint(2, 4)
    pool = [1, 2, 3, 4, 5, "a", "b", "x y", "it's", None, 2.5, True, b"ab"]
    olds, news = [], []
    for _ in range(n):
        base = set(rng.sample(pool, rng.randint(0, 4)))
        new = set(base)
        for _e in range(rng.randint(1, 3)):
            m = rng.choice(pool)
            if m in new and rng.random() < 0.5:
                new.discard(m)
            elif not any(m == q for q in new):
                new.add(m)
        if rng.random() < 0.2:
            base, new = frozenset(base), frozenset(new)
        olds.append(base)
        news.append(new)
    shape = rng.choice(["dict", "dict", "list", "nested", "mixed"])
    keys = rng.sample(["a", "b", "c", 1, 2.5, None, "k k"], n)
    if shape == "dict":
        return dict(zip(keys, olds)), dict(zip(keys, news))
    if shape == "list":
        return [0] + olds, [0] + news
    if shape == "nested":
        return ({"p": {keys[0]: olds[0]}, "q": [olds[1]], "r": tuple(olds[2:])},
                {"p": {keys[0]: news[0]}, "q": [news[1]], "r": tuple(news[2:])})
    return ({keys[0]: olds[0], "l": [1, olds[1:]]}, {keys[0]: news[0], "l": [1, news[1:]]})


def gen_shared_sets(rng):
    """ONE set / frozenset OBJECT referenced at 2-3 places of t1 (records sharing a default set) whose counterparts in
    t2 each gain and / or lose members; with probability 0.3 two places of t2 share one object as well
    (after the independently seeded change C10-a: a per-object memo of the set's path in the text conversion)"""
    pool = [1, 2, 3, 4, 5, "a", "b", "x y", "it's", None, 2.5, b"ab"]
    base = set(rng.sample(pool, rng.randint(1, 4)))
    n = rng.randint(2, 3)
    direction = rng.choice(["gain", "lose", "mixed", "mixed"])
    news = []
    for _ in range(n):
        new = set(base)
        for _e in range(rng.randint(1, 2)):
            m = rng.choice(pool)
            lose = direction == "lose" or (direction == "mixed" and rng.random() < 0.5)
            if lose and new:
                new.discard(rng.choice(sorted(new, key=repr)))
            elif not any(m == q for q in new):
                new.add(m)
        if new == base:
            new = set(base) | {9}
        news.append(new)
    if rng.random() < 0.3:
        news[1] = news[0]
    if rng.random() < 0.25:
        base = frozenset(base)
        memo = {}
        news = [memo.setdefault(id(x), frozenset(x)) for x in news]
    olds = [base] * n
    shape = rng.choice(["dict", "dict", "list", "records", "nested"])
    keys = rng.sample(["a", "b", "c", 1, 2.5, None, "k k"], n)
    if shape == "dict":
        return dict(zip(keys, olds)), dict(zip(keys, news))
    if shape == "list":
        return [0] + olds, [0] + news
    if shape == "records":
        return ([{"id": i, "tags": o} for i, o in enumerate(olds)], [{"id": i, "tags": x} for i, x in enumerate(news)])
    return ({"p": {keys[0]: olds[0]}, "q": [olds[1]], "r": tuple(olds[2:])},
            {"p": {keys[0]: news[0]}, "q": [news[1]], "r": tuple(news[2:])})


def shared_fixed_pairs():
    """fixed pairs with one set object at two places of t1"""
    s, f = {1, 2}, frozenset(["x"])
    return [({"a": s, "b": s}, {"a": {1, 2, 3}, "b": {1, 2, 4}}),
            ([s, s, s], [{1}, {2}, {1, 2, 5}]),
            ({"u": {"tags": f}, "v": {"tags": f}}, {"u": {"tags": frozenset(["x", "y"])}, "v": {"tags": frozenset(["x", "z"])}})]


FIXED_PAIRS = [
    ({'a': {1, 2}, 'b': {1, 2}, 'c': [{'x'}, {'x', 'y'}]}, {'a': {1, 2, 3}, 'b': {1, 2, 3}, 'c': [{'x', 'z'}, {'x'}]}),
    ({'a': {1, 2}, 'b': {3, 4}}, {'a': {2}, 'b': {4}}),
    ([{1}, {2}, {3}], [{1, 9}, {2, 9}, {3, 8}]),
    ({'a': [1, 2], 'b': [1, 2]}, {'a': [1, 2, 3], 'b': [1, 2, 3]}),
    ({'a': {'x': 1}, 'b': {'x': 1}}, {'a': {'x': 2, 'y': 0}, 'b': {'x': 3, 'y': 0}}),
]


MODES = (("ordered", {}), ("ignore_order", {"ignore_order": True}),
         ("ignore_order+repetition", {"ignore_order": True, "report_repetition": True}))


def one_pair(ctx, t1, t2, cases, corr=True, iocases=None, repcases=None):
    a, b = copy.deepcopy(t1), copy.deepcopy(t2)
    sa, sb = D.snapshot(a), D.snapshot(b)
    thr = ctx.rng.choice([0.33, 0.33, 0])
    for mode, kw in MODES:
        kw = dict(kw)
        cfg = {}
        if mode == "ordered":
            kw["threshold_to_diff_deeper"] = thr
            cfg["thr"] = thr
        runs = check_mode(ctx, a, b, mode, kw, cfg)
        check_history(ctx, a, b, mode, runs, cfg)     # before the correspondence cases: they must agree with the model afterwards too
        if mode == "ordered" and corr:
            if D.in_model_guard(a, b) and repr_in_model(a, b):
                for verbose, (dt, dr) in runs.items():
                    try:
                        cases.append(c10_case(a, b, thr, verbose, dt, dr))
                    except Exception as e:
                        ctx.break_("correspondence", {"name": "c10", "case": {"t1": repr(a), "t2": repr(b), "thr": thr, "verbose": verbose},
                                                      "error": "could not observe the presentations: " + repr(e)})
            else:
                ctx.count("outside_model_guard")
        if mode == "ignore_order" and corr and iocases is not None and D.in_model_guard(a, b) and repr_in_model(a, b) and not non_utf8_bytes(a, b):
            for verbose, (dt, dr) in runs.items():
                try:
                    c = io_case(a, b, verbose, dt, dr)
                except Exception as e:
                    ctx.break_("correspondence", {"name": "c10io", "case": {"t1": repr(a), "t2": repr(b), "verbose": verbose},
                                                  "error": "could not observe the presentations: " + repr(e)})
                    continue
                if c is None:
                    ctx.count("io_case_skipped")
                else:
                    iocases.append(c)
        if mode == "ignore_order+repetition" and corr and repcases is not None and D.in_model_guard(a, b) and repr_in_model(a, b) and not non_utf8_bytes(a, b):
            for verbose, (dt, dr) in runs.items():
                try:
                    c = rep_case(a, b, verbose, dt, dr)
                except Exception as e:
                    ctx.break_("correspondence", {"name": "c10rep", "case": {"t1": repr(a), "t2": repr(b), "verbose": verbose},
                                                  "error": "could not observe the presentations: " + repr(e)})
                    continue
                if c is None:
                    ctx.count("rep_case_skipped")
                else:
                    repcases.append(c)
                    if "repetition_change" in dr:
                        ctx.count("rep_cases_with_repetition_change")
    if D.snapshot(a) != sa or D.snapshot(b) != sb:
        ctx.fail(dict(t1=repr(t1), t2=repr(t2), clause="inputs modified"), "a presentation modified an input")


def replay_witnesses(ctx):
    """the Coq witnesses of the open findings must still fail on the implementation"""
    from deepdiff import DeepDiff
    open_keys = {f["key"] for f in ctx.findings if f.get("status") == "open"}
    # fixed finding C10-pretty-set-item-root: the Coq example must be what the implementation prints
    s = DeepDiff({"a": {1, 2}}, {"a": {1, 3}}).pretty()
    if "Item root['a'][3] added to set." not in s.split("\n"):
        ctx.break_("correspondence", {"name": "C10_pretty_set_item_example", "detail": "the implementation no longer prints the statement of the Coq example", "impl": s})
    if "C10-to_json-non-utf8-bytes" in open_keys:
        try:
            s = DeepDiff([b"\xff"], [b"a"]).to_json()
            ctx.break_("correspondence", {"name": "C10-to_json-non-utf8-bytes witness", "detail": "C10_json_total_refuted's witness no longer raises on the implementation; model out of date", "impl": s})
        except UnicodeDecodeError:
            pass
    if "C10-repetition-t2-index" in open_keys:
        for t1, t2, kind in (([3, 1, 2], [4, 4, 3], "values_changed"), ([4, 4, 1], [1, 4, 2], "repetition_change")):
            d = DeepDiff(t1, t2, ignore_order=True, report_repetition=True, view="tree")
            lv = list(d[kind])[0]
            rel = lv.up.t2_child_rel or lv.up.t1_child_rel
            if lv.up.t2[rel.param] == lv.t2:
                ctx.break_("correspondence", {"name": "C10-repetition-t2-index witness", "detail": "C10_io_repetition_leaf_refuted's witness no longer fails on the implementation; model out of date", "impl": repr(d)})
    for t1, t2 in (({"a": {1, 2}}, {"a": {1, 3}}), ([b"\xff"], [b"a"]), ([3, 1, 2], [4, 4, 3]), ([4, 4, 1], [1, 4, 2])):
        one_pair(ctx, t1, t2, [], corr=False)


def run(ctx):
    pairs = FIXED_PAIRS + shared_fixed_pairs() + gen_pairs(ctx, 4500 if ctx.thorough else 400)
    cases, iocases, repcases = [], [], []
    for t1, t2 in pairs:
        one_pair(ctx, t1, t2, cases, iocases=iocases, repcases=repcases)
    for c in cases[:3]:
        ctx.sample(c[2])
    ctx.coq_cases("c10", HDR, cases, shard=60, label="all_presentations_ordered")
    ctx.coq_cases("c10io", IO_HDR, iocases, shard=60, label="all_presentations_ignore_order")
    ctx.coq_cases("c10rep", IO_HDR, repcases, shard=60, label="all_presentations_ignore_order_repetition")
    vcases = []
    for _ in range(3000 if ctx.thorough else 400):
        v = gen_val(ctx.rng, 3, 3)
        if repr_in_model(v):
            vcases.append(value_case(v))
    ctx.coq_cases("c10v", HDR, vcases, shard=150, label="str_repr_jsonable")
    replay_witnesses(ctx)


def replay(ctx, data):
    case = data.get("case", {})
    if "t1" in case:
        t1, t2 = eval(case["t1"]), eval(case["t2"])
        one_pair(ctx, t1, t2, [], corr=False)
    else:
        run(ctx)

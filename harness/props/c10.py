"""C10 - tree view, text view, to_dict, to_json and pretty() describe the same changes.

proof:           Views/ViewsModel.v + ViewsProofs.v -> Properties/C10.v
correspondence:  for each generated pair x {ordered (x threshold), ignore_order, ignore_order+report_repetition} x
                 verbose_level, ONE Coq case sharing the model run between its components:
                   pretty() statements (split at the prefix), json.loads(to_json()) as a JSON-able
                   value (duplicate keys kept), to_dict(view_override='text') of the tree-view object,
                   to_dict(view_override='tree') of the text-view object;
                   at verbose 1: the delta view (view='_delta'), one real DiffLevel line
                   (path() in both forms on both sides on every object of the line), in
                   report_repetition runs the guards aligned / sibinj;
                   at verbose 2 (75%): to_json(default_mapping=M), M from 10 families, the convertors as
                   tables of their recorded calls;
                 plus str()/repr()/JSON-able value of single generated values and
                 json_dumps(v, default_mapping=M).
direct oracle:   the relational statement on the real objects, in ordered mode, ignore_order and
                 ignore_order+report_repetition, verbose 0/1/2, view text/tree:
                   chain walk (up/down, child relationships, identity with the sub-objects of the
                   inputs, root holds the original objects); tree vs text (same (category, path,
                   values) at verbose 2, the documented projection below); to_dict(view_override)
                   in both directions; to_json parses, same categories and paths, same on both
                   views; pretty(): one non-empty statement per level, naming the level's path,
                   same on both views; the delta view through five access paths vs the tree, category
                   by category; pretty(prefix=callable) / to_json argument shapes; 11 option
                   combinations (40% of the pairs); shared container objects.
"""
import base64
import copy
import json
import pickle

from harness import core, values as V, diffcommon as D, deltacommon as DC

THEOREM_FILE = "Properties/C10.v"
COQCHK = ["Properties.C10"]
RULE = ("pairs of nested values (depth <= 3, width <= 4; atoms None/bool/int/half-integer float/str/bytes incl. quotes, backslash, "
        "newline, tab, DEL, Latin-1 and non-UTF-8 bytes; list/tuple/dict/set/frozenset): 30% edit scripts of 1-3 edits, 15% dict-rooted "
        "values with 1-4 key add/delete/rekey/replace edits, 25% atom "
        "lists related by insert/delete/replace/move/dup planted under 0-2 levels, 6% independent values, 4% lists of rows shifted by an insertion in front with one row edited (paired at different indexes under ignore_order), 6% 2-4 sets at different paths "
        "(dict values / list items / nested) each gaining and losing members, 6% ONE set / frozenset object shared by 2-3 places of t1 (and sometimes of t2) "
        "with member changes at each place, 8% one planted set pair; plus 5 fixed multi-container pairs and 3 fixed shared-set pairs; in 12% of all pairs one list / dict object of t1 is made to occur at a second place (values.share, else the whole of t1 twice under a fresh root; in 40% of those t2 as well); "
        "40% of the pairs also under one of 11 option COMBINATIONS (two or three options at once; direct oracle only, without the identity clauses of the chain walk); "
        "x {ordered, ignore_order, ignore_order+report_repetition} x verbose_level {0,1,2} x view {text,tree} "
        "(ordered mode also x threshold_to_diff_deeper {0.33, 0}). Non-trivial = non-empty tree; distinct by (t1, t2, mode, verbose).")
TRUSTED = ["the JSON text encoder (json / orjson) and json.loads: the model stops at the JSON-able value that json.dumps walks; the check parses to_json() back",
           "difflib opcodes / unified_diff text / DeepHash of set members enter the ordered-diff model as oracles (as in C04)",
           "the DiffLevel line is a zipper in Views/ViewsLevel.v (links, all_up/all_down, path() in both forms, create_deeper) tied by correspondence on real lines; the IDENTITY (`is`) of node objects with the inputs' sub-objects, copy() and branch_deeper are checked by the chain walk on every generated case, not proved",
           "default_mapping convertors enter the model as tables of the calls they received (recorded on the run compared); isinstance for user classes as a table computed on one representative per class",
           "the guards aligned / sibinj of C10_io_repetition_chains_aligned are evaluated in Coq on the inputs and compared with a mirror built on the implementation's DeepHash",
           "Python repr() of str for code points >= 256 (assumed printable) and of floats >= 1e16 is outside the model; generators stay below"]
ASSUMPTIONS = ["verbose_level in {0,1,2}", "dict/set inputs satisfy Python's representation invariant; values are tree-shaped except that one set / frozenset object may sit at several places; no bytes dict keys (finding F5)"]

# second tie (core.source_tie_step): TextResult's conversion and pretty_print_diff regenerated from the current source
SOURCE_TIES = [{"name": "textresult", "translator": "textresult", "gen_module": "ViewsGen", "equiv": ["ViewsGenEquiv"],
                "needs": ["Views.ViewsSrc", "Views.ViewsSrcProofs"],
                "sources": ["deepdiff/model.py", "deepdiff/serialization.py", "deepdiff/helper.py"],
                "fragment": "model.py: FORCE_DEFAULT, REPORT_KEYS, CUSTOM_FIELD, class TextResult (__init__ container table, __set_or_dict, "
                            "_from_tree_results and every _from_tree_* method); serialization.py: _get_pretty_form_text, pretty_print_diff"}]

MARK = "\x01<S>\x02"
HDR = D.MODEL_HDR + "\nFrom DD Require Import Views.ViewsModel Views.ViewsShow."
STRS = V.STR_POOL + ["a\nb", "a\nc\n", "it's", 'q"q', "b'\"c", "back\\slash", "tab\there", "\x7f", "caf\xe9", "\x85\xa0\xad", "{x}", "[0]", "root"]
BYTES = [b"a", b"", b"ab", b"caf\xc3\xa9", b"\xff", b"it's", b'q"', b"\xe2\x82\xac", b"\xc0\x80", b"\xed\xa0\x80", b"n\nl"]


# ---------------------------------------------------------------------------
# known findings
# ---------------------------------------------------------------------------
def k_pretty_set_root(case):
    """(finding fixed in 9738d10; kept for reference, not registered)
    pretty() names an item of a set that is not the root object as root[<item>]"""
    return (case.get("clause") == "pretty statement does not name the path of the change"
            and case.get("report_type") in ("set_item_added", "set_item_removed")
            and case.get("set_path") not in (None, "root"))


def k_json_bytes(case):
    """to_json raises UnicodeDecodeError for a bytes value that is not valid UTF-8"""
    return (case.get("clause") == "to_json raised" and case.get("exception") == "UnicodeDecodeError"
            and case.get("has_non_utf8_bytes") is True)


def k_rep_chain(case):
    """report_repetition=True: below a list with repeated items the t2-side child relationship carries the
    t1 index (child_relationship_param2=None), and every index of a repeated item gets the first item's object.
    `repeats_at_link` (chain_problems / link_feature): at EVERY failing link the node's hash - DeepHash under the parameters
    and the shared table of the plain report_repetition run (run_hasher), NOT Python == - is repeated among the items of the
    parent list on the side where the report_repetition branch reads it, and a repetition_change link carries the predicted
    index (t1's first index of the hash).  The chain clause is evaluated, and the hashes are those, in the plain mode only."""
    return (case.get("clause") == "chain" and case.get("mode") == "ignore_order+repetition" and case.get("repeats_at_link") is True
            and set(case.get("problem_tags", ["?"])) <= {"t2-sub", "t2-noitem", "t2-eq-not-is", "t1-eq-not-is"}
            # the finding's mechanism, as proved of the model (C10_io_repetition_backed): only the INDEX is wrong - the node
            # object is still an item of the parent container, and a wrong t2 link carries t1's parameter
            and case.get("backed") is True and case.get("t2_param_is_t1_param") is True
            # C10_io_repetition_chains_aligned: under the guards aligned + sibinj every reported index leads to an object EQUAL
            # to the node's (the model has no identity): only the "first item's object, equal but not identical" half of the
            # finding can show there; a wrong index on aligned inputs is new
            and (case.get("aligned_and_sibinj") is not True
                 or set(case.get("problem_tags", ["?"])) <= {"t1-eq-not-is", "t2-eq-not-is"}))


MATCHERS = {"C10-to_json-non-utf8-bytes": k_json_bytes,
            "C10-repetition-t2-index": k_rep_chain}


# ---------------------------------------------------------------------------
# observers
# ---------------------------------------------------------------------------
def walk_values(v):
    yield v
    if isinstance(v, (list, tuple, set, frozenset)):
        for x in v:
            yield from walk_values(x)
    elif isinstance(v, dict):
        for k, x in v.items():
            yield k
            yield from walk_values(x)


def has_type(v, t):
    return any(type(x) is t for x in walk_values(v))


def non_utf8_bytes(*vals):
    for v in vals:
        for x in walk_values(v):
            if isinstance(x, bytes):
                try:
                    x.decode("utf-8")
                except UnicodeDecodeError:
                    return True
    return False


def repr_in_model(*vals):
    for v in vals:
        for x in walk_values(v):
            if isinstance(x, str) and any(ord(c) > 255 for c in x):
                return False
            if isinstance(x, float) and abs(x) >= 1e15:
                return False
    return True


def jcanon(x):
    """parsed JSON (object_pairs_hook=pairs) -> mirror of ViewsShow.sx_jv"""
    if x is None:
        return "null"
    if x is True or x is False:
        return ["b", x]
    if isinstance(x, int):
        return ["i", x]
    if isinstance(x, float):
        t = x * 2
        if t != int(t):
            raise ValueError("float outside the universe: %r" % x)
        return ["f", int(t)]
    if isinstance(x, str):
        return ["s", x]
    if isinstance(x, list):
        return ["A", [jcanon(y) for y in x]]
    if isinstance(x, Pairs):
        return ["O", [[k, jcanon(v)] for k, v in x.pairs]]
    raise TypeError(x)


class Pairs:
    def __init__(self, pairs):
        self.pairs = pairs

    def keys(self):
        return [k for k, _ in self.pairs]


def json_obs(text):
    """mirror of ViewsShow.sx_json on the JSON text"""
    top = json.loads(text, object_pairs_hook=Pairs)
    if not isinstance(top, Pairs):
        return jcanon(top)
    cats = []
    for c, payload in top.pairs:
        if isinstance(payload, Pairs):
            p = ["O", core.sx_sorted([[k, jcanon(v)] for k, v in payload.pairs])]
        elif isinstance(payload, list):
            p = ["A", core.sx_sorted([jcanon(y) for y in payload])]
        else:
            p = jcanon(payload)
        cats.append([c, p])
    return ["json", core.sx_sorted(cats)]


def pretty_statements(dd):
    s = dd.pretty(prefix=MARK)
    if s == "":
        return []
    assert s.startswith(MARK), s
    return s[len(MARK):].split("\n" + MARK)


def tree_levels(tree):
    out = []
    for kind in sorted(tree.keys()):
        v = tree[kind]
        if kind == "deep_distance" or isinstance(v, (int, float)):
            continue
        for lv in v:
            out.append((kind, lv))
    return out


def quoted(item):
    # the documented spelling of a set member: root[3], root['a'] (str and bytes are "strings" to deepdiff)
    return "'%s'" % item if isinstance(item, (str, bytes)) else str(item)


def tree_pairs(tree):
    """[(category, path as the text view spells it, t1, t2, new_path, level)] for every level of a tree view"""
    out = []
    for kind, lv in tree_levels(tree):
        if kind in ("set_item_added", "set_item_removed"):
            item = lv.t2 if kind == "set_item_added" else lv.t1
            out.append((kind, "%s[%s]" % (lv.up.path(), quoted(item)), lv.t1, lv.t2, None, lv))
        else:
            p, p2 = lv.path(force="fake"), lv.path(use_t2=True, force="fake")
            out.append((kind, p, lv.t1, lv.t2, p2 if p2 != p else None, lv))
    return out


def text_pairs(res):
    """{(category, path): dict of what the text view shows for it}"""
    out = {}
    for cat, body in res.items():
        if cat == "deep_distance":
            continue
        if isinstance(body, dict):
            for p, x in body.items():
                out[(cat, p)] = x
        else:
            for p in body:
                out[(cat, p)] = None
    return out


NP = None


def _containers(v, count):
    if isinstance(v, (list, tuple, dict, set, frozenset)):
        count[id(v)] = count.get(id(v), 0) + 1
        if count[id(v)] > 1:
            return
    if isinstance(v, (list, tuple)):
        for y in v:
            _containers(y, count)
    elif isinstance(v, dict):
        for y in v.values():
            _containers(y, count)


def has_sharing(*vals):
    """some container object (list / tuple / dict / set / frozenset; the empty tuple is a singleton) occurs twice"""
    for v in vals:
        count = {}
        _containers(v, count)
        if any(n > 1 for i, n in count.items()):
            return True
    return False


def srepr(v):
    """repr() that keeps the sharing of container objects: an object that occurs more than once is bound by an
    assignment expression at its first occurrence ([0, (s0 := {1, 2}), s0]); eval() rebuilds the aliasing"""
    count = {}
    _containers(v, count)
    if not any(n > 1 for n in count.values()):
        return repr(v)
    names = {}

    def go(x):
        if isinstance(x, (list, tuple, dict, set, frozenset)) and count.get(id(x), 0) > 1 and x != ():
            if id(x) in names:
                return names[id(x)]
            names[id(x)] = "s%d" % len(names)
            return "(%s := %s)" % (names[id(x)], body(x))
        return body(x)

    def body(x):
        if isinstance(x, list):
            return "[" + ", ".join(go(y) for y in x) + "]"
        if isinstance(x, tuple):
            return "(" + ", ".join(go(y) for y in x) + ("," if len(x) == 1 else "") + ")"
        if isinstance(x, dict):
            return "{" + ", ".join("%r: %s" % (k, go(y)) for k, y in x.items()) + "}"
        return repr(x)
    return go(v)


def is_np(x):
    return x is D.notpresent()


def same(a, b):
    if is_np(a) or is_np(b):
        return is_np(a) and is_np(b)
    try:
        return V.typed_eq(a, b)
    except Exception:
        return a == b and type(a) is type(b)


# ---------------------------------------------------------------------------
# guards of C10_io_repetition_chains_aligned, mirrored on the implementation's own hashes
# ---------------------------------------------------------------------------
def item_hasher(a, b):
    """x -> the hash _diff_iterable_with_deephash files an item under (DeepHash with the parameters of a
    DeepDiff(ignore_order=True, report_repetition=True) run)"""
    from deepdiff import DeepDiff, DeepHash
    params = DeepDiff([1], [2], ignore_order=True, report_repetition=True).deephash_parameters
    memo = {}

    def h(x):
        k = id(x)
        if k not in memo:
            memo[k] = (x, DeepHash(x, **params)[x])
        return memo[k][1]
    return h


def aligned_py(t1, t2, h):
    """mirror of ViewsRep.aligned"""
    if type(t1) is type(t2) and isinstance(t1, (list, tuple)):
        hx, hy = [h(x) for x in t1], [h(y) for y in t2]
        if len(set(hy)) != len(hy):
            return False
        if any(q in hy and hx.count(q) > 1 for q in hx):
            return False
        return all(aligned_py(x, y, h) for x in t1 for y in t2)
    if isinstance(t1, dict) and isinstance(t2, dict):
        return all(aligned_py(v1, v2, h) for k1, v1 in t1.items() for k2, v2 in t2.items() if DC._py_eq(k1, k2))
    return True


def sibinj_py(v, h):
    """mirror of ViewsRep.sibinj: items of one list with equal hashes are structurally equal"""
    if isinstance(v, (list, tuple)):
        hs = [h(x) for x in v]
        for i in range(len(v)):
            for j in range(i + 1, len(v)):
                if hs[i] == hs[j] and V.to_coq(v[i]) != V.to_coq(v[j]):
                    return False
        return all(sibinj_py(x, h) for x in v)
    if isinstance(v, dict):
        return all(sibinj_py(x, h) for x in v.values())
    return True


def run_hasher():
    """x -> the hash under which _create_hashtable files an item x in a plain DeepDiff(ignore_order=True,
    report_repetition=True) run: DeepHash with that run's deephash_parameters (so: order ignored inside nested lists /
    tuples as well, ignore_repetition=False = multiplicities count) and ONE `hashes` table shared by all calls, as the run's
    self.hashes is.  The shared table is what makes hashable ==-aliases one entry (1 / 1.0, (1, 3) / (1.0, 3) / (True, 3),
    frozensets of them; NOT 1 / True, which DeepHash keys apart) wherever they sit.  Which alias is met first decides the
    VALUE of the common hash, never WHICH items have a common one, and only equality of the results is used here.
    "Repeated item" in finding C10-repetition-t2-index means this relation - it is neither finer nor coarser than ==:
    (1, 3) / (3, 1) and [1, [2, 3]] / [[3, 2], 1] are repeated without being ==, 1 / True and [1] / [True] are == without
    being repeated.  The table is keyed by id() for unhashable objects: one hasher per pair of live inputs."""
    from deepdiff import DeepDiff, DeepHash
    params = DeepDiff([1], [2], ignore_order=True, report_repetition=True).deephash_parameters
    table = {}

    def h(x):
        return DeepHash(x, hashes=table, apply_hash=True, **params)[x]
    return h


def rep_guards(a, b):
    """aligned + sibinj (the guards of C10_io_repetition_chains_aligned, true for every hasher) under the hash relation of
    the run itself (run_hasher: one shared table), which is what decides whether the code meets a repeated hash"""
    try:
        h = run_hasher()
        return bool(aligned_py(a, b, h) and sibinj_py(a, h))
    except Exception:
        return None


# ---------------------------------------------------------------------------
# direct oracle
# ---------------------------------------------------------------------------
def link_feature(h, cur, d, side, tag, param, leaf_kind):
    """does ONE failing link cur -> d show the feature of finding C10-repetition-t2-index for the failure `tag` observed on
    `side`, in the position where it acts in _diff_iterable_with_deephash (report_repetition branch)?  "Repeated" = equal
    hashes (run_hasher), counted among the items of the parent list / tuple of the link:
      t1-eq-not-is  every t1 index of a repeated hash is reported with the first item's object: the node's t1 hash occurs
                    at >= 2 places of the parent's t1;
      t2-eq-not-is  the same on the t2 side (an added item whose hash is repeated in t2);
      t2-sub / t2-noitem (the t2 link carries t1's index):
                    child_relationship_param2 is None because the node's t2 hash occurs at >= 2 places of the parent's t2, or
                    the link is the last link of a repetition_change level: the hash is in both lists, a different number of
                    times, and the index on the link is the one the finding predicts - t1's FIRST index of the hash.
    Returns (bool, description of the positions for the replay file)."""
    if not (isinstance(cur.t1, (list, tuple)) and isinstance(cur.t2, (list, tuple))):
        return False, "parent is no list / tuple on both sides"
    try:
        h1, h2 = [h(x) for x in cur.t1], [h(y) for y in cur.t2]
        c1 = None if is_np(d.t1) else h(d.t1)
        c2 = None if is_np(d.t2) else h(d.t2)
    except Exception as e:
        return False, "hashing raised " + type(e).__name__
    at1 = [i for i, q in enumerate(h1) if q == c1] if c1 is not None else []
    at2 = [i for i, q in enumerate(h2) if q == c2] if c2 is not None else []
    desc = "%s at %s[%r]: node t1 hash at t1 indexes %r, node t2 hash at t2 indexes %r" % (tag, cur.path(force="fake"), param, at1, at2)
    if tag == "t1-eq-not-is":
        return side == 1 and len(at1) >= 2, desc
    if tag == "t2-eq-not-is":
        return side == 2 and len(at2) >= 2, desc
    if tag in ("t2-sub", "t2-noitem") and side == 2:
        if len(at2) >= 2:
            return True, desc
        if leaf_kind == "repetition_change" and c1 is not None and c1 == c2:
            return bool(at1 and at2 and len(at1) != len(at2) and param == at1[0]), desc + " (repetition_change: predicted index %r)" % (at1[:1],)
    return False, desc


def chain_problems(lv, a, b, kind=None):
    """walk one level chain; returns ([(tag, text)], info): info["repeats"] = EVERY failing index / identity link shows the
    feature of finding C10-repetition-t2-index (link_feature: the node's hash - DeepHash under the run's parameters, not
    Python == - is repeated among the items of the parent list where the code's report_repetition branch reads it);
    info["backed"] = at every failing link the node object still IS (identity) an item of the
    parent container (what C10_io_repetition_backed proves of the model: only the index may be wrong);
    info["t2_param_is_t1_param"] = at every failing t2 link the t2 relationship is missing or carries t1's parameter"""
    bad = []
    info = {"repeats": None, "backed": True, "t2_param_is_t1_param": True, "links": []}
    hasher = []

    def feature(cur, d, side, tag, param):
        if not hasher:
            hasher.append(run_hasher())
        ok, desc = link_feature(hasher[0], cur, d, side, tag, param, kind if d is lv else None)
        info["repeats"] = ok if info["repeats"] is None else (info["repeats"] and ok)
        info["links"].append(desc)
    root = lv.all_up
    if root.t1 is not a or root.t2 is not b:
        bad.append(("root", "walking up does not reach a root holding the original t1 and t2"))
    if root.up is not None:
        bad.append(("root", "root has an up link"))
    if lv.all_down is not lv or lv.down is not None:
        bad.append(("updown", "the reported level is not its own all_down"))
    if root.all_down is not lv or lv.all_up.all_up is not root:
        bad.append(("updown", "all_up / all_down do not end at the ends of one line"))
    x, n = lv, 0
    while x.up is not None and n < 1000:
        if x.up.down is not x:
            bad.append(("updown", "up.down is not self"))
        x, n = x.up, n + 1
    if x is not root:
        bad.append(("updown", "all_up differs from following up"))
    cur = root
    while cur.down is not None:
        d = cur.down
        if d.up is not cur:
            bad.append(("updown", "down.up is not self"))
        r1, r2 = cur.t1_child_rel, cur.t2_child_rel
        if r1 is None and r2 is None:
            bad.append(("rel", "a link without child relationship"))
        for side, rel, other, parent, child in ((1, r1, r2, cur.t1, d.t1), (2, r2, r1, cur.t2, d.t2)):
            if is_np(child):
                if rel is not None:
                    bad.append(("rel", "t%d: child relationship to a not-present child" % side))
                continue
            use = rel or other     # DiffLevel.path() falls back to the other side's relationship
            if rel is not None:
                if rel.parent is not parent:
                    bad.append(("rel", "t%d: relationship parent is not the upper node's object" % side))
                if rel.child is not child:
                    bad.append(("rel", "t%d: relationship child is not the lower node's object" % side))
            if use is None:
                continue
            if isinstance(parent, (list, tuple, dict)):
                members = list(parent.values()) if isinstance(parent, dict) else list(parent)
                failed = None
                try:
                    sub = parent[use.param]
                except Exception:
                    failed = ("t%d-noitem" % side, "t%d: parent has no item %r" % (side, use.param))
                else:
                    if sub is not child:
                        if same(sub, child):
                            failed = ("t%d-eq-not-is" % side, "t%d: node object equals parent[%r] but is another object" % (side, use.param))
                        else:
                            failed = ("t%d-sub" % side, "t%d: node object is not parent[%r]" % (side, use.param))
                if failed:
                    bad.append(failed)
                    feature(cur, d, side, failed[0], use.param)
                    if not any(m is child for m in members):
                        info["backed"] = False
                        bad.append(("unbacked", "t%d: node object is no item of the parent container at all" % side))
                    if failed[0] in ("t2-sub", "t2-noitem") and not (r2 is None or (r1 is not None and r1.param == r2.param)):
                        info["t2_param_is_t1_param"] = False
            elif isinstance(parent, (set, frozenset)):
                if not any(m is child for m in parent):
                    bad.append(("t%d-sub" % side, "t%d: node object is not a member of the parent set" % side))
                    info["backed"] = False
                    info["repeats"] = False        # no list link: not the finding's mechanism
            else:
                bad.append(("rel", "t%d: parent of a link is not a container" % side))
        cur = d
    if cur is not lv:
        bad.append(("updown", "the reported level is not the leaf of its chain"))
    # path(output_format='list') on each side = the parameters of that side's relationships from the root
    # (the other side's where a relationship is missing), read off the links here, not through path()
    for use_t2 in (False, True):
        want, cur = [], root
        while cur is not lv and cur is not None:
            r = (cur.t2_child_rel or cur.t1_child_rel) if use_t2 else (cur.t1_child_rel or cur.t2_child_rel)
            if r is None:
                break
            want.append(r.param)
            cur = cur.down
        got = lv.path(output_format="list", use_t2=use_t2)
        if len(got) != len(want) or any(not (g is w or same(g, w)) for g, w in zip(got, want)):
            bad.append(("path", "path(output_format='list', use_t2=%r) is %r, the links say %r" % (use_t2, got, want)))
    info["repeats"] = info["repeats"] is True
    return bad, info


def dsig(x):
    """order-insensitive, type-tagged canonical form of a delta-view dict (Opcode tuples, sets, types included)"""
    if isinstance(x, dict):
        return ["D", sorted(([type(k).__name__, repr(k), dsig(v)] for k, v in x.items()), key=repr)]
    if isinstance(x, (set, frozenset)):
        return [type(x).__name__, sorted((dsig(y) for y in x), key=repr)]
    if isinstance(x, (list, tuple)):
        return [type(x).__name__, [dsig(y) for y in x]]
    if isinstance(x, type):
        return ["type", x.__name__]
    return [type(x).__name__, repr(x)]


DELTA_CATS = {"values_changed", "type_changes", "dictionary_item_added", "dictionary_item_removed", "iterable_item_added",
              "iterable_item_removed", "iterable_item_moved", "set_item_added", "set_item_removed", "_iterable_opcodes",
              "iterable_items_added_at_indexes", "iterable_items_removed_at_indexes"}


def check_delta(bad, a, b, kw, verbose, dt, dr, tp, cfgv):
    """the delta view (view='_delta', to_dict(view_override='_delta'), _to_delta_dict) carries the changes of the tree"""
    from deepdiff import DeepDiff
    try:
        dv = DeepDiff(a, b, verbose_level=verbose, view="_delta", **kw)
        shapes = {"view='_delta'": dict(dv), "own to_dict()": dv.to_dict(),
                  "tree-view .to_dict(view_override='_delta')": dr.to_dict(view_override="_delta"),
                  "text-view .to_dict(view_override='_delta')": dt.to_dict(view_override="_delta"),
                  "_to_delta_dict(report_repetition_required=False)": dr._to_delta_dict(report_repetition_required=False)}
    except Exception as e:
        bad("delta view raised", repr(e), exception=type(e).__name__, **cfgv)
        return
    ref = dsig(shapes["view='_delta'"])
    for name, d in shapes.items():
        if dsig(d) != ref:
            bad("delta view differs between its access paths", "%s: %r vs view='_delta': %r" % (name, d, shapes["view='_delta'"]), access=name, **cfgv)
            return
    d = shapes["view='_delta'"]
    extra = sorted(set(d) - DELTA_CATS)
    if extra:
        bad("delta view has an unexpected category", repr(extra), **cfgv)
    io = bool(kw.get("ignore_order"))
    by_kind = {}
    for kind, p, x, y, np_, lv in tp:
        by_kind.setdefault(kind, []).append((p, x, y, np_, lv))

    def levels(kind):
        return by_kind.get(kind, [])

    def some(kind, p, pred):
        return any(q == p and pred(x, y, np_, lv) for q, x, y, np_, lv in levels(kind))

    problems = []
    for cat in ("values_changed", "type_changes"):
        if sorted(d.get(cat, {})) != sorted({p for p, *_ in levels(cat)}):
            problems.append("%s paths %r vs tree %r" % (cat, sorted(d.get(cat, {})), sorted({p for p, *_ in levels(cat)})))
            continue
        for p, ch in d.get(cat, {}).items():
            if "old_value" in ch:
                problems.append("%s %s carries old_value in the directed payload" % (cat, p))
            if cat == "values_changed":
                ok = some(cat, p, lambda x, y, np_, lv: same(ch.get("new_value"), y) and ch.get("new_path") == np_)
            else:
                ok = some(cat, p, lambda x, y, np_, lv: ch["old_type"] is type(x) and ch["new_type"] is type(y) and ch.get("new_path") == np_
                          and ("new_value" not in ch or same(ch["new_value"], y)))
            if not ok:
                problems.append("%s %s: %r matches no level of the tree" % (cat, p, ch))
    for cat in ("dictionary_item_added", "dictionary_item_removed"):
        if sorted(d.get(cat, {})) != sorted({p for p, *_ in levels(cat)}):
            problems.append("%s paths %r vs tree %r" % (cat, sorted(d.get(cat, {})), sorted({p for p, *_ in levels(cat)})))
            continue
        for p, v in d.get(cat, {}).items():
            if not some(cat, p, lambda x, y, np_, lv: same(v, y if cat.endswith("added") else x)):
                problems.append("%s %s: %r is not the level's object" % (cat, p, v))
    if not io:
        opc = set(d.get("_iterable_opcodes", {}))
        for cat in ("iterable_item_added", "iterable_item_removed"):
            got = d.get(cat, {})
            for p, v in got.items():
                if not some(cat, p, lambda x, y, np_, lv: same(v, y if cat.endswith("added") else x)):
                    problems.append("%s %s: %r matches no level of the tree" % (cat, p, v))
            for p, x, y, np_, lv in levels(cat):
                if p not in got and lv.up.path(force="fake") not in opc:
                    problems.append("%s %s of the tree is neither in the delta view nor covered by recorded opcodes" % (cat, p))
        if "iterable_items_added_at_indexes" in d or "iterable_items_removed_at_indexes" in d:
            problems.append("index maps in an ordered run")
    else:
        for cat, key in (("iterable_item_added", "iterable_items_added_at_indexes"), ("iterable_item_removed", "iterable_items_removed_at_indexes")):
            want = {}
            for p, x, y, np_, lv in levels(cat):
                parent, param, _full = lv.path(force="fake", get_parent_too=True)
                want.setdefault(parent, {}).setdefault(param, []).append(y if not is_np(y) else x)
            if cat == "iterable_item_added":
                for p, x, y, np_, lv in levels("repetition_change"):
                    parent, _param, _full = lv.path(get_parent_too=True)
                    for i in lv.additional["repetition"]["new_indexes"]:
                        want.setdefault(parent, {}).setdefault(i, []).append(x)
            got = d.get(key, {})
            if sorted(got) != sorted(want) or any(sorted(got[q], key=repr) != sorted(want[q], key=repr) for q in got):
                problems.append("%s index sets %r vs tree %r" % (key, {q: sorted(m, key=repr) for q, m in got.items()}, {q: sorted(m, key=repr) for q, m in want.items()}))
                continue
            for q, m in got.items():
                for i, v in m.items():
                    if not any(same(v, w) for w in want[q][i]):
                        problems.append("%s %s[%r]: %r is not a level's object" % (key, q, i, v))
        if "iterable_item_added" in d or "iterable_item_removed" in d or "_iterable_opcodes" in d:
            problems.append("ordered categories in an ignore_order run")
    for cat in ("set_item_added", "set_item_removed"):
        want = {}
        for p, x, y, np_, lv in levels(cat):
            want.setdefault(lv.up.path(), []).append(y if cat.endswith("added") else x)
        got = d.get(cat, {})
        if sorted(got) != sorted(want) or any(sorted(map(repr, got[q])) != sorted(set(map(repr, want[q]))) for q in got):
            problems.append("%s %r vs tree %r" % (cat, got, want))
    if problems:
        bad("delta view differs from the tree view", "; ".join(problems[:3]), problems=problems[:4], **cfgv)


def check_api_shapes(bad, dt, dr, cfgv, in_table):
    """the other accepted shapes of the presentation arguments give the same presentations"""
    try:
        plain = dt.pretty()
        marked = dt.pretty(prefix=MARK)
        called = dr.pretty(prefix=lambda diff: MARK if diff is dr else "WRONG-DIFF-ARGUMENT")
        if called != marked or plain != marked.replace(MARK, ""):
            bad("pretty(prefix=...) shapes disagree", "%r / %r / %r" % (plain, marked, called), **cfgv)
    except Exception as e:
        bad("pretty raised", repr(e), exception=type(e).__name__, **cfgv)
    if not in_table:
        return
    try:
        ref = dt.to_json()
    except Exception:
        return
    try:
        for name, txt in (("default_mapping={}", dt.to_json(default_mapping={})), ("force_use_builtin_json=True", dr.to_json(force_use_builtin_json=True)),
                          ("indent=2", dt.to_json(indent=2)), ("default_mapping=None", dr.to_json(default_mapping=None))):
            if json_obs(txt) != json_obs(ref):
                bad("to_json argument shapes disagree", "%s: %s vs %s" % (name, txt, ref), shape=name, **cfgv)
                break
    except Exception as e:
        bad("to_json raised", repr(e) + " (with an argument shape that plain to_json() accepts)", exception=type(e).__name__,
            has_non_utf8_bytes=False, **cfgv)


def check_mode(ctx, a, b, mode, kw, cfg):
    """all oracle clauses for one pair under one configuration; a, b are the very
    objects handed to DeepDiff.  Returns {verbose: (dt, dr)}."""
    from deepdiff import DeepDiff
    runs = {}

    def bad(clause, what, **extra):
        case = dict(t1=srepr(a), t2=srepr(b), mode=mode, clause=clause, **{k: v for k, v in cfg.items() if k != "chains"})
        if has_sharing(a, b):
            case["shared_objects"] = True
            case["pickle"] = base64.b64encode(pickle.dumps((a, b))).decode("ascii")
        case.update(extra)
        ctx.fail(case, "%s: %s" % (clause, what))

    for verbose in (0, 1, 2):
        try:
            dt = DeepDiff(a, b, verbose_level=verbose, view="text", **kw)
            dr = DeepDiff(a, b, verbose_level=verbose, view="tree", **kw)
        except Exception as e:
            ctx.count("deepdiff_raised:" + type(e).__name__)
            continue
        runs[verbose] = (dt, dr)
        cfgv = dict(verbose=verbose)
        tp = tree_pairs(dr)
        ctx.seen((repr(a), repr(b), mode, verbose, cfg.get("thr")), nontrivial=bool(tp))
        for kind, _p, _x, _y, _np, _lv in tp:
            ctx.count("levels:" + kind)
            if _np is not None:
                ctx.count("levels_with_new_path:" + mode.split(":")[0])
        # ---- chains (both objects' trees); options such as ignore_string_case replace the compared objects,
        #      so the identity clauses are stated for the plain modes only ----
        for which, tree in ((("tree-view", dr), ("text-view .tree", dt.tree)) if cfg.get("chains", True) else ()):
            for kind, lv in tree_levels(tree):
                pb, info = chain_problems(lv, a, b, kind)
                if pb:
                    guard = rep_guards(a, b) if (kw.get("report_repetition") and set(kw) <= {"ignore_order", "report_repetition"}) else None
                    bad("chain", "%s %s %s: %s" % (which, kind, lv.path(force="fake"), "; ".join(t for _g, t in pb[:3])), report_type=kind,
                        problems=[t for _g, t in pb[:4]], problem_tags=sorted({g for g, _t in pb}), repeats_at_link=info["repeats"],
                        failing_links=info["links"][:4],
                        backed=info["backed"], t2_param_is_t1_param=info["t2_param_is_t1_param"], aligned_and_sibinj=guard, **cfgv)
                    break
        # ---- tree vs text ----
        txt = text_pairs(dt)
        keys_tree = [(k, p) for k, p, *_ in tp]
        if verbose == 2:
            visible = keys_tree
        elif verbose == 1:
            visible = [kp for kp in keys_tree if kp[0] != "iterable_item_moved"]
        else:
            visible = [kp for kp in keys_tree if kp[0] not in ("iterable_item_moved", "values_changed")]
        if sorted(visible) != sorted(txt.keys()):
            lost = sorted(set(visible) - set(txt.keys()))
            extra = sorted(set(txt.keys()) - set(visible))
            dup = len(visible) != len(set(visible))
            bad("tree and text differ in (category, path)", "tree-only %r text-only %r duplicates-in-tree %r" % (lost[:3], extra[:3], dup),
                duplicates_in_tree=dup, tree_only=lost[:3], text_only=extra[:3], **cfgv)
        else:
            for kind, p, x, y, np_, lv in tp:
                if (kind, p) not in txt:
                    continue
                t = txt[(kind, p)]
                ok = True
                if kind == "type_changes":
                    ok = t["old_type"] is type(x) and t["new_type"] is type(y)
                    if verbose >= 1:
                        ok = ok and "old_value" in t and same(t["old_value"], x) and same(t["new_value"], y)
                    else:
                        ok = ok and "old_value" not in t
                    ok = ok and (t.get("new_path") == (np_ if verbose == 2 else None))
                elif kind == "values_changed":
                    ok = same(t["old_value"], x) and same(t["new_value"], y) and (t.get("new_path") == (np_ if verbose == 2 else None))
                    ok = ok and t.get("diff") == lv.additional.get("diff")
                elif kind in ("dictionary_item_added", "dictionary_item_removed"):
                    shown = y if kind.endswith("added") else x
                    ok = (same(t, shown) and isinstance(dt[kind], dict)) if verbose == 2 else (t is None and not isinstance(dt[kind], dict))
                elif kind in ("iterable_item_added", "iterable_item_removed"):
                    ok = same(t, y if kind.endswith("added") else x)
                elif kind == "iterable_item_moved":
                    ok = same(t["value"], y) and t["new_path"] == lv.path(use_t2=True)
                elif kind == "repetition_change":
                    rep = lv.additional["repetition"]
                    ok = same(t["value"], x) and all(t[q] == rep[q] for q in ("old_repeat", "new_repeat", "old_indexes", "new_indexes"))
                if not ok:
                    bad("tree and text differ in the values of an entry", "%s %s: text %r, tree t1=%r t2=%r" % (kind, p, t, x, y), report_type=kind, **cfgv)
                    break
        # ---- to_dict(view_override) ----
        try:
            ov_text, ov_tree = dr.to_dict(view_override="text"), dt.to_dict(view_override="tree")
            own_text, own_tree = dt.to_dict(), dr.to_dict()
            if not (text_pairs_eq(ov_text, dt) and text_pairs_eq(own_text, dt)):
                bad("to_dict(view_override='text') differs from the text view", "%r vs %r" % (ov_text, dict(dt)), **cfgv)
            t_ov, t_own, t_dr = tree_sig(ov_tree), tree_sig(own_tree), tree_sig(dr)
            if not (t_ov == t_dr and t_own == t_dr):
                bad("to_dict(view_override='tree') differs from the tree view", "%r vs %r" % (t_ov, t_dr), **cfgv)
        except Exception as e:
            bad("to_dict raised", repr(e), exception=type(e).__name__, **cfgv)
        # ---- to_json ----
        in_table = not (has_type(a, frozenset) or has_type(b, frozenset))
        if in_table:
            try:
                js_t, js_r = dt.to_json(), dr.to_json()
                pj = json.loads(js_t, object_pairs_hook=Pairs)
                jkeys = []
                for c, payload in pj.pairs:
                    members = payload.keys() if isinstance(payload, Pairs) else payload
                    jkeys += [(c, m) for m in members]
                if sorted(jkeys) != sorted(txt.keys()):
                    bad("to_json categories/paths differ from the text view", "%r vs %r" % (sorted(jkeys)[:4], sorted(txt.keys())[:4]), **cfgv)
                if json_obs(js_t) != json_obs(js_r):
                    bad("to_json of the tree-view object differs from the text-view object's", "%s vs %s" % (js_t, js_r), **cfgv)
            except Exception as e:
                bad("to_json raised", repr(e), exception=type(e).__name__, has_non_utf8_bytes=non_utf8_bytes(a, b), **cfgv)
        else:
            ctx.count("to_json_skipped:frozenset")
        # ---- pretty ----
        try:
            st, sr = pretty_statements(dt), pretty_statements(dr)
            if sorted(st) != sorted(sr):
                bad("pretty() differs between the views", "%r vs %r" % (st, sr), **cfgv)
            if len(sr) != len(tp):
                bad("pretty() statement count differs from the number of changes", "%d statements, %d levels" % (len(sr), len(tp)), **cfgv)
            else:
                # pretty iterates sorted(tree.keys()) and each category in order, as tree_levels does
                for s, (kind, p, x, y, np_, lv) in zip(sr, tp):
                    if s == "":
                        bad("empty pretty statement", "%s %s" % (kind, p), report_type=kind, **cfgv)
                        break
                    named = lv.up.path() if kind.startswith("set_item") else lv.path()
                    if named not in s:
                        bad("pretty statement does not name the path of the change", "%r for %s at %s" % (s, kind, named),
                            report_type=kind, set_path=(lv.up.path() if kind.startswith("set_item") else None), **cfgv)
                        break
        except Exception as e:
            bad("pretty raised", repr(e), exception=type(e).__name__, **cfgv)
        # ---- delta view, other argument shapes ----
        if verbose == 1:          # the delta payload does not depend on verbose_level
            check_delta(bad, a, b, kw, verbose, dt, dr, tp, cfgv)
            check_api_shapes(bad, dt, dr, cfgv, in_table)
    return runs


def interference_mappings():
    """default_mapping arguments an unrelated caller might pass; they name types of the convertor table
    (and frozenset, which is in no row: a later plain to_json() must still raise for it)"""
    import decimal
    from deepdiff.helper import SetOrdered
    return [
        {bytes: lambda x: x.hex(), type: lambda t: t.__module__ + "." + t.__qualname__},
        {set: lambda x: "set:" + repr(sorted(x, key=repr)), decimal.Decimal: str},
        {SetOrdered: lambda x: ["SetOrdered"] + list(x), bytes: lambda x: "bytes"},
        {frozenset: lambda x: sorted(x, key=repr), type: lambda t: "T"},
    ]


def check_history(ctx, a, b, mode, runs, cfg):
    """to_json() of a comparison is a function of the comparison alone: an unrelated
    to_json(default_mapping=...) / json_dumps(default_mapping=...) in between must not change it"""
    from deepdiff import DeepDiff
    from deepdiff.serialization import json_dumps

    def snap(d):
        try:
            return ["ok", d.to_json()]
        except Exception as e:
            return ["raise", type(e).__name__]

    maps = interference_mappings()
    for verbose, (dt, dr) in runs.items():
        if verbose == 0:
            continue
        before = [snap(dt), snap(dr)]
        m = ctx.rng.choice(maps)
        how = ctx.rng.choice(["other-diff", "same-diff", "json_dumps"])
        try:
            if how == "other-diff":
                DeepDiff({"x": b"\x00", "s": {1}, "t": 1, "f": frozenset([1])}, {"x": b"\x01", "s": {2}, "t": "1", "n": 0, "f": frozenset([2])},
                         verbose_level=2).to_json(default_mapping=m)
            elif how == "same-diff":
                dt.to_json(default_mapping=m)
            else:
                json_dumps({"v": [b"ab", {1, 2}, int, frozenset([3])]}, default_mapping=m)
        except Exception:
            pass
        after = [snap(dt), snap(dr)]
        ctx.count("history:" + how)
        if before != after:
            ctx.fail(dict(t1=repr(a), t2=repr(b), mode=mode, clause="to_json depends on an earlier default_mapping call", verbose=verbose,
                          interference=how, mapping_types=sorted(t.__name__ for t in m), before=before[0], after=after[0], **cfg),
                     "to_json() changed after an unrelated %s with default_mapping for %s: %r -> %r" % (
                         how, sorted(t.__name__ for t in m), before[0], after[0]))
            break


def text_pairs_eq(d1, d2):
    p1, p2 = text_pairs(d1), text_pairs(d2)
    if sorted(p1.keys()) != sorted(p2.keys()):
        return False
    if set(d1.keys()) != set(d2.keys()):
        return False
    for k in p1:
        x, y = p1[k], p2[k]
        if isinstance(x, dict) and isinstance(y, dict):
            if set(x) != set(y) or not all(same(x[q], y[q]) if not isinstance(x[q], type) else x[q] is y[q] for q in x):
                return False
        elif not ((x is None and y is None) or same(x, y)):
            return False
    return True


def tree_sig(tree):
    """order-insensitive signature of a tree-view dict: empty categories are not compared"""
    sig = []
    for kind, p, x, y, np_, lv in tree_pairs(tree):
        sig.append(repr((kind, p, np_, None if is_np(x) else V.canon_sorted(x), None if is_np(y) else V.canon_sorted(y),
                         lv.additional.get("diff"), dict(lv.additional.get("repetition", {})))))
    return sorted(sig)


# ---------------------------------------------------------------------------
# correspondence
# ---------------------------------------------------------------------------
HDR3 = ("From DD Require Import Base.PyStr Base.Value Path.PathModel Diff.Tree Diff.DiffModel Diff.TextView Diff.DiffShow "
        "Hash.HashModel DiffIO.DiffIOModel DiffIO.DiffIOShow Delta.DeltaModel Delta.DeltaShow Delta.DeltaIO Delta.DeltaIOShow "
        "Views.ViewsModel Views.ViewsShow Views.ViewsRep Views.ViewsRepInput Views.ViewsDelta Views.ViewsJsonMap Views.ViewsLevel Views.ViewsShow3.")
IO_HDR = HDR3
IO_CFG = "(mkCfg false 33 100 true)"


class NotInUniverse(Exception):
    pass


def hobj_coq(x):
    from deepdiff.helper import SetOrdered
    if isinstance(x, SetOrdered):
        if not all(isinstance(q, str) for q in x):
            raise NotInUniverse(x)
        return "(HOrdered %s)" % core.coq_list(core.coq_pystr(q) for q in x)
    if isinstance(x, frozenset):
        return "(HFrozen %s)" % core.coq_list(V.atom_to_coq(q) for q in x)
    if isinstance(x, set):
        return "(HSet %s)" % core.coq_list(V.atom_to_coq(q) for q in x)
    if isinstance(x, bytes):
        return "(HBytes %s)" % core.coq_pystr(x)
    if isinstance(x, type) and x in DC.TY_COQ:
        return "(HType %s)" % DC.TY_COQ[x]
    raise NotInUniverse(x)


class Mapping:
    """a default_mapping argument whose convertors record the calls they receive, so that the model can be handed each
    convertor as the table of those calls (ViewsShow3.tbl_convf) and isinstance as a table (tbl_iso)"""

    def __init__(self, spec):
        from deepdiff.helper import SetOrdered
        self.spec = spec                        # [(class, function)]
        self.rows = [[] for _ in spec]
        self.bad = False
        self.reps = [set(), frozenset(), b"", int, SetOrdered()]     # hobj_cls 0..4
        self.known = {set: "HKSet", frozenset: "HKFrozen", bytes: "HKBytes", type: "HKType", SetOrdered: "HKOrdered"}

    def arg(self):
        def wrap(i, f):
            def g(x):
                try:
                    hx = hobj_coq(x)
                except (NotInUniverse, TypeError, AssertionError):
                    self.bad = True
                    return f(x)
                try:
                    r = f(x)
                except Exception:
                    self.rows[i].append("(%s, None)" % hx)
                    raise
                try:
                    self.rows[i].append("(%s, Some %s)" % (hx, V.to_coq(r)))
                except (TypeError, AssertionError):
                    self.bad = True
                return r
            return g
        return {cls: wrap(i, f) for i, (cls, f) in enumerate(self.spec)}

    def coq(self):
        """(iso table, option table) after the call"""
        iso, rows, n = [], [], 0
        for i, (cls, _f) in enumerate(self.spec):
            if cls in self.known:
                key = self.known[cls]
            else:
                key = "(HKOther %d)" % n
                iso.append("(%d%%nat, %s)" % (n, core.coq_list("%d%%nat" % j for j, o in enumerate(self.reps) if isinstance(o, cls))))
                n += 1
            rows.append("(%s, tbl_convf %s)" % (key, core.coq_list(self.rows[i])))
        return core.coq_list(iso), "(Some %s)" % core.coq_list(rows)


def mapping_specs(rng):
    import collections.abc
    import decimal
    from deepdiff.helper import SetOrdered
    fam = [
        [(bytes, lambda x: x.hex())],
        [(frozenset, lambda x: sorted(x, key=repr)), (bytes, lambda x: x.hex())],
        [(set, lambda x: "set:" + repr(sorted(x, key=repr)))],
        [(type, lambda t: "T:" + t.__name__), (decimal.Decimal, str)],
        [(SetOrdered, lambda x: ["SetOrdered"] + list(x))],
        [(object, lambda x: "OBJ")],
        [(collections.abc.Set, lambda x: {"n": len(x)}), (bytes, lambda x: [x.hex(), {1}])],
        [(bytes, lambda x: [x[:1], len(x)] if len(x) > 1 else x.hex()), (frozenset, lambda x: set(x))],
        [(frozenset, lambda x: x)],
        [],
    ]
    return rng.choice(fam)


JSON_RAISES = (TypeError, UnicodeDecodeError, RecursionError, ValueError)


def jsonmap_component(rng, d, rep, verbose, es_expr, rs_expr):
    """(coq component, expected) for d.to_json(default_mapping=M), M drawn from mapping_specs; None when a recorded
    call leaves the universe"""
    m = Mapping(mapping_specs(rng))
    try:
        exp = json_obs(d.to_json(default_mapping=m.arg()))
    except JSON_RAISES:
        exp = "raise"
    except NotInUniverse:
        return None
    if m.bad:
        return None
    iso, dm = m.coq()
    return ("sx_c10_jsonmap %s %s %s %d %s %s" % (iso, dm, "true" if rep else "false", verbose, es_expr, rs_expr), exp)


def delta_keys_ok(*vals):
    """the delta observer (deltacommon.delta_obs) PARSES the path strings of the payload: keep to keys whose printed
    path parses back (C09's guard path_ok: no str key holding both quote characters - finding K5 of C09)"""
    for v in vals:
        for x in walk_values(v):
            if isinstance(x, dict):
                for k in x:
                    if isinstance(k, str) and "'" in k and '"' in k:
                        return False
    return True


def delta_view_of(a, b, kw):
    from deepdiff import DeepDiff
    return dict(DeepDiff(a, b, view="_delta", **kw))


def level_component(lv):
    """(coq component, expected) for one real DiffLevel line: path() in both forms on both sides, called on EVERY
    DiffLevel object of the line, and where the loops all_up / all_down end"""
    chain, x = [], lv.all_up
    while x is not None and len(chain) < 50:
        chain.append(x)
        x = x.down
    k = [i for i, x in enumerate(chain) if x is lv][0]

    def rel_coq(r):
        if r is None:
            return "None"
        name = type(r).__name__
        if name == "DictRelationship":
            return "(Some (RItem CDict (PKey %s)))" % V.atom_to_coq(r.param)
        if name == "SubscriptableIterableRelationship" and isinstance(r.param, int) and r.param >= 0:
            return "(Some (RItem CSub (PIdx %d)))" % r.param
        if name == "SetRelationship" and r.param is None:
            return "(Some RMember)"
        raise NotInUniverse(name)

    def obj(o):
        return "None" if is_np(o) else "(Some %s)" % V.to_coq(o)
    nodes = ["(mkNode %s %s %s %s)" % (obj(x.t1), obj(x.t2), rel_coq(x.t1_child_rel), rel_coq(x.t2_child_rel)) for x in chain]
    expr = "sx_line (mkLevel %s %s %s)" % (core.coq_list(reversed(nodes[:k])), nodes[k], core.coq_list(nodes[k + 1:]))

    def plist(x, use_t2):
        raw = x.path(output_format="list", use_t2=use_t2)
        out, cur, i = [], chain[0], 0
        while cur is not x and i < len(raw):
            r = ((cur.t2_child_rel or cur.t1_child_rel) if use_t2 else (cur.t1_child_rel or cur.t2_child_rel))
            if r is None:
                out.append("EXTRA-ITEM")
                break
            if raw[i] is not r.param and raw[i] != r.param:
                out.append("NOT-THE-PARAM")
            elif type(r).__name__ == "DictRelationship":
                out.append(["k", V.canon_atom(raw[i])])
            elif type(r).__name__ == "SubscriptableIterableRelationship":
                out.append(["x", raw[i]])
            else:
                out.append(None)
            cur, i = cur.down, i + 1
        if i < len(raw):
            out.append("EXTRA-ITEM")
        return out

    def opt(p):
        return None if p is None else ["Some", p]
    exp = [[[plist(x, False), plist(x, True), opt(x.path()), opt(x.path(use_t2=True))] for x in chain],
           k, chain[0].up is None, chain[-1].down is None, len(chain) - 1]
    return (expr, exp)


def pick_levels(rng, dr, n=2):
    lvs = [lv for _k, lv in tree_levels(dr)]
    rng.shuffle(lvs)
    return lvs[:n]


def assemble(run, parts, tag):
    """one Coq case sharing the run between its components"""
    return ("(let r := %s in SL %s)" % (run, core.coq_list(c for c, _e in parts)), [e for _c, e in parts], tag)


def c10_case(rng, a, b, thr, verbose, dt, dr):
    """one Coq case: all presentations of an ordered-mode run (+ at verbose 1 the delta view and one DiffLevel line,
    at verbose 2 to_json(default_mapping=M))"""
    try:
        js = json_obs(dt.to_json())
    except (TypeError, UnicodeDecodeError):
        js = "raise"
    exp = [core.sx_sorted(pretty_statements(dt)),
           js,
           ["text", D.text_obs(dr.to_dict(view_override="text"))],
           ["tree", D.tree_obs(dt.to_dict(view_override="tree"))]]
    ops = D.coq_ops_table(D.opcode_table(a, b))
    run = "(run_diff hatom_simple (tbl_udiff %s) (tbl_ops %s) no_paths no_paths %s %s %s)" % (
        D.coq_udiff_table(D.udiff_table(a, b)), ops, D.coq_cfg(False, thr, True), V.to_coq(a), V.to_coq(b))
    parts = [("sx_c10 %d r" % verbose, exp)]
    if verbose == 1:
        if delta_keys_ok(a, b):
            cv = DC.conv_table(DC.type_change_pairs(dr))
            dv = delta_view_of(a, b, {"threshold_to_diff_deeper": thr})
            parts.append(("sx_c10_delta %s %s %s %s r" % (cv, ops, V.to_coq(a), V.to_coq(b)), ["delta", DC.delta_obs(dv)]))
        for lv in pick_levels(rng, dr, 1):
            try:
                parts.append(level_component(lv))
            except NotInUniverse:
                pass
    if verbose == 2 and rng.random() < 0.75:
        c = jsonmap_component(rng, dt, False, verbose, "(fst r)", "[]")
        if c:
            parts.append(c)
    return assemble(run, parts, {"t1": repr(a), "t2": repr(b), "thr": thr, "verbose": verbose})


def io_case(rng, a, b, verbose, dt, dr):
    """one Coq case: all presentations of an ignore_order run (report_repetition=False), the
    model being fed the pairings the implementation used (recorded as in C05)"""
    from deepdiff import DeepDiff
    from harness.props import c05
    with c05.Recording() as rec:
        d2 = DeepDiff(a, b, ignore_order=True, view="tree", verbose_level=verbose)
        tbl = c05.pairs_table(rec)
        if not all(c05.pairs_valid(x) for x in rec):
            return None
    if D.tree_obs(d2) != D.tree_obs(dr):
        return None
    try:
        js = json_obs(dt.to_json())
    except (TypeError, UnicodeDecodeError):
        js = "raise"
    exp = [core.sx_sorted(pretty_statements(dt)), js,
           ["text", D.text_obs(dr.to_dict(view_override="text"))],
           ["tree", D.tree_obs(dt.to_dict(view_override="tree"))]]
    run = "(run_diff_io hexhash (tbl_udiff %s) no_paths no_paths %s false (tbl_pairs %s) %s %s)" % (
        D.coq_udiff_table(D.udiff_table(a, b)), D.coq_cfg(False, 0.33), c05.coq_pairs_table(tbl), V.to_coq(a), V.to_coq(b))
    parts = [("sx_c10_es %d (fst r)" % verbose, exp)]
    if verbose == 1:
        if delta_keys_ok(a, b):
            cv = DC.conv_table(DC.type_change_pairs(dr))
            dv = delta_view_of(a, b, {"ignore_order": True})
            parts.append(("sx_c10_delta_io %s false %s %s r" % (cv, V.to_coq(a), V.to_coq(b)), ["delta_io", DC.delta_io_obs(dv)]))
        for lv in pick_levels(rng, dr, 1):
            try:
                parts.append(level_component(lv))
            except NotInUniverse:
                pass
    if verbose == 2 and rng.random() < 0.75:
        c = jsonmap_component(rng, dr, False, verbose, "(fst r)", "[]")
        if c:
            parts.append(c)
    return assemble(run, parts, {"t1": repr(a), "t2": repr(b), "mode": "ignore_order", "verbose": verbose})


def text_rep_obs(res):
    """text-view dict -> (D.text_obs of everything but repetition_change, sorted repetition records)"""
    rest = {k: v for k, v in res.items() if k != "repetition_change"}
    reps = []
    for p, r in (res.get("repetition_change") or {}).items():
        if r["old_repeat"] != len(r["old_indexes"]) or r["new_repeat"] != len(r["new_indexes"]) or set(r) != {"old_repeat", "new_repeat", "old_indexes", "new_indexes", "value"}:
            reps.append(["MALFORMED", p])
        else:
            reps.append([p, list(r["old_indexes"]), list(r["new_indexes"]), V.canon(r["value"])])
    return ["text", D.text_obs(rest), core.sx_sorted(reps)]


def rep_case(rng, a, b, verbose, dt, dr):
    """one Coq case: all presentations of an ignore_order + report_repetition run, incl. the
    repetition_change category of the text view / to_json (model: run_diff_io with rep = true); at verbose 1 also the
    delta view, a DiffLevel line and the guards aligned / sibinj of C10_io_repetition_chains_aligned"""
    from deepdiff import DeepDiff
    from harness.props import c05
    with c05.Recording() as rec:
        d2 = DeepDiff(a, b, ignore_order=True, report_repetition=True, view="tree", verbose_level=verbose)
        tbl = c05.pairs_table(rec)
        if not all(c05.pairs_valid(x) for x in rec):
            return None
    if c05.io_obs(d2) != c05.io_obs(dr):
        return None
    try:
        js = json_obs(dt.to_json())
    except (TypeError, UnicodeDecodeError):
        js = "raise"
    exp = [core.sx_sorted(pretty_statements(dt)), js,
           text_rep_obs(dr.to_dict(view_override="text")),
           ["tree", D.tree_obs(dt.to_dict(view_override="tree"))]]
    run = "(run_diff_io hexhash (tbl_udiff %s) no_paths no_paths %s true (tbl_pairs %s) %s %s)" % (
        D.coq_udiff_table(D.udiff_table(a, b)), D.coq_cfg(False, 0.33), c05.coq_pairs_table(tbl), V.to_coq(a), V.to_coq(b))
    rs = "(map (fun x => (rpath x, rold x, rnew x)) (snd r))"
    parts = [("sx_c10_rep %d (fst r) %s" % (verbose, rs), exp)]
    if verbose == 1:
        if delta_keys_ok(a, b):
            cv = DC.conv_table(DC.type_change_pairs(dr))
            dv = delta_view_of(a, b, {"ignore_order": True, "report_repetition": True})
            parts.append(("sx_c10_delta_io %s true %s %s r" % (cv, V.to_coq(a), V.to_coq(b)), ["delta_io", DC.delta_io_obs(dv)]))
        h = item_hasher(a, b)
        sj = bool(sibinj_py(a, h))
        parts.append(("SL [sx_bool (aligned hexhash %s %s %s); sx_bool (sibinj hexhash %s %s)]" % (IO_CFG, V.to_coq(a), V.to_coq(b), IO_CFG, V.to_coq(a)),
                      [bool(aligned_py(a, b, h)), sj]))
        if not D.tag_unsafe(a):
            # C10_sibinj_is_input_condition: the hasher-free input-level guard has the same value
            parts.append(("sx_bool (sibinj_in (io_opts %s true) %s)" % (IO_CFG, V.to_coq(a)), sj))
        rep_case.last = (tbl, h)
        for lv in pick_levels(rng, dr, 1):
            try:
                parts.append(level_component(lv))
            except NotInUniverse:
                pass
    if verbose == 2 and rng.random() < 0.75:
        c = jsonmap_component(rng, dt, True, verbose, "(fst r)", rs)
        if c:
            parts.append(c)
    return assemble(run, parts, {"t1": repr(a), "t2": repr(b), "mode": "ignore_order+repetition", "verbose": verbose})


def flat_exact_check(ctx, a, b, dr, tbl, h):
    """C10_io_repetition_flat_t2_exact observed: for a list of scalars against a list of scalars under report_repetition,
    every level is right on the t2 side (t2's item at the index of the t2-side relationship carries the hash of the
    level's t2 object) IF AND ONLY IF the guard holds for the pairs the run used and the common hashes"""
    scal = lambda v: isinstance(v, list) and all(not isinstance(x, (list, tuple, dict, set, frozenset)) for x in v)
    if not (scal(a) and scal(b)):
        return
    hx, hy = [h(x) for x in a], [h(y) for y in b]
    ji = [q for p, q, _x, _y in tbl if p == []]
    ji = ji[0] if ji else []
    guard = True
    for j, i in ji:
        av, rv = hy[j], hx[i]
        js = [k for k, q in enumerate(hy) if q == av]
        if len(js) != 1 and not all(k < len(hy) and hy[k] == av for k, q in enumerate(hx) if q == rv):
            guard = False
    for q in set(hx) & set(hy):
        if hx.count(q) != hy.count(q):
            i0 = hx.index(q)
            if not (i0 < len(hy) and hy[i0] == q):
                guard = False
    right = True
    for _kind, lv in tree_levels(dr):
        if is_np(lv.t2) or lv.up is None:
            continue
        rel = lv.up.t2_child_rel or lv.up.t1_child_rel
        if rel is None or not isinstance(rel.param, int) or not (0 <= rel.param < len(b)) or h(b[rel.param]) != h(lv.t2):
            right = False
    ctx.count("flat_t2_exact:guard=%s" % guard)
    if guard != right:
        ctx.fail(dict(t1=repr(a), t2=repr(b), mode="ignore_order+repetition", clause="flat t2-side condition is not exact",
                      guard=guard, all_levels_right=right, pairs=[list(q) for q in ji]),
                 "report_repetition, lists of scalars: guard of C10_io_repetition_flat_t2_exact is %r but 'every level right on the t2 side' is %r" % (guard, right))


def flat_probe(ctx, a, b):
    """one report_repetition run on lists of scalars with the pairings recorded, handed to flat_exact_check"""
    from deepdiff import DeepDiff
    from harness.props import c05
    a, b = copy.deepcopy(a), copy.deepcopy(b)
    try:
        with c05.Recording() as rec:
            dr = DeepDiff(a, b, ignore_order=True, report_repetition=True, view="tree")
            tbl = c05.pairs_table(rec)
            if not all(c05.pairs_valid(x) for x in rec):
                return
    except Exception:
        return
    flat_exact_check(ctx, a, b, dr, tbl, item_hasher(a, b))


def value_case(v):
    try:
        js = jcanon(json.loads(_dumps(v), object_pairs_hook=Pairs))
    except (TypeError, UnicodeDecodeError):
        js = "raise"
    return ("sx_strs %s" % V.to_coq(v), [str(v), repr(v), js], {"value": repr(v)})


def dumps_case(rng, v):
    """json_dumps(v, default_mapping=M) against ViewsJsonMap.walk with the recorded table"""
    from deepdiff.serialization import json_dumps
    m = Mapping(mapping_specs(rng))
    try:
        js = jcanon(json.loads(json_dumps(v, default_mapping=m.arg()), object_pairs_hook=Pairs))
    except JSON_RAISES:
        js = "raise"
    if m.bad:
        return None
    iso, dm = m.coq()
    return ("sx_c10_dumps %s %s %s" % (iso, dm, V.to_coq(v)), js, {"value": repr(v), "mapping": [c.__name__ for c, _f in m.spec]})


def _dumps(v):
    from deepdiff.serialization import json_dumps
    return json_dumps(v)


# ---------------------------------------------------------------------------
# generators
# ---------------------------------------------------------------------------
def gen_atom(rng):
    r = rng.random()
    if r < 0.12:
        return rng.choice(BYTES)
    if r < 0.3:
        return rng.choice(STRS)
    return V.gen_atom(rng, strings=STRS)


def keygen(rng):
    while True:
        k = gen_atom(rng)
        if not isinstance(k, bytes):
            return k


def gen_val(rng, depth=3, width=4, kinds="LTDSFA"):
    if depth <= 0 or rng.random() < 0.25:
        return gen_atom(rng)
    k = rng.choice(kinds)
    n = rng.randint(0, width)
    if k == "L":
        return [gen_val(rng, depth - 1, width, kinds) for _ in range(n)]
    if k == "T":
        return tuple(gen_val(rng, depth - 1, width, kinds) for _ in range(n))
    if k in "DSF":
        keys = []
        for _ in range(n * 3):
            q = gen_atom(rng) if k != "D" else keygen(rng)
            if len(keys) < n and all(not (q == z) for z in keys):
                keys.append(q)
        if k == "D":
            return {q: gen_val(rng, depth - 1, width, kinds) for q in keys}
        return set(keys) if k == "S" else frozenset(keys)
    return gen_atom(rng)


def gen_pairs(ctx, n):
    rng = ctx.rng
    out = []
    for _ in range(n):
        r = rng.random()
        if r < 0.3:
            t1 = gen_val(rng, 3, 4, kinds="LTDSA" if rng.random() < 0.8 else "LTDSFA")
            vals, kinds = V.edit_script(rng, t1, rng.randint(1, 3), strings=STRS)
            t2 = vals[-1]
            ctx.count("gen:edit_script")
        elif r < 0.45:
            t1 = gen_val(rng, 3, 4, kinds="DDDLTA")
            if not isinstance(t1, dict):
                t1 = {"k": t1, 1: gen_val(rng, 2, 3, kinds="DLA"), None: gen_atom(rng)}
            vals, kinds = V.edit_script(rng, t1, rng.randint(1, 4), strings=STRS,
                                        kinds=["dict_add", "dict_add", "dict_del", "dict_del", "dict_rekey", "replace_atom", "replace_sub", "type_change"])
            t2 = vals[-1]
            ctx.count("gen:dict_edit_script")
        elif r < 0.7:
            x, y, _k = V.gen_atom_list_pair(rng, maxlen=8)
            t1, t2 = V.plant(rng, rng.choice([0, 0, 1, 2]), (x, y))
            ctx.count("gen:atom_list_edit")
        elif r < 0.76:
            t1, t2 = gen_val(rng, 3, 3), gen_val(rng, 3, 3)
            ctx.count("gen:independent")
        elif r < 0.8:
            # rows shifted by an insertion / deletion in front, one row edited, sometimes shuffled: with ignore_order the
            # paired rows sit at different indexes (new_path in the text and delta views)
            x, y = V.gen_row_list_pair(rng)
            if rng.random() < 0.5:
                y = list(y)
                rng.shuffle(y)
            if rng.random() < 0.5:
                x, y = [list(q) for q in x], [list(q) for q in y]
            t1, t2 = V.plant(rng, rng.choice([0, 0, 1]), (x, y))
            ctx.count("gen:shifted_rows")
        elif r < 0.86:
            t1, t2 = gen_multi_sets(rng)
            ctx.count("gen:multi_sets")
        elif r < 0.92:
            t1, t2 = gen_shared_sets(rng)
            ctx.count("gen:shared_set_object")
        else:
            s1 = gen_val(rng, 1, 4, kinds="S")
            s2 = gen_val(rng, 1, 4, kinds="S")
            if not isinstance(s1, set) or not isinstance(s2, set):
                s1, s2 = {1, 2, "a"}, {2, 3, "b"}
            t1, t2 = V.plant(rng, rng.choice([0, 1, 2]), (s1, s2))
            ctx.count("gen:sets")
        # one container object (list / dict) at two places of t1 (and sometimes of t2), the rest fresh
        if rng.random() < 0.12:
            t1, ok1 = V.share(rng, t1)
            ok2 = False
            if rng.random() < 0.4:
                t2, ok2 = V.share(rng, t2)
            if not (ok1 or ok2) and isinstance(t1, (list, dict, tuple)):
                # no two containers of one type inside: the whole of t1 at two places of a fresh root
                t2b = copy.deepcopy(t2)
                if rng.random() < 0.5:
                    t1, t2 = {"p": t1, "q": t1}, {"p": t2, "q": t2b}
                else:
                    t1, t2 = [t1, 0, t1], [t2, 0, t2b]
                ok1 = True
            if ok1 or ok2:
                ctx.count("gen:+shared_container")
        out.append((t1, t2))
    return out


def gen_multi_sets(rng):
    """2-4 sets at different paths (dict values, list items, nested), each gaining / losing members"""
    n = rng.randint(2, 4)
    pool = [1, 2, 3, 4, 5, "a", "b", "x y", "it's", None, 2.5, True, b"ab"]
    olds, news = [], []
    for _ in range(n):
        base = set(rng.sample(pool, rng.randint(0, 4)))
        new = set(base)
        for _e in range(rng.randint(1, 3)):
            m = rng.choice(pool)
            if m in new and rng.random() < 0.5:
                new.discard(m)
            elif not any(m == q for q in new):
                new.add(m)
        if rng.random() < 0.2:
            base, new = frozenset(base), frozenset(new)
        olds.append(base)
        news.append(new)
    shape = rng.choice(["dict", "dict", "list", "nested", "mixed"])
    keys = rng.sample(["a", "b", "c", 1, 2.5, None, "k k"], n)
    if shape == "dict":
        return dict(zip(keys, olds)), dict(zip(keys, news))
    if shape == "list":
        return [0] + olds, [0] + news
    if shape == "nested":
        return ({"p": {keys[0]: olds[0]}, "q": [olds[1]], "r": tuple(olds[2:])},
                {"p": {keys[0]: news[0]}, "q": [news[1]], "r": tuple(news[2:])})
    return ({keys[0]: olds[0], "l": [1, olds[1:]]}, {keys[0]: news[0], "l": [1, news[1:]]})


def gen_shared_sets(rng):
    """ONE set / frozenset OBJECT referenced at 2-3 places of t1 (records sharing a default set) whose counterparts in
    t2 each gain and / or lose members; with probability 0.3 two places of t2 share one object as well
    (after the independently seeded change C10-a: a per-object memo of the set's path in the text conversion)"""
    pool = [1, 2, 3, 4, 5, "a", "b", "x y", "it's", None, 2.5, b"ab"]
    base = set(rng.sample(pool, rng.randint(1, 4)))
    n = rng.randint(2, 3)
    direction = rng.choice(["gain", "lose", "mixed", "mixed"])
    news = []
    for _ in range(n):
        new = set(base)
        for _e in range(rng.randint(1, 2)):
            m = rng.choice(pool)
            lose = direction == "lose" or (direction == "mixed" and rng.random() < 0.5)
            if lose and new:
                new.discard(rng.choice(sorted(new, key=repr)))
            elif not any(m == q for q in new):
                new.add(m)
        if new == base:
            new = set(base) | {9}
        news.append(new)
    if rng.random() < 0.3:
        news[1] = news[0]
    if rng.random() < 0.25:
        base = frozenset(base)
        memo = {}
        news = [memo.setdefault(id(x), frozenset(x)) for x in news]
    olds = [base] * n
    shape = rng.choice(["dict", "dict", "list", "records", "nested"])
    keys = rng.sample(["a", "b", "c", 1, 2.5, None, "k k"], n)
    if shape == "dict":
        return dict(zip(keys, olds)), dict(zip(keys, news))
    if shape == "list":
        return [0] + olds, [0] + news
    if shape == "records":
        return ([{"id": i, "tags": o} for i, o in enumerate(olds)], [{"id": i, "tags": x} for i, x in enumerate(news)])
    return ({"p": {keys[0]: olds[0]}, "q": [olds[1]], "r": tuple(olds[2:])},
            {"p": {keys[0]: news[0]}, "q": [news[1]], "r": tuple(news[2:])})


def shared_fixed_pairs():
    """fixed pairs with one set object at two places of t1"""
    s, f = {1, 2}, frozenset(["x"])
    return [({"a": s, "b": s}, {"a": {1, 2, 3}, "b": {1, 2, 4}}),
            ([s, s, s], [{1}, {2}, {1, 2, 5}]),
            ({"u": {"tags": f}, "v": {"tags": f}}, {"u": {"tags": frozenset(["x", "y"])}, "v": {"tags": frozenset(["x", "z"])}})]


FIXED_PAIRS = [
    ({'a': {1, 2}, 'b': {1, 2}, 'c': [{'x'}, {'x', 'y'}]}, {'a': {1, 2, 3}, 'b': {1, 2, 3}, 'c': [{'x', 'z'}, {'x'}]}),
    ({'a': {1, 2}, 'b': {3, 4}}, {'a': {2}, 'b': {4}}),
    ([{1}, {2}, {3}], [{1, 9}, {2, 9}, {3, 8}]),
    ({'a': [1, 2], 'b': [1, 2]}, {'a': [1, 2, 3], 'b': [1, 2, 3]}),
    ({'a': {'x': 1}, 'b': {'x': 1}}, {'a': {'x': 2, 'y': 0}, 'b': {'x': 3, 'y': 0}}),
]


MODES = (("ordered", {}), ("ignore_order", {"ignore_order": True}),
         ("ignore_order+repetition", {"ignore_order": True, "report_repetition": True}))

# pairs of options at once (direct oracle only): the presentations must agree whatever tree the options produce
OPTION_COMBOS = [
    {"ignore_numeric_type_changes": True, "ignore_string_type_changes": True},
    {"ignore_order": True, "report_repetition": True, "ignore_numeric_type_changes": True},
    {"ignore_order": True, "significant_digits": 0, "ignore_string_case": True},
    {"exclude_types": [bytes], "ignore_type_in_groups": [(int, float)]},
    {"zip_ordered_iterables": True, "threshold_to_diff_deeper": 0},
    {"ignore_order": True, "cutoff_distance_for_pairs": 0.6, "cutoff_intersection_for_pairs": 0.3},
    {"ignore_order": True, "max_passes": 1, "ignore_private_variables": False},
    {"ignore_order": True, "exclude_regex_paths": [r"\[1\]$"]},
    {"ignore_nan_inequality": True, "math_epsilon": 0.6, "threshold_to_diff_deeper": 0.9},
    {"ignore_order": True, "report_repetition": True, "cache_size": 50, "cache_tuning_sample_size": 10},
    {"exclude_paths": ["root[0]", "root['a']"], "ignore_string_case": True},
]


def one_pair(ctx, t1, t2, cases, corr=True, iocases=None, repcases=None):
    a, b = copy.deepcopy(t1), copy.deepcopy(t2)
    sa, sb = D.snapshot(a), D.snapshot(b)
    thr = ctx.rng.choice([0.33, 0.33, 0])
    for mode, kw in MODES:
        kw = dict(kw)
        cfg = {}
        if mode == "ordered":
            kw["threshold_to_diff_deeper"] = thr
            cfg["thr"] = thr
        runs = check_mode(ctx, a, b, mode, kw, cfg)
        check_history(ctx, a, b, mode, runs, cfg)     # before the correspondence cases: they must agree with the model afterwards too
        if mode == "ordered" and ctx.rng.random() < 0.4:
            okw = dict(ctx.rng.choice(OPTION_COMBOS))
            oname = ("ignore_order+repetition+options" if okw.get("report_repetition") else "options") + ":" + ",".join(sorted(okw))
            check_mode(ctx, a, b, oname, okw, {"chains": False})
            ctx.count("option_combo_runs")
        if mode == "ordered" and corr:
            if D.in_model_guard(a, b) and repr_in_model(a, b):
                for verbose, (dt, dr) in runs.items():
                    try:
                        cases.append(c10_case(ctx.rng, a, b, thr, verbose, dt, dr))
                    except Exception as e:
                        ctx.break_("correspondence", {"name": "c10", "case": {"t1": repr(a), "t2": repr(b), "thr": thr, "verbose": verbose},
                                                      "error": "could not observe the presentations: " + repr(e)})
            else:
                ctx.count("outside_model_guard")
        if mode == "ignore_order" and corr and iocases is not None and D.in_model_guard(a, b) and repr_in_model(a, b) and not non_utf8_bytes(a, b):
            for verbose, (dt, dr) in runs.items():
                try:
                    c = io_case(ctx.rng, a, b, verbose, dt, dr)
                except Exception as e:
                    ctx.break_("correspondence", {"name": "c10io", "case": {"t1": repr(a), "t2": repr(b), "verbose": verbose},
                                                  "error": "could not observe the presentations: " + repr(e)})
                    continue
                if c is None:
                    ctx.count("io_case_skipped")
                else:
                    iocases.append(c)
        if mode == "ignore_order+repetition" and corr and repcases is not None and D.in_model_guard(a, b) and repr_in_model(a, b) and not non_utf8_bytes(a, b):
            for verbose, (dt, dr) in runs.items():
                try:
                    c = rep_case(ctx.rng, a, b, verbose, dt, dr)
                except Exception as e:
                    ctx.break_("correspondence", {"name": "c10rep", "case": {"t1": repr(a), "t2": repr(b), "verbose": verbose},
                                                  "error": "could not observe the presentations: " + repr(e)})
                    continue
                if c is None:
                    ctx.count("rep_case_skipped")
                else:
                    repcases.append(c)
                    if verbose == 1 and getattr(rep_case, "last", None):
                        flat_exact_check(ctx, a, b, dr, *rep_case.last)
                        rep_case.last = None
                    if "repetition_change" in dr:
                        ctx.count("rep_cases_with_repetition_change")
    if D.snapshot(a) != sa or D.snapshot(b) != sb:
        ctx.fail(dict(t1=repr(t1), t2=repr(t2), clause="inputs modified"), "a presentation modified an input")


# ---------------------------------------------------------------------------
# source tie "textresult": differencing of the generated conversion against the hand model
# ---------------------------------------------------------------------------
TIE_SYN = """
Definition syn_k (s : String.string) : pkey := PKey (AStr (s2p s)).
Definition syn_es : list entry := [
  mkEntry KType [syn_k "a"] [syn_k "b"] (Some (VAtom (AInt 1))) (Some (VAtom (AStr (s2p "x")))) None;
  mkEntry KType [PIdx 5] [PIdx 5] (Some (VList [])) (Some (VTuple [])) None;
  mkEntry KValue [PIdx 0] [PIdx 1] (Some (VAtom (AStr (s2p "x")))) (Some (VAtom (AStr (s2p "y")))) (Some (s2p "dd"));
  mkEntry KValue [PIdx 2] [PIdx 2] (Some (VAtom (AInt 1))) (Some (VAtom (AInt 2))) None;
  mkEntry KDictAdd [syn_k "n"] [syn_k "n"] None (Some (VAtom (AInt 7))) None;
  mkEntry KDictRem [syn_k "o"] [syn_k "o"] (Some (VAtom (AStr (s2p "gone")))) None None;
  mkEntry KIterAdd [PIdx 3] [PIdx 3] None (Some (VAtom (AStr (s2p "new")))) None;
  mkEntry KIterRem [PIdx 4] [PIdx 4] (Some (VAtom (ABytes (s2p "old")))) None None;
  mkEntry KIterMoved [PIdx 0] [PIdx 3] (Some (VAtom (AInt 9))) (Some (VAtom (AInt 9))) None;
  mkEntry KSetAdd [syn_k "s"] [syn_k "s"] None (Some (VAtom (AStr (s2p "m")))) None;
  mkEntry KSetAdd [syn_k "s"] [syn_k "s"] None (Some (VAtom (AInt 3))) None;
  mkEntry KSetAdd [] [] None (Some (VAtom (ABytes (s2p "b")))) None;
  mkEntry KSetRem [syn_k "s"] [syn_k "s"] (Some (VAtom (AStr (s2p "it's")))) None None;
  mkEntry KSetRem [PIdx 1; syn_k "t"] [PIdx 1; syn_k "t"] (Some (VAtom ANone)) None None;
  mkEntry KRepetition [PIdx 0] [PIdx 0] (Some (VAtom (AInt 4))) (Some (VAtom (AInt 4))) None;
  mkEntry KValue [] [] (Some (VAtom (AInt 1))) (Some (VAtom (AInt 2))) None ].
Definition syn_rs : list repinfo3 := [([PIdx 0], [0; 1], [1])].
"""
# pairs whose runs (in the three MODES of one_pair) show report types the ordered stream alone does not reach
TIE_PROBES = [([4, 4, 1], [1, 4, 2]), ([1, 1, 2, 3], [1, 2, 2, 4]), ({"a": {1, 2}, "b": "x\ny\n"}, {"a": {1, 3}, "b": "x\nz\n"}),
              ({"a": 1, "o": "gone"}, {"a": "x", "n": 7}), ([1, 2, "old"], [1, 3, "old", "new"]), (1, 2), ({1, "it's"}, {1, b"b"})]


def tie_diff_file(ctx, pairs):
    """Coq text that evaluates, for every pair and verbose level, the generated conversion (DDGen.ViewsGen, regenerated from
    the current source) and the hand model on the tree of the ordered-mode model run, and prints which differ"""
    out = ["From Coq Require Import List String ZArith NArith Bool.", "Import ListNotations.", HDR3,
           "From DD Require Import Views.ViewsSrc.", "From DDGen Require Import ViewsGen.", "Local Open Scope string_scope.", TIE_SYN,
           "Ltac cmp tag a b := let x := eval vm_compute in a in let y := eval vm_compute in b in",
           "  first [constr_eq x y | idtac \"TIEDIFF\" tag].",
           "Ltac cmp_all i es rs :=",
           "  cmp (i, 0%nat, \"text\") (s_out (g___init__ (mkGTree es rs) 0)) (text_result_raw 0 (mkGTree es rs));",
           "  cmp (i, 1%nat, \"text\") (s_out (g___init__ (mkGTree es rs) 1)) (text_result_raw 1 (mkGTree es rs));",
           "  cmp (i, 2%nat, \"text\") (s_out (g___init__ (mkGTree es rs) 2)) (text_result_raw 2 (mkGTree es rs));",
           "  cmp (i, 3%nat, \"text\") (s_out (g___init__ (mkGTree es rs) 3)) (text_result_raw 3 (mkGTree es rs));",
           "  cmp (i, 1%nat, \"pretty\") (map (fun e => g_pretty_print_diff 1 (e, None)) es) (map OStr (pretty 1 es));",
           "  cmp (i, 2%nat, \"pretty\") (map (fun e => g_pretty_print_diff 2 (e, None)) es) (map OStr (pretty 2 es)).",
           "Goal True. cmp_all 0%nat syn_es syn_rs. exact I. Qed."]
    for i, (a, b, thr) in enumerate(pairs, 1):
        run = "(run_diff hatom_simple (tbl_udiff %s) (tbl_ops %s) no_paths no_paths %s %s %s)" % (
            D.coq_udiff_table(D.udiff_table(a, b)), D.coq_ops_table(D.opcode_table(a, b)), D.coq_cfg(False, thr, True), V.to_coq(a), V.to_coq(b))
        out.append("Definition es_%d : list entry := Eval vm_compute in fst %s." % (i, run))
        out.append("Goal True. cmp_all %d%%nat es_%d (@nil repinfo3). exact I. Qed." % (i, i))
    return "\n".join(out) + "\n"


def on_source_tie_break(ctx, name, rec):
    """core.source_tie_step calls this when the tie `textresult` is not intact.  When the regenerated model compiled, it is
    evaluated inside Coq against the hand model on a synthetic entry list with every report type and on the trees of generated
    pairs x verbose_level 0..3 (conversion) / 1, 2 (pretty statements); the pairs on which they differ - and, whenever anything
    differs, the probe pairs TIE_PROBES - go through the property's ordinary oracle and correspondence (one_pair + coq_cases), so
    that they are judged like any generated case.  A broken tie alone never fails the check."""
    import os
    import re
    from concurrent.futures import ThreadPoolExecutor
    if name != "textresult":
        return {"searched": "unknown tie"}
    gen_dir = os.path.join(ctx.scratch, "srctie")
    if rec.get("status") in ("translator-rejected", "generated-model-does-not-compile") or not os.path.exists(os.path.join(gen_dir, "ViewsGen.vo")):
        return {"searched": "nothing to difference (%s): the run uses thorough-size streams instead" % rec.get("status")}
    n = 240 if ctx.thorough else 120
    pool = [(a, b) for a, b in FIXED_PAIRS + TIE_PROBES + gen_pairs(ctx, n)]
    pairs = []
    for a, b in pool:
        try:
            if D.in_model_guard(a, b) and repr_in_model(a, b) and not has_sharing(a, b):
                pairs.append((a, b, ctx.rng.choice([0.33, 0.33, 0])))
        except Exception:
            pass
    ctx.ensure_built(HDR3 + "\nFrom DD Require Import Views.ViewsSrc.")
    shard = 40
    shards = [pairs[i:i + shard] for i in range(0, len(pairs), shard)]

    def one(k):
        fn = os.path.join(ctx.scratch, "tiediff_%d.v" % k)
        with open(fn, "w") as f:
            f.write(tie_diff_file(ctx, shards[k]))
        return core.sh(["coqc", "-Q", core.THEORIES, "DD", "-Q", gen_dir, "DDGen", fn], timeout=900, cwd=ctx.scratch)
    with ThreadPoolExecutor(max_workers=core.NCPU) as ex:
        results = list(ex.map(one, range(len(shards))))
    diffs, errors, syn = [], [], []
    for k, (rc, out) in enumerate(results):
        if rc != 0:
            errors.append(out[-600:])
            continue
        for m in re.finditer(r'TIEDIFF \((\d+), (\d+), "(\w+)"\)', out):
            i, v, what = int(m.group(1)), int(m.group(2)), m.group(3)
            if i == 0:
                if k == 0:
                    syn.append({"verbose": v, "what": what})
            else:
                a, b, thr = shards[k][i - 1]
                diffs.append({"t1": repr(a), "t2": repr(b), "thr": thr, "verbose": v, "what": what, "_pair": (a, b)})
    res = {"searched": "%d generated pairs x verbose 0..3 (conversion) / 1..2 (pretty) + one synthetic entry list with every report type" % len(pairs),
           "differing_cases": len(diffs), "synthetic_differs_at": syn, "coq_errors": errors[:2]}
    if not diffs and not syn:
        res["outcome"] = "generated and hand model agree on everything evaluated"
        return res
    diffs.sort(key=lambda d: len(d["t1"]) + len(d["t2"]))
    res["first"] = [{k: v for k, v in d.items() if k != "_pair"} for d in diffs[:3]]
    # judged like any generated case: the direct oracle and the correspondence on the differing inputs and on the probes
    todo, seen = [], set()
    for d in diffs[:6]:
        key = (d["t1"], d["t2"])
        if key not in seen:
            seen.add(key)
            todo.append(d["_pair"])
    todo += [p for p in TIE_PROBES if (repr(p[0]), repr(p[1])) not in seen]
    cases, iocases, repcases = [], [], []
    f0, b0 = len(ctx.failures), len(ctx.breaks)
    for a, b in todo:
        one_pair(ctx, a, b, cases, iocases=iocases, repcases=repcases)
    ctx.coq_cases("c10tie", HDR3, cases, shard=100, label="tie_replay_ordered")
    ctx.coq_cases("c10tieio", IO_HDR, iocases, shard=100, label="tie_replay_ignore_order")
    ctx.coq_cases("c10tierep", IO_HDR, repcases, shard=100, label="tie_replay_ignore_order_repetition")
    res["replayed_pairs"] = len(todo)
    res["oracle_failures_on_replay"] = len(ctx.failures) - f0
    res["breaks_on_replay"] = len(ctx.breaks) - b0
    return res


def replay_witnesses(ctx):
    """the Coq witnesses of the open findings must still fail on the implementation"""
    from deepdiff import DeepDiff
    open_keys = {f["key"] for f in ctx.findings if f.get("status") == "open"}
    # fixed finding C10-pretty-set-item-root: the Coq example must be what the implementation prints
    s = DeepDiff({"a": {1, 2}}, {"a": {1, 3}}).pretty()
    if "Item root['a'][3] added to set." not in s.split("\n"):
        ctx.break_("correspondence", {"name": "C10_pretty_set_item_example", "detail": "the implementation no longer prints the statement of the Coq example", "impl": s})
    # C10_pretty_none_and_repetition_examples: the statements of the Coq examples are what the implementation prints
    for t1, t2, kw, want in (({"a": None}, {"a": 1}, {}, "Type of root['a'] changed from NoneType to int and value changed from None to 1."),
                             ([1], [None], {}, "Type of root[0] changed from int to NoneType and value changed from 1 to None."),
                             ([4, 4, 1], [1, 4, 2], {"ignore_order": True, "report_repetition": True}, "Repetition change for item root[0].")):
        s = DeepDiff(t1, t2, **kw).pretty()
        if want not in s.split("\n"):
            ctx.break_("correspondence", {"name": "C10_pretty_none_and_repetition_examples", "detail": "the implementation no longer prints the statement of the Coq example", "want": want, "impl": s})
    if "C10-to_json-non-utf8-bytes" in open_keys:
        try:
            s = DeepDiff([b"\xff"], [b"a"]).to_json()
            ctx.break_("correspondence", {"name": "C10-to_json-non-utf8-bytes witness", "detail": "C10_json_total_refuted's witness no longer raises on the implementation; model out of date", "impl": s})
        except UnicodeDecodeError:
            pass
    if "C10-repetition-t2-index" in open_keys:
        # third witness: repeated by HASH, not by == ((1, 3) / (3, 1) under ignore_order)
        for t1, t2, kind in (([3, 1, 2], [4, 4, 3], "values_changed"), ([4, 4, 1], [1, 4, 2], "repetition_change"),
                             ([(0,), (1, 3), (3, 1)], [(3,), (0,), (1, 3)], "repetition_change")):
            d = DeepDiff(t1, t2, ignore_order=True, report_repetition=True, view="tree")
            lv = list(d[kind])[0]
            rel = lv.up.t2_child_rel or lv.up.t1_child_rel
            if lv.up.t2[rel.param] == lv.t2:
                ctx.break_("correspondence", {"name": "C10-repetition-t2-index witness", "detail": "C10_io_repetition_leaf_refuted's witness no longer fails on the implementation; model out of date", "impl": repr(d)})
    for t1, t2 in (({"a": {1, 2}}, {"a": {1, 3}}), ([b"\xff"], [b"a"]), ([3, 1, 2], [4, 4, 3]), ([4, 4, 1], [1, 4, 2]),
                   ([(0,), (1, 3), (3, 1)], [(3,), (0,), (1, 3)]), ([[1, [2, 3]], [[3, 2], 1], 0], [5, [1, [2, 3]]])):
        one_pair(ctx, t1, t2, [], corr=False)
    # C10_io_repetition_flat_t2_refuted: the witnesses and the satisfying example, observed
    for t1, t2 in (([3, 1, 2], [4, 4, 3]), ([4, 4, 1], [1, 4, 2]), ([1, 5], [7, 7, 5])):
        flat_probe(ctx, t1, t2)
    for _ in range(1500 if ctx.thorough else 200):
        x, y, _k = V.gen_atom_list_pair(ctx.rng, maxlen=6, alphabet=ctx.rng.choice([[1, 2, 3, 4, 5, 6, 7], ["a", "b", 1, 2, None, 2.5, True]]))
        if ctx.rng.random() < 0.5:
            y = y + [ctx.rng.choice([8, 9, "z"]) for _i in range(ctx.rng.randint(1, 3))]
        flat_probe(ctx, x, y)


def run(ctx):
    import os
    # a source tie that is not intact escalates the streams that exercise TextResult / pretty() to their thorough size
    big = ctx.thorough or ctx.tie_broken("textresult")
    npairs = int(os.environ.get("C10_DEV_PAIRS", "0")) or (3600 if big else 400)     # C10_DEV_PAIRS: development only
    pairs = FIXED_PAIRS + shared_fixed_pairs() + gen_pairs(ctx, npairs)
    cases, iocases, repcases = [], [], []
    import sys
    import time
    t0 = time.time()
    for t1, t2 in pairs:
        one_pair(ctx, t1, t2, cases, iocases=iocases, repcases=repcases)
    if os.environ.get("C10_DEV_TIMES"):
        print("C10 oracle+case building: %.1fs" % (time.time() - t0), file=sys.stderr)
    for c in cases[:3]:
        ctx.sample(c[2])
    ctx.coq_cases("c10", HDR3, cases, shard=100, label="all_presentations_ordered")
    ctx.coq_cases("c10io", IO_HDR, iocases, shard=100, label="all_presentations_ignore_order")
    ctx.coq_cases("c10rep", IO_HDR, repcases, shard=100, label="all_presentations_ignore_order_repetition")
    vcases = []
    for _ in range(3000 if ctx.thorough else 400):
        v = gen_val(ctx.rng, 3, 3)
        if repr_in_model(v):
            vcases.append(value_case(v))
    ctx.coq_cases("c10v", HDR, vcases, shard=150, label="str_repr_jsonable")
    mcases = []
    for _ in range(1500 if ctx.thorough else 200):
        v = gen_val(ctx.rng, 3, 3)
        if repr_in_model(v):
            c = dumps_case(ctx.rng, v)
            if c:
                mcases.append(c)
    ctx.coq_cases("c10m", HDR3, mcases, shard=125, label="json_dumps_default_mapping")
    if os.environ.get("C10_DEV_TIMES"):
        print("C10 all: %.1fs" % (time.time() - t0), file=sys.stderr)
    replay_witnesses(ctx)
    # extension: class instances (attribute_added / attribute_removed in the text view, to_dict, pretty()) - beyond the
    # property's stated domain, recorded in the evidence file, never a violation (core.Ctx.extension; coq/theories/Obj)
    with ctx.extension("Obj"):
        from harness import objcommon as O
        O.stream_c10(ctx)


def replay(ctx, data):
    case = data.get("case", {})
    if "pickle" in case:
        t1, t2 = pickle.loads(base64.b64decode(case["pickle"]))
        one_pair(ctx, t1, t2, [], corr=False)
    elif "t1" in case:
        t1, t2 = eval(case["t1"]), eval(case["t2"])
        one_pair(ctx, t1, t2, [], corr=False)
    else:
        run(ctx)

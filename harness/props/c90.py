"""C90 - TEMPORARY test module of block Obj (objects with attributes inside the models).
Not a property; the lead deletes it after wiring the streams of harness/objcommon.py into
c02.py / c04.py / c01.py / c09.py and the lemmas of Obj/ObjProps.v into Properties/C0x.v.
"""
from harness import core, objcommon as O

THEOREM_FILE = "Obj/ObjProps.v"
RULE = ("pairs (t1, t2): t1 a random tree-shaped value of depth <= 3 holding instances of 4 fixed classes (2 plain with __eq__, 1 plain "
        "without, 1 __slots__) at any level; t2 = t1 after 1-3 edits (attribute changed/added/removed/reordered, class changed, object "
        "replaced by a value and back, edits inside attribute values, insert/delete in sequences and dicts holding objects), a deep copy, "
        "or an independent value; thresholds {0.33, 0.5, 1}")
TRUSTED = ["as for C02/C04/C01/C09: difflib opcodes and DeepHash of set members are oracles / stand-ins",
           "the model on objects is the existing model run on an encoding (object -> {TAG cls: {attr: value}}), decoded"]
ASSUMPTIONS = ["0 < threshold_to_diff_deeper <= 1", "ignore_private_variables=True (default)", "classes without class-level data attributes or properties"]


def obj1(case):
    """attribute_removed on an instance of a __slots__ class: Delta deletes from obj.__dict__"""
    return case.get("prop") == "C01" and case.get("slots_attr_removed") is True and case.get("clause") in ("round trip differs", "errors logged")


MATCHERS = {"OBJ1": obj1}


def run(ctx):
    O.stream_c02(ctx)
    O.stream_c04(ctx)
    O.stream_c01(ctx)
    O.stream_c09(ctx)


def replay(ctx, data):
    case = data.get("case", {})
    if "t1" in case:
        O.replay_case(ctx, case)
    else:
        run(ctx)

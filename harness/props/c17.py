"""C17 - a DeepDiff result does not depend on caching (cache_size,
cache_tuning_sample_size, cache_purge_level 0/1), on a pre-seeded `hashes`
table, on repetition of the run, or on other computations running at the same
time in other threads.

proof:           coq/theories/DiffIO/{MemoModel,MemoProofs}.v, Properties/C17.v:
                 a run is a program of memoised calls (distance of a hash pair,
                 pairs of two hash lists, arbitrarily nested); evaluated with the
                 LFU cache model of C18 under an arbitrary enable/disable
                 schedule it returns what the cache-less evaluation returns,
                 provided the value computed for a key is a function of the key.
correspondence:  the cache interactions of the real run are RECORDED (monkeypatch
                 of the two memoised methods in this process): the call tree of
                 the cache-less run becomes a `prog`; Coq evaluates it with the
                 LFU model at the capacity and with the enable schedule of the
                 cached run and must predict, call by call, hit / miss+store /
                 miss / bypass and the value returned - i.e. exactly what the real
                 LFUCache inside DeepDiff did.  The hypothesis of the theorem
                 ("same key => same value") is evaluated on every recorded tree.
                 Round 3: the pairs bodies are COMPUTED (DiffIO/MemoPairs.v): from the
                 hashes, the cut-off and the distance each nested run ends with, the
                 model builds the whole program - keys, loop order, greedy selection,
                 continuation - and predicts every cache event AND every cached value
                 (distances, pairs dictionaries in insertion order) of the cached run;
                 the greedy selection alone is also compared on every recorded pairs
                 call and on synthetic distance matrices with ties (the real method
                 driven through a stub self); the two cache keys are checked to be
                 injective functions of (sorted added, sorted removed) / the unordered
                 hash pair.  Sessions of runs that pass ONE `hashes` dictionary
                 (DiffIO/MemoHashes.v): the model threads the table through all runs and
                 predicts every result; a spying dictionary checks that no id()-keyed
                 entry written by an earlier run is ever read.
direct oracle:   result equality across cache_size x cache_tuning_sample_size x
                 cache_purge_level, fresh vs reused `hashes`, repeated runs, sessions
                 sharing one table; all splits of 3-5 shared unmatched items between
                 added and removed at two places (a pairing memoised for one place must
                 not be served to the other); a threaded stress run (DeepDiff / DeepHash
                 / Delta mixed, switch interval 1e-6) whose per-task results equal the
                 sequential ones.
extension:       a `hashes` table left by a run under OTHER hashing options (outside
                 the property: recorded, never a violation): the model with the stale
                 table reproduces the implementation's results.
"""
import copy
import logging
import multiprocessing as mp
import random
import sys
import threading

from harness import core, values as V, diffcommon as D
from harness.props import c05

logging.disable(logging.CRITICAL)

THEOREM_FILE = "Properties/C17.v"
COQCHK = ["Properties.C17"]
RULE = ("pairs (t1, t2) as in C05 plus 'planted' shapes: a pool of sub-lists copied into several sibling lists on both sides with near-duplicates, "
        "so that the same pair of sub-lists is compared under several parents (distance cache hit) and more distinct pairs than the capacity "
        "occur (eviction); a case = (t1, t2, ignore_order, report_repetition, cache_size, cache_tuning_sample_size, cache_purge_level | hashes table | repetition | thread schedule); "
        "non-trivial = the run performs at least one cache lookup; distinct = distinct (canonical t1, canonical t2, settings)")
TRUSTED = [
    "the run is modelled as a program of memoised calls; the pairs bodies are concrete (double loop of distance calls in loop order + the greedy selection, DiffIO/MemoPairs.v), "
    "the nested run behind a distance call is an arbitrary program of the same shape ending in a distance (what it returns is block Dist's rough_distance on the nested diff: "
    "C17_rough_distance_symmetric_iff); that the value computed for a key is a function of the key (`consistent` = no key computed with two values along the cache-less run, "
    "C17_guard_is_functional_calls; fails exactly through the two sorted cache keys: findings K17, K28; also if max_passes / max_diffs run out mid-run) is a hypothesis of the "
    "transparency theorems, evaluated on every recorded call tree at run time",
    "the cache is the LFU model of C18 (Lfu/LfuModel.v, tied to lfucache.py by C18's correspondence); DummyLFU (cache_size=0) = the schedule that never enables the cache",
    "thread scheduling / the GIL are not modelled: the concurrency clause is tied to the sequential statement by a stress run only (partial)",
    "cache_purge_level only deletes DeepDiff's own references (cache, hashes) after the result is built; a caller's `hashes` dictionary survives whatever the level: "
    "in the model a session threads the table, every run starts with a fresh cache (direct oracle for the levels themselves)",
    "id()-keyed entries of a `hashes` table are never read back by a later run (DeepHash._hash cannot look an unhashable object up; __getitem__ reads an id entry only right after "
    "the same DeepHash call rewrote it): the model's table never finds such entries; checked on every session with a spying dictionary",
    "numpy pre-calculated distances (>= 2 added and >= 2 removed numbers of one type) by-pass the memoised distance calls: the matrix is an input of the pairs model (`pre`)",
]
ASSUMPTIONS = ["tree-shaped inputs", "max_passes and max_diffs are not exhausted during the run (default 10**7 / None)", "no nan/inf/-0.0"]

HEADER = ("From DD Require Import Base.PyStr Base.Value Diff.Tree Diff.DiffModel Diff.DiffShow Hash.HashModel Lfu.LfuModel "
          "DiffIO.DiffIOModel DiffIO.DiffIOShow DiffIO.MemoModel DiffIO.MemoShow DiffIO.DiffIOCache DiffIO.DiffIOCacheShow DiffIO.MemoPairs DiffIO.MemoPairsShow DiffIO.MemoHashes DiffIO.MemoHashesShow.\nLocal Open Scope Z_scope.")

CACHE_SIZES = [0, 1, 2, 7, 5000]
TUNING = [0, 1, 2, 10]
PURGE = [0, 1]


# ---------------------------------------------------------------------------
# recording the memoised calls
# ---------------------------------------------------------------------------

_tls = threading.local()


def float_bits(x):
    """the IEEE bit pattern of a non-negative distance as an int: orders like the float"""
    import struct
    f = float(x)
    if f != f or f < 0:
        return None
    return struct.unpack(">q", struct.pack(">d", f + 0.0))[0]


def install_recorder():
    from deepdiff.diff import DeepDiff, DISTANCE_CACHE_ENABLED
    from deepdiff.deephash import combine_hashes_lists
    if getattr(DeepDiff, "_verif_memo_recorder", False):
        return
    orig_dist = DeepDiff._get_rough_distance_of_hashed_objs
    orig_pairs = DeepDiff._get_most_in_common_pairs_in_iterables

    def enter(self, kind, key):
        rec = getattr(_tls, "memo", None)
        if rec is None:
            return None
        en = bool(self._stats[DISTANCE_CACHE_ENABLED])
        node = {"kind": kind, "key": key, "en_get": en, "hit": bool(en and key in self._distance_cache),
                "children": [], "value": None, "en_set": None}
        (rec["stack"][-1]["children"] if rec["stack"] else rec["roots"]).append(node)
        rec["stack"].append(node)
        return node

    def leave(self, node, value):
        if node is None:
            return
        rec = _tls.memo
        rec["stack"].pop()
        node["value"] = value
        node["en_set"] = bool(self._stats[DISTANCE_CACHE_ENABLED])

    def w_dist(self, added_hash, removed_hash, added_hash_obj, removed_hash_obj, _original_type=None):
        key = ("d", DeepDiff._get_distance_cache_key(added_hash, removed_hash))
        node = enter(self, "d", key[1])
        if node is not None:
            node["orient"] = bool(added_hash > removed_hash)
            node["a"], node["r"] = added_hash, removed_hash
        ok = False
        try:
            out = orig_dist(self, added_hash, removed_hash, added_hash_obj, removed_hash_obj, _original_type)
            ok = True
            return out
        finally:
            if node is not None and ok:
                node["bits"] = float_bits(out)
            leave(self, node, ("d", float(out).hex()) if ok else ("exc",))

    def w_pairs(self, hashes_added, hashes_removed, t1_hashtable, t2_hashtable, parents_ids, _original_type):
        key = combine_hashes_lists(items=[hashes_added, hashes_removed], prefix='pairs_cache')
        node = enter(self, "p", key)
        if node is not None:
            node["adds"], node["rems"] = list(hashes_added), list(hashes_removed)
            node["cutoff"] = float_bits(self.cutoff_distance_for_pairs)
        ok = False
        try:
            out = orig_pairs(self, hashes_added, hashes_removed, t1_hashtable, t2_hashtable, parents_ids, _original_type)
            ok = True
            return out
        finally:
            if node is not None and ok:
                node["items"] = list(out.items())
            leave(self, node, ("p", tuple(sorted(out.items()))) if ok else ("exc",))

    orig_pre = getattr(DeepDiff, "_precalculate_numpy_arrays_distance", None)
    if orig_pre is not None:
        def w_pre(self, *a, **k):
            out = orig_pre(self, *a, **k)
            rec = getattr(_tls, "memo", None)
            if out is not None and rec is not None and rec["stack"]:
                # distances taken from numpy, not from memoised calls: {"added--removed": distance}
                rec["stack"][-1]["precalc"] = {k: float_bits(v) for k, v in out.items()}
            return out
        DeepDiff._precalculate_numpy_arrays_distance = w_pre
    DeepDiff._get_rough_distance_of_hashed_objs = w_dist
    DeepDiff._get_most_in_common_pairs_in_iterables = w_pairs
    DeepDiff._verif_memo_recorder = True


class MemoRecording:
    def __enter__(self):
        install_recorder()
        _tls.memo = {"roots": [], "stack": []}
        return _tls.memo

    def __exit__(self, *a):
        _tls.memo = None


class EvictionCounter:
    """counts LFUCache.dump_cache calls (evictions) and set calls in this thread"""

    def __enter__(self):
        from deepdiff.lfucache import LFUCache
        self.n = {"evictions": 0, "sets": 0}
        self.cls = LFUCache
        self.orig_dump = LFUCache.dump_cache
        self.orig_set = LFUCache.set
        me = self

        def dump(s):
            me.n["evictions"] += 1
            return me.orig_dump(s)

        def set_(s, key, report_type=None, value=None):
            me.n["sets"] += 1
            return me.orig_set(s, key, report_type, value)
        LFUCache.dump_cache = dump
        LFUCache.set = set_
        return self.n

    def __exit__(self, *a):
        self.cls.dump_cache = self.orig_dump
        self.cls.set = self.orig_set


def flatten(nodes, out=None):
    out = [] if out is None else out
    for n in nodes:
        out.append(n)
        flatten(n["children"], out)
    return out


def asymmetric_keys(t1, t2, rep, extra=None):
    """distance-cache keys for which the cache-less run computes the rough distance in BOTH
    orientations of the hash pair with different values (the key is symmetric, the distance is not)"""
    from deepdiff import DeepDiff
    with MemoRecording() as rec:
        try:
            DeepDiff(copy.deepcopy(t1), copy.deepcopy(t2), ignore_order=True, report_repetition=rep, **(extra or {}))
        except Exception:  # noqa
            return []
    by = {}
    for n in flatten(rec["roots"]):
        if n["kind"] == "d":
            by.setdefault(n["key"], {}).setdefault(n.get("orient"), set()).add(n["value"])
    return [k for k, o in by.items() if len(o) == 2 and o[True] != o[False]]


def k17_match(case):
    """a settings failure (result with cache != result without) of an ignore-order run in which some
    hash pair's distance is needed in both orientations with different values"""
    if case.get("kind") != "settings" or not case.get("ignore_order") or not case.get("cache_size") or case.get("raised"):
        return False
    t1, t2 = c05.from_repr(case["t1"]), c05.from_repr(case["t2"])
    return bool(asymmetric_keys(t1, t2, case.get("report_repetition", False), case.get("extra_knobs")))


def pairs_order_keys(t1, t2, rep, extra=None):
    """pairs-cache keys under which the cache-less run computes two DIFFERENT pairings for the same two sets of
    hashes listed in a different order (the key sorts the lists, the greedy selection breaks ties by position)"""
    from deepdiff import DeepDiff
    with MemoRecording() as rec:
        try:
            DeepDiff(copy.deepcopy(t1), copy.deepcopy(t2), ignore_order=True, report_repetition=rep, **(extra or {}))
        except Exception:  # noqa
            return []
    by = {}
    for n in flatten(rec["roots"]):
        if n["kind"] == "p" and "adds" in n:
            by.setdefault(n["key"], []).append(n)
    out = []
    for k, ns in by.items():
        if any(a["value"] != b["value"] and (a["adds"], a["rems"]) != (b["adds"], b["rems"])
               and sorted(a["adds"]) == sorted(b["adds"]) and sorted(a["rems"]) == sorted(b["rems"]) for a in ns for b in ns):
            out.append(k)
    return out


def k28_match(case):
    """a settings failure of an ignore-order run in which two levels have the same added / removed hashes in a
    different order and the cache-less run pairs them differently"""
    if case.get("kind") != "settings" or not case.get("ignore_order") or not case.get("cache_size") or case.get("raised"):
        return False
    t1, t2 = c05.from_repr(case["t1"]), c05.from_repr(case["t2"])
    return bool(pairs_order_keys(t1, t2, case.get("report_repetition", False), case.get("extra_knobs")))


MATCHERS = {"C17-K17-symmetric-distance-key": k17_match, "C17-K28-pairs-key-ignores-order": k28_match}

_c3 = ['c1', 'c2', 'c3']
K28_WITNESS = ({'p': [[1, 2, 3, 4, 90]] + _c3, 'q': [[1, 2, 3, 4, 90]] + _c3},
               {'p': [[1, 2, 3, 4, 5], [1, 2, 3, 4, 6]] + _c3, 'q': [[1, 2, 3, 4, 6], [1, 2, 3, 4, 5]] + _c3})

_L9 = [1, 2, 3, 4, 5, 6, 7, 8, 9]
K17_WITNESS = ([['u', 'b1', 'b2', 'b3', 'b4'], [list(_L9), 'a1', 'a2', 'a3', 'a4'], 'x1', 'x2', 'x3', 'x4'],
               [[list(_L9), 'b1', 'b2', 'b3', 'b4'], ['u', 'a1', 'a2', 'a3', 'a4'], 'x1', 'x2', 'x3', 'x4'])


def replay_witnesses(ctx):
    """the defect behind C17_cache_transparent_refuted, on the implementation"""
    from deepdiff import DeepDiff
    t1, t2 = K17_WITNESS
    try:
        d1 = DeepDiff(list(_L9), 'u', get_deep_distance=True).get('deep_distance')
        d2 = DeepDiff('u', list(_L9), get_deep_distance=True).get('deep_distance')
        k1 = DeepDiff._get_distance_cache_key('aa', 'bb')
        k2 = DeepDiff._get_distance_cache_key('bb', 'aa')
    except Exception as e:  # noqa
        ctx.break_("correspondence", {"name": "C17_cache_transparent_refuted", "detail": "probing the distance / cache key raised " + repr(e)})
        return
    plain = text_result(t1, t2, ignore_order=True)
    cached = text_result(t1, t2, ignore_order=True, cache_size=5000)
    if cached.startswith("EXC ") and not plain.startswith("EXC "):
        ctx.fail({"kind": "settings", "t1": repr(t1), "t2": repr(t2), "ignore_order": True, "report_repetition": False, "cache_size": 5000,
                  "cache_tuning_sample_size": 0, "cache_purge_level": 1, "raised": cached},
                 "DeepDiff raises with cache_size=5000 but returns a result with cache_size=0: " + cached)
    elif d1 == d2 or k1 != k2:
        ctx.break_("correspondence", {"name": "C17_cache_transparent_refuted", "detail": "rough distance is now symmetric or the distance cache key is now ordered: "
                                      "the refutation witness (same key, two values) no longer describes the code", "d(L,'u')": d1, "d('u',L)": d2})
    elif plain == cached:
        ctx.break_("correspondence", {"name": "C17_cache_transparent_refuted", "detail": "the K17 witness no longer gives different results with and without cache"})
    if (d1, d2) != (3 / 11, 11 / 11):
        ctx.break_("correspondence", {"name": "C17_k17_distance_asymmetric", "detail": "the distance model (Dist block, through the diff model) gives 3/11 and 11/11 "
                                      "for [1..9] <-> 'u'; the implementation gives other values", "d(L,'u')": d1, "d('u',L)": d2})
    # C17_pairs_order_refuted: two levels with the same added hashes in opposite order, a tie in the distances
    a, b = K28_WITNESS
    plain2 = text_result(a, b, ignore_order=True)
    cached2 = text_result(a, b, ignore_order=True, cache_size=5000)
    keys28 = pairs_order_keys(a, b, False)
    if cached2.startswith("EXC ") and not plain2.startswith("EXC "):
        ctx.fail({"kind": "settings", "t1": repr(a), "t2": repr(b), "ignore_order": True, "report_repetition": False, "cache_size": 5000,
                  "cache_tuning_sample_size": 0, "cache_purge_level": 1, "raised": cached2},
                 "DeepDiff raises with cache_size=5000 but returns a result with cache_size=0: " + cached2)
    elif not keys28:
        ctx.break_("correspondence", {"name": "C17_pairs_order_refuted", "detail": "the pairs cache key now separates the two orders of the hash lists, or the selection no longer depends "
                                      "on the order: the refutation witness no longer describes the code"})
    elif plain2 == cached2:
        ctx.break_("correspondence", {"name": "C17_pairs_order_refuted", "detail": "the K28 witness no longer gives different results with and without cache"})
    ctx.note("refuted_witnesses_replayed", ["C17_cache_transparent_refuted (same key, two values: d(L,'u')=%r, d('u',L)=%r, one cache key)" % (d1, d2),
                                            "C17_pairs_order_refuted (one pairs key, two orders of the added hashes, two pairings: %d key(s))" % len(keys28)])


# ---------------------------------------------------------------------------
# running the implementation
# ---------------------------------------------------------------------------

def result_obs(t1, t2, **kw):
    """canonical full result (tree view) of one run, or the exception"""
    from deepdiff import DeepDiff
    a, b = copy.deepcopy(t1), copy.deepcopy(t2)
    try:
        r = DeepDiff(a, b, view="tree", **kw)
    except Exception as e:  # noqa
        return "EXC " + repr(e), None
    stats = r.get_stats() if hasattr(r, "get_stats") else {}
    return c05.io_obs(r), dict(stats)


def text_result(t1, t2, **kw):
    from deepdiff import DeepDiff
    try:
        return repr(DeepDiff(copy.deepcopy(t1), copy.deepcopy(t2), **kw).to_dict())
    except Exception as e:  # noqa
        return "EXC " + repr(e)


# ---------------------------------------------------------------------------
# generators
# ---------------------------------------------------------------------------

def planted(rng, small=False):
    """a shared pool of sub-lists planted into several sibling lists on both
    sides; t2 holds near-duplicates, so the SAME pair of sub-lists is compared
    under several parents (cache hits) and many distinct pairs occur (evictions).
    Unless `mixed`, every item is a list of `width` distinct ints, which keeps the
    rough distance symmetric (the guard of C17_cache_transparent_partial)."""
    npool = 3 if small else rng.randint(3, 6)
    mixed = (not small) and rng.random() < 0.3      # str markers / ragged sub-lists: distances are then often asymmetric (finding C17-K17)
    width = 4 if small else rng.randint(4, 7)

    def fresh(lo, hi):
        return rng.sample(range(lo, hi), width)
    pool = [([rng.randint(0, 9) for _ in range(rng.randint(4, 7))] if mixed else fresh(0, 30)) for _ in range(npool)]
    near = []
    for p in pool:
        q = list(p)
        q[rng.randrange(len(q))] = rng.randint(40, 49)
        near.append(q)

    def marker(s):
        return ("u%d" % s) if mixed else [100 + 10 * s + i for i in range(width)]
    consts = ["c", "d"] if mixed else [[200 + i for i in range(width)], [300 + i for i in range(width)]]
    nsib = 3 if small else rng.randint(3, 5)
    t1, t2 = [], []
    for s in range(nsib):
        k = rng.randint(2, npool)
        idx = rng.sample(range(npool), k)
        a = [copy.deepcopy(pool[i]) for i in idx] + [marker(s)] + copy.deepcopy(consts)
        changed = set(rng.sample(idx, rng.randint(1, max(1, k - 1))))
        b = [copy.deepcopy(near[i] if i in changed else pool[i]) for i in idx] + [marker(s)] + copy.deepcopy(consts)
        rng.shuffle(b)
        t1.append(a)
        t2.append(b)
    # enough unchanged items at the root for the intersection cutoff (0.7) to allow pairing
    common = ["x%d" % i for i in range(3 if small else nsib + 2)]
    t1 += common
    t2 += common
    rng.shuffle(t2)
    if not small and rng.random() < 0.3:
        return {"rows": t1, "n": 1}, {"rows": t2, "n": 1}
    return t1, t2


def split_shape(rng):
    """two places see the same unequal sub-lists, split differently between "added" and "removed":
    place p: removed {X}, added {Y, Z};  place q: removed {X, Y}, added {Z}  (no pair occurs in both
    orientations, so the distance cache is within its guard; the memoised PAIRING of one place must not
    be served to the other)"""
    w = rng.randint(8, 12)
    base = rng.sample(range(0, 60), w)
    Z = list(base)
    Y = list(base)
    Y[rng.randrange(w)] = rng.randint(70, 79)
    X = list(base)
    for i in rng.sample(range(w), 2):
        X[i] = rng.randint(80, 99)
    if rng.random() < 0.5:
        X = X + [rng.randint(100, 110)]
    common = [rng.choice("stuvwxyz") + str(i) for i in range(4)]

    def cl(l):
        return [list(i) if isinstance(i, list) else i for i in l]
    t1 = {"p": cl([X] + common), "q": cl([Y, X] + common)}
    t2 = {"p": cl([Z, Y] + common), "q": cl([Z] + common)}
    if rng.random() < 0.5:
        t1, t2 = [t1["p"], t1["q"], "r"], [t2["p"], "r", t2["q"]]
        t1[1].append("only-q")
        t2[2].append("only-q")
    return t1, t2


def split_items(rng, k):
    """k unequal sub-lists of one width, pairwise at DIFFERENT small distances (no ties: the selection is then
    independent of the order, finding K28 stays out) and symmetric (same width, distinct ints: K17 stays out)"""
    w = rng.randint(18, 24)
    base = rng.sample(range(0, 200), w)
    items = [list(base)]
    pos = rng.sample(range(w), k)                 # item i changes positions pos[0..i-1]: d(i, j) grows with |i - j|
    for i in range(1, k):
        it = list(items[-1])
        it[pos[i - 1]] = 300 + 10 * i + rng.randint(0, 9)
        items.append(it)
    return items


def split_enum(rng, k=3, limit=None):
    """ALL ways in which the same k unmatched sub-lists can be split between "removed" and "added" at two places of one
    document (each side non-empty at both places, the two splits different): whatever the order of the k hashes, the
    enumeration contains the pair of places whose (sorted added, sorted removed) concatenate to the same sequence of
    hashes, i.e. the two pairs-cache keys differ only in where the added list ends.  Both diffing orders occur."""
    items = split_items(rng, k)
    common = [rng.choice("stuvwxyz") + str(i) for i in range(4)]
    masks = [m for m in range(1, (1 << k) - 1)]
    combos = [(m1, m2) for m1 in masks for m2 in masks if m1 != m2]
    if limit is not None and len(combos) > limit:
        combos = rng.sample(combos, limit)
    out = []
    for m1, m2 in combos:
        def place(m):
            rem = [list(items[i]) for i in range(k) if not (m >> i) & 1]
            add = [list(items[i]) for i in range(k) if (m >> i) & 1]
            return rem + list(common), add + list(common)
        (a1, b1), (a2, b2) = place(m1), place(m2)
        out.append(({"p": a1, "q": a2}, {"p": b1, "q": b2}, "split-enum"))
    return out


def tie_shape(rng):
    """finding K28's shape: two places with the same unmatched sub-lists, the added ones at EQUAL distance from the
    removed one and listed in opposite orders"""
    w = rng.randint(5, 9)
    X = rng.sample(range(0, 60), w)
    i = rng.randrange(w)
    Y, Z = list(X), list(X)
    Y[i], Z[i] = 70 + rng.randint(0, 9), 90 + rng.randint(0, 9)
    common = [rng.choice("stuvwxyz") + str(j) for j in range(3)]
    return ({"p": [list(X)] + common, "q": [list(X)] + common},
            {"p": [list(Y), list(Z)] + common, "q": [list(Z), list(Y)] + common})


def _split_task(args):
    t1r, t2r = args
    t1, t2 = c05.from_repr(t1r), c05.from_repr(t2r)
    out = []
    for rep in (False, True):
        kw = dict(ignore_order=True, report_repetition=rep)
        base = text_result(t1, t2, **kw)
        for cs in (2, 7, 5000):
            got = text_result(t1, t2, cache_size=cs, cache_tuning_sample_size=0, **kw)
            out.append((rep, cs, got == base, got.startswith("EXC ") and not base.startswith("EXC "), got[:300], base[:300]))
    return t1r, t2r, out


def oracle_splits(ctx, pool):
    """the pairing memoised for one place must never be served to a place with another split of the same items"""
    docs = split_enum(ctx.rng, 3)
    docs += split_enum(ctx.rng, 4, limit=(150 if ctx.thorough else 16))
    if ctx.thorough:
        docs += split_enum(ctx.rng, 3) + split_enum(ctx.rng, 5, limit=100)
    for t1r, t2r, out in pool.map(_split_task, [(repr(a), repr(b)) for a, b, _k in docs], chunksize=4):
        for rep, cs, same, raised, got, base in out:
            ctx.seen((t1r, t2r, True, rep, cs, 0, 1, "split-enum"))
            ctx.count("splits:settings")
            if not same:
                ctx.fail({"kind": "settings", "t1": t1r, "t2": t2r, "ignore_order": True, "report_repetition": rep, "cache_size": cs,
                          "cache_tuning_sample_size": 0, "cache_purge_level": 1, "extra_knobs": {}, **({"raised": True} if raised else {}),
                          "with_cache": got, "without_cache": base},
                         "the result with cache_size=%r cache_tuning_sample_size=0 differs from the result without cache%s "
                         "(two places split the same unmatched items differently between added and removed)" % (cs, " (raised)" if raised else ""))


def deep_shuffled(rng):
    """lists nested three or four levels deep whose leaves are short int lists; t2 = t1 shuffled at EVERY level with a few
    leaves changed: pairing at one level runs nested distance diffs that pair again below, so with a small
    cache_tuning_sample_size the auto-tuner switches the cache off and on INSIDE a pairing call"""
    def gen(depth):
        if depth == 0:
            return [rng.randrange(50) for _ in range(rng.randrange(3, 6))]
        return [gen(depth - 1) for _ in range(rng.randrange(2, 5))]

    def perturb(x, p):
        if isinstance(x, list):
            y = [perturb(i, p) for i in x]
            rng.shuffle(y)
            return y
        return x + 100 if rng.random() < p else x
    a = gen(rng.choice([2, 3, 3]))
    return a, perturb(a, 0.12)


def _tuning_task(args):
    t1r, t2r = args
    t1, t2 = c05.from_repr(t1r), c05.from_repr(t2r)
    out = []
    for rep in (False, True):
        kw = dict(ignore_order=True, report_repetition=rep)
        base = text_result(t1, t2, **kw)
        for cs in (1, 2, 7, 5000):
            for tune in (1, 2, 10):
                got = text_result(t1, t2, cache_size=cs, cache_tuning_sample_size=tune, **kw)
                out.append((rep, cs, tune, got == base, got.startswith("EXC ") and not base.startswith("EXC "), got[:300], base[:300]))
    return t1r, t2r, out


def oracle_tuning(ctx, pool, n):
    """every (cache_size > 0) x (small cache_tuning_sample_size) on deeply nested shuffled inputs: the auto-tuner flips
    DISTANCE_CACHE_ENABLED between the lookup and the store of one memoised call"""
    docs = [deep_shuffled(ctx.rng) for _ in range(n)]
    for t1r, t2r, out in pool.map(_tuning_task, [(repr(a), repr(b)) for a, b in docs], chunksize=1):
        for rep, cs, tune, same, raised, got, base in out:
            ctx.seen((t1r, t2r, True, rep, cs, tune, 1, "deep-shuffled"))
            ctx.count("tuning:settings")
            if not same:
                ctx.fail({"kind": "settings", "t1": t1r, "t2": t2r, "ignore_order": True, "report_repetition": rep, "cache_size": cs,
                          "cache_tuning_sample_size": tune, "cache_purge_level": 1, "extra_knobs": {}, **({"raised": True} if raised else {}),
                          "with_cache": got, "without_cache": base},
                         "the result with cache_size=%r cache_tuning_sample_size=%r differs from the result without cache%s "
                         "(deeply nested shuffled lists: the cache is switched off and on inside a pairing)" % (cs, tune, " (raised)" if raised else ""))


def gen_inputs(rng, n_planted, n_other):
    out = [split_shape(rng) + ("split",) for _ in range(max(2, n_planted // 3))]
    out[1:1] = [tie_shape(rng) + ("tie",)]
    for _ in range(n_planted):
        out.append(planted(rng) + ("planted",))
    while len(out) < n_planted + n_other + max(2, n_planted // 3) + 1:
        a, b, _k = c05.gen_pair(rng, alias=False, depth=rng.choice([2, 3, 3]))
        if V.contains_alias(a, b):
            continue
        out.append((a, b, "edited"))
    return out


# ---------------------------------------------------------------------------
# direct oracle: settings grid, hashes, repetition
# ---------------------------------------------------------------------------

def _grid_task(args):
    t1r, t2r, io, rep, settings = args
    t1, t2 = c05.from_repr(t1r), c05.from_repr(t2r)
    base_kw = dict(ignore_order=io)
    if io:
        base_kw["report_repetition"] = rep
    base, _ = result_obs(t1, t2, **base_kw)
    base_text = text_result(t1, t2, **base_kw)
    out = []
    hits = evictions = lookups = 0
    for (cs, tune, purge) in settings:
        kw = dict(base_kw, cache_size=cs, cache_tuning_sample_size=tune, cache_purge_level=purge)
        with EvictionCounter() as ev:
            got, stats = result_obs(t1, t2, **kw)
        got_text = text_result(t1, t2, **kw)
        hits += (stats or {}).get("DISTANCE CACHE HIT COUNT", 0)
        evictions += ev["evictions"]
        lookups += ev["sets"]
        out.append(((cs, tune, purge), got == base and got_text == base_text, isinstance(got, str), {}))
    # repeated runs; nothing may leak from one run into the next (a run with other pairing knobs in between)
    again, _ = result_obs(t1, t2, **base_kw)
    rep_ok = again == base
    if io:
        extra = dict(cutoff_distance_for_pairs=1, cutoff_intersection_for_pairs=1)
        wide = dict(base_kw, **extra)
        fresh, _ = result_obs(t1, t2, cache_size=5000, **base_kw)
        w_nocache, _ = result_obs(t1, t2, **wide)
        w_cache, _ = result_obs(t1, t2, cache_size=5000, **wide)
        after, _ = result_obs(t1, t2, cache_size=5000, **base_kw)
        w_again, _ = result_obs(t1, t2, cache_size=5000, **wide)
        if after != fresh or w_again != w_cache:
            rep_ok = False
        out.append(((5000, 0, 1), w_cache == w_nocache, isinstance(w_cache, str), extra))
    # reused hashes table: from a run on the same objects, and from a run on unrelated objects
    from deepdiff import DeepDiff
    hashes_ok = True
    detail = None
    try:
        a, b = copy.deepcopy(t1), copy.deepcopy(t2)
        first = DeepDiff(a, b, cache_purge_level=0, view="tree", **base_kw)
        table = first.hashes
        n0 = len(table)
        second = DeepDiff(a, b, hashes=table, view="tree", **base_kw)
        if c05.io_obs(second) != base or c05.io_obs(first) != base:
            hashes_ok, detail = False, "table of a previous run on the same objects"
        other = DeepDiff(b, a, hashes=table, view="tree", **base_kw)    # the table now also holds t2-first entries
        swapped, _ = result_obs(t2, t1, **base_kw)
        if c05.io_obs(other) != swapped:
            hashes_ok, detail = False, "table of a previous run, arguments swapped"
        c, d = copy.deepcopy(t1), copy.deepcopy(t2)                       # equal content, other objects; a, b stay alive
        third = DeepDiff(c, d, hashes=table, view="tree", **base_kw)
        if c05.io_obs(third) != base:
            hashes_ok, detail = False, "table of a previous run on equal content (other objects)"
    except Exception as e:  # noqa
        hashes_ok, detail = False, "raised " + repr(e)
        n0 = 0
    return t1r, t2r, io, rep, out, rep_ok, hashes_ok, detail, hits, evictions, lookups, n0


def oracle_grid(ctx, inputs, pool, full):
    settings_all = [(cs, tu, pu) for cs in CACHE_SIZES for tu in TUNING for pu in PURGE]
    jobs = []
    for i, (a, b, kind) in enumerate(inputs):
        for io, rep in ((True, False), (True, True), (False, False)):
            st = settings_all if (full or i % 4 == 0) else ctx.rng.sample(settings_all, 8)
            jobs.append((repr(a), repr(b), io, rep, st))
    res = pool.map(_grid_task, jobs, chunksize=1)
    tot_hits = tot_ev = 0
    for t1r, t2r, io, rep, out, rep_ok, hashes_ok, detail, hits, evictions, lookups, n0 in res:
        base_case = {"t1": t1r, "t2": t2r, "ignore_order": io, "report_repetition": rep}
        for (cs, tune, purge), same, exc, extra in out:
            ctx.seen((t1r, t2r, io, rep, cs, tune, purge, sorted(extra.items())), nontrivial=lookups > 0 or not io)
            if not same:
                ctx.fail(dict(base_case, kind="settings", cache_size=cs, cache_tuning_sample_size=tune, cache_purge_level=purge, extra_knobs=extra,
                              **({"raised": True} if exc else {})),
                         "the result with cache_size=%r cache_tuning_sample_size=%r cache_purge_level=%r differs from the result without cache%s"
                         % (cs, tune, purge, " (raised)" if exc else ""))
        ctx.seen((t1r, t2r, io, rep, "repeat"))
        if not rep_ok:
            ctx.fail(dict(base_case, kind="repeat"), "two identical runs gave different results")
        ctx.seen((t1r, t2r, io, rep, "hashes"), nontrivial=n0 > 0)
        if not hashes_ok:
            ctx.fail(dict(base_case, kind="hashes", detail=detail), "passing a previously used hashes table changes the result: " + str(detail))
        tot_hits += hits
        tot_ev += evictions
        ctx.count("grid:ignore_order" if io else "grid:ordered")
    ctx.note("grid_cache_hits_total", tot_hits)
    ctx.note("grid_evictions_total", tot_ev)
    if tot_hits == 0 or tot_ev == 0:
        ctx.break_("harness", {"what": "the generator produced no cache hit / no eviction: the cache was not exercised", "hits": tot_hits, "evictions": tot_ev})



# ---------------------------------------------------------------------------
# a previously used hashes table: edit-in-place-then-rerun, and tables filled from temporaries
# ---------------------------------------------------------------------------

def mutable_positions(v, path=()):
    """paths of lists / dicts inside v (root included)"""
    if isinstance(v, (list, dict)):
        yield path
    if isinstance(v, (list, tuple)):
        for i, x in enumerate(v):
            yield from mutable_positions(x, path + (i,))
    elif isinstance(v, dict):
        for k, x in v.items():
            yield from mutable_positions(x, path + (k,))


def gen_inplace_edit(rng, v):
    """an edit applied IN PLACE to a list / dict inside v: [op, path, args...] (JSON-able: values as reprs)"""
    pos = [p for p in mutable_positions(v) if all(not isinstance(V.get_at(v, p[:i]), tuple) for i in range(len(p) + 1))]
    if not pos:
        return None
    path = rng.choice(pos)
    tgt = V.get_at(v, path)
    new = repr(rng.choice([rng.randint(50, 99), [rng.randint(50, 99)], "zz"]))
    if isinstance(tgt, list):
        op = rng.choice(["append", "setitem", "delitem"]) if tgt else "append"
        if op == "append":
            return ["append", [repr(k) for k in path], new]
        i = rng.randrange(len(tgt))
        return [op, [repr(k) for k in path], i] + ([new] if op == "setitem" else [])
    keys = list(tgt)
    if keys and rng.random() < 0.6:
        return ["setkey", [repr(k) for k in path], repr(rng.choice(keys)), new]
    return ["setkey", [repr(k) for k in path], repr("zz%d" % rng.randint(0, 9)), new]


def apply_inplace(v, ed):
    tgt = V.get_at(v, [c05.from_repr(k) for k in ed[1]])
    if ed[0] == "append":
        tgt.append(c05.from_repr(ed[2]))
    elif ed[0] == "setitem":
        tgt[ed[2]] = c05.from_repr(ed[3])
    elif ed[0] == "delitem":
        del tgt[ed[2]]
    elif ed[0] == "setkey":
        tgt[c05.from_repr(ed[2])] = c05.from_repr(ed[3])


def _dd_text(a, b, **kw):
    from deepdiff import DeepDiff
    try:
        return repr(c05.io_obs(DeepDiff(a, b, view="tree", **kw)))     # canonical: set iteration order is not an observable
    except Exception as e:  # noqa
        return "EXC " + repr(e)


def inplace_case(t1r, t2r, edits, io, rep):
    """one table kept by the caller across runs while t2 (and t1) are edited in place between the runs.
    Returns the list of problems."""
    from deepdiff import DeepHash
    kw = dict(ignore_order=io)
    if io:
        kw["report_repetition"] = rep
    t1, t2 = c05.from_repr(t1r), c05.from_repr(t2r)
    table = {}
    probs = []
    first = _dd_text(t1, t2, hashes=table, **kw)
    if first != _dd_text(copy.deepcopy(t1), copy.deepcopy(t2), **kw):
        probs.append("first run with an empty table passed in differs from the run without a table")
    for n, (side, ed) in enumerate(edits):
        apply_inplace(t1 if side == 1 else t2, ed)
        want = _dd_text(copy.deepcopy(t1), copy.deepcopy(t2), **kw)
        got = _dd_text(t1, t2, hashes=table, **kw)
        if got != want:
            probs.append("after in-place edit #%d (%r on t%d) the run with the previously used table gives %s, a fresh run gives %s" % (n, ed, side, got[:300], want[:300]))
            break
        try:
            for x in (t1, t2):
                if isinstance(x, (list, dict)):
                    hk = dict(ignore_repetition=not (io and rep))     # the table holds hashes under DeepDiff's hashing options
                    if DeepHash(x, hashes=table, **hk)[x] != DeepHash(x, **hk)[x]:
                        probs.append("after in-place edit #%d DeepHash with the used table is stale" % n)
        except Exception as e:  # noqa
            probs.append("DeepHash with the used table raised " + repr(e))
        if probs:
            break
    return probs


def temporaries_case(seq, io, rep):
    """ONE table across many runs over freshly built temporary containers (references dropped, gc run)"""
    import gc
    kw = dict(ignore_order=io)
    if io:
        kw["report_repetition"] = rep
    shared = {}
    for n, (t1r, t2r) in enumerate(seq):
        a, b = c05.from_repr(t1r), c05.from_repr(t2r)
        want = _dd_text(copy.deepcopy(a), copy.deepcopy(b), **kw)
        got = _dd_text(a, b, hashes=shared, **kw)
        del a, b
        gc.collect()
        if got != want:
            return ["run #%d of %d sharing one hashes table (earlier inputs garbage-collected): %s instead of %s" % (n, len(seq), got[:300], want[:300])], n
    return [], None


def _hashes_task(args):
    seed, n_inplace, n_temp = args
    rng = random.Random(seed)
    out = []
    for _ in range(n_inplace):
        if rng.random() < 0.4:
            a, b = planted(rng)
        else:
            a, b, _k = c05.gen_pair(rng, alias=False, depth=3)
        if V.contains_alias(a, b):
            continue
        t1r, t2r = repr(a), repr(b)
        t1, t2 = c05.from_repr(t1r), c05.from_repr(t2r)
        edits = []
        for _e in range(rng.randint(1, 3)):
            side = 2 if rng.random() < 0.7 else 1
            ed = gen_inplace_edit(rng, t1 if side == 1 else t2)
            if ed is None:
                continue
            apply_inplace(t1 if side == 1 else t2, ed)
            edits.append((side, ed))
        if not edits:
            continue
        io, rep = rng.choice([(True, False), (True, True), (True, False), (False, False)])
        probs = inplace_case(t1r, t2r, edits, io, rep)
        out.append(({"kind": "hashes_inplace", "t1": t1r, "t2": t2r, "edits": edits, "ignore_order": io, "report_repetition": rep}, probs))
    for _ in range(n_temp):
        shape = rng.random()
        seq = []
        n = rng.randint(4, 8)
        w = rng.randint(3, 5)
        rows = rng.randint(3, 6)
        for k in range(n):
            if shape < 0.6:      # same-shaped containers every round: freed addresses are re-used
                a = [[i * 10 + j + k for j in range(w)] for i in range(rows)]
                b = [list(reversed(r)) for r in reversed(a)]
                b[k % rows][0] += 1000 + k
            else:
                a, b, _k = c05.gen_pair(rng, alias=False, depth=3)
            seq.append((repr(a), repr(b)))
        io, rep = rng.choice([(True, False), (True, True)])
        probs, at = temporaries_case(seq, io, rep)
        out.append(({"kind": "hashes_temporaries", "sequence": seq, "ignore_order": io, "report_repetition": rep, "failing_run": at}, probs))
    return out


class SpyDict(dict):
    """a `hashes` dictionary that notices STALE reads of id()-keyed entries: a successful lookup of an id key that was
    last written during an earlier run of the session (the model's assumption: [MI] entries are never found)"""

    def __init__(self):
        super().__init__()
        self.epoch = 0
        self.written = {}
        self.stale = []
        self.small = set()
        from deepdiff.helper import ID_PREFIX
        self.prefix = ID_PREFIX

    def _is_id(self, k):
        # helper.get_id: ID_PREFIX + str(id(obj))
        return type(k) is str and k.startswith(self.prefix) and k[len(self.prefix):].isdigit() and k not in self.small

    def __setitem__(self, k, v):
        if self._is_id(k):
            self.written[k] = self.epoch
        super().__setitem__(k, v)

    def __getitem__(self, k):
        v = super().__getitem__(k)
        if self._is_id(k) and self.written.get(k) != self.epoch:
            self.stale.append(k)
        return v


def strs_of(v, out):
    if isinstance(v, (list, tuple, set, frozenset)):
        for x in v:
            strs_of(x, out)
    elif isinstance(v, dict):
        for k, x in v.items():
            strs_of(k, out)
            strs_of(x, out)
    elif type(v) is str:
        out.add(v)


def _session_task(args):
    """a session of runs that all pass ONE dictionary as `hashes` (fresh objects each run).  Returns, per run, the
    observable with the shared table, the observable alone, the recorded pairings; and the model expression"""
    seq, thr = args
    from deepdiff import DeepDiff
    table = SpyDict()
    shared, alone, reqs, ud, raised = [], [], [], [], False
    for t1r, t2r, rep in seq:
        t1, t2 = c05.from_repr(t1r), c05.from_repr(t2r)
        strs_of(t1, table.small)
        strs_of(t2, table.small)
        table.epoch += 1
        a, b = copy.deepcopy(t1), copy.deepcopy(t2)
        with c05.Recording() as rec:
            try:
                r = DeepDiff(a, b, ignore_order=True, report_repetition=rep, hashes=table, view="tree")
                obs = c05.io_obs(r)
                tbl = c05.pairs_table(rec)
            except Exception as e:  # noqa
                obs, tbl, raised = "EXC " + repr(e), [], True
        shared.append(obs)
        alone.append(result_obs(t1, t2, ignore_order=True, report_repetition=rep)[0])
        reqs.append("(%s, %s, %s, %s)" % (core.coq_bool(rep), c05.coq_pairs_table(tbl), V.to_coq(t1), V.to_coq(t2)))
        ud += [x for x in D.udiff_table(t1, t2) if x not in ud]
    expr = "run_session_m %s %s %s" % (D.coq_udiff_table(ud), D.coq_cfg(False, thr), core.coq_list(reqs))
    return seq, shared, alone, expr, raised, len(table.stale), len([k for k in table.written])


def gen_session(rng, mixed):
    """3-4 runs over values that share hashable parts (tuples, strings, numbers recur across the runs);
    `mixed`: report_repetition differs between the runs (a table from a run under OTHER hashing options)"""
    n = rng.randint(3, 4)
    pool = [tuple(rng.choice([1, 2, 3]) for _ in range(rng.randint(2, 4))) for _ in range(4)] + ["s%d" % i for i in range(3)] + \
           [[rng.randint(0, 5) for _ in range(rng.randint(2, 4))] for _ in range(3)]
    seq = []
    rep0 = rng.random() < 0.5
    for i in range(n):
        if rng.random() < 0.6:
            k = rng.randint(3, 6)
            a = [copy.deepcopy(rng.choice(pool)) for _ in range(k)]
            b = [copy.deepcopy(rng.choice(pool)) for _ in range(k)]
            if rng.random() < 0.5:
                b = list(reversed(copy.deepcopy(a))) + [copy.deepcopy(rng.choice(pool))]
        else:
            a, b, _k = c05.gen_pair(rng, alias=False, depth=2)
        rep = (not rep0 if (mixed and i % 2 == 1) else rep0)
        seq.append((repr(a), repr(b), rep))
    if rng.random() < 0.4:                 # repeated runs: the first request again at the end
        seq.append((seq[0][0], seq[0][1], rep0))
    if V.contains_alias(*[c05.from_repr(x) for q in seq for x in q[:2]]):
        return None
    return seq


def oracle_sessions(ctx, pool, n):
    jobs = []
    while len(jobs) < n:
        seq = gen_session(ctx.rng, mixed=(len(jobs) % 3 == 2))
        if seq is not None:
            jobs.append((seq, 0.33))
    cases, xcases = [], []
    stale = ids = 0
    for seq, shared, alone, expr, raised, nstale, nids in pool.map(_session_task, jobs, chunksize=2):
        mixed = len({q[2] for q in seq}) > 1
        stale += nstale
        ids += nids
        case = {"kind": "hashes_session", "sequence": [list(q) for q in seq]}
        if nstale:
            ctx.break_("correspondence", dict(case, what="an id()-keyed entry of the hashes table written by an earlier run was READ: the model's table "
                                                          "never finds such entries (MemoHashes.v)", stale_reads=nstale))
        if not mixed:
            ctx.seen(("session", repr(seq)))
            ctx.count("hashes:session(same options)")
            for i, (x, y) in enumerate(zip(shared, alone)):
                if x != y:
                    ctx.fail(dict(case, failing_run=i), "run #%d of a session passing one hashes table gives %s, alone it gives %s" % (i, str(x)[:300], str(y)[:300]))
                    break
            if not raised:
                cases.append((expr, shared, case))
        else:
            ctx.count("hashes:session(options differ between the runs: extension)")
            if not raised:
                xcases.append((expr, shared, dict(case, differs_from_alone=[i for i, (x, y) in enumerate(zip(shared, alone)) if x != y])))
    timed_cases(ctx, "hashes_session", HEADER, cases, shard=6, label="session_sharing_one_hashes_table:every_result")
    with ctx.extension("hashes_table_from_a_run_under_other_options"):
        timed_cases(ctx, "hashes_session_x", HEADER, xcases, shard=6, label="session_with_stale_table:every_result")
    ctx.note("hashes_sessions", {"same_options": len(cases), "other_options(extension)": len(xcases),
                                 "stale_table_changed_a_result": sum(1 for _e, _s, c in xcases if c["differs_from_alone"]),
                                 "id_entries_written": ids, "stale_id_reads": stale})


def oracle_hashes(ctx, pool, n_tasks, n_inplace, n_temp):
    seeds = [ctx.rng.randrange(1 << 30) for _ in range(n_tasks)]
    for res in pool.map(_hashes_task, [(sd, n_inplace, n_temp) for sd in seeds], chunksize=1):
        for case, probs in res:
            ctx.seen((case["kind"], repr(case.get("t1") or case.get("sequence")), repr(case.get("edits"))))
            ctx.count("hashes:" + case["kind"])
            if probs:
                ctx.fail(case, "passing a previously used hashes table changes the result: " + probs[0])

# ---------------------------------------------------------------------------
# correspondence: recorded call trees against the memo model
# ---------------------------------------------------------------------------

def record_run(t1, t2, levels=None, raw=None, **kw):
    """one run with the memoised calls recorded; `levels` (a list) additionally receives, per pairs call of
    the root instance and in call order, (canonical t1-side level path, [(j, i)...]) from C05's recorder"""
    from deepdiff import DeepDiff
    a, b = copy.deepcopy(t1), copy.deepcopy(t2)
    with c05.Recording() as lrec:
        with MemoRecording() as rec:
            with EvictionCounter() as ev:
                try:
                    r = DeepDiff(a, b, ignore_order=True, view="tree", **kw)
                except Exception as e:  # noqa  a raise under some cache setting is a result that depends on the cache
                    return "EXC " + repr(e), rec["roots"], ev
        if levels is not None:
            levels.extend((p, ji) for p, ji, _x, _y in c05.pairs_table(lrec))
        if raw is not None:
            raw.extend({"t1_first": dict(x["t1_first"]), "t2_first": dict(x["t2_first"])} for x in lrec)
    return c05.io_obs(r), rec["roots"], ev


def coq_prog(nodes, kid, vid):
    """the call tree of the cache-less run as a term of type prog:
    a sequence of calls; the continuation ignores the value (one recorded path)"""
    term = "Ret 0"
    for n in reversed(nodes):
        body = coq_prog_body(n, kid, vid)
        term = "Call %d (%s) (fun _ => %s)" % (kid[(n["kind"], n["key"])], body, term)
    return term


def coq_prog_body(n, kid, vid):
    """the miss-body of one call: its nested calls, then its value"""
    term = "Ret %d" % vid[n["value"]]
    for ch in reversed(n["children"]):
        term = "Call %d (%s) (fun _ => %s)" % (kid[(ch["kind"], ch["key"])], coq_prog_body(ch, kid, vid), term)
    return term


def cached_log(nodes, kid, vid, out=None):
    """what the cached run did, call by call, in pre-order of the calls that were
    actually made: [key, outcome, value]; outcome 0 bypass, 1 hit, 2 miss+store, 3 miss"""
    out = [] if out is None else out
    for n in nodes:
        if not n["en_get"]:
            oc = 0
        elif n["hit"]:
            oc = 1
        elif n["en_set"]:
            oc = 2
        else:
            oc = 3
        out.append([kid[(n["kind"], n["key"])], oc, vid[n["value"]]])
        cached_log(n["children"], kid, vid, out)
    return out


def schedule(nodes, out=None):
    """the enable flags in the order the model consumes them: one at every
    lookup, one more after the body of a miss that had a key"""
    out = [] if out is None else out
    for n in nodes:
        out.append(n["en_get"])
        if n["en_get"] and not n["hit"]:
            schedule(n["children"], out)
            out.append(n["en_set"])
        elif not n["en_get"]:
            schedule(n["children"], out)
    return out


def zlist(xs):
    return core.coq_list("%d" % x for x in xs)


def p_complete(n):
    """the pairs node made exactly one memoised distance call per (added, removed), in loop order"""
    if "adds" not in n or n.get("cutoff") is None:
        return False
    want = [(a, r) for a in n["adds"] for r in n["rems"]]
    if n.get("precalc") is not None:
        return not n["children"] and all(n["precalc"].get("%s--%s" % ar) is not None for ar in want)
    got = [(ch.get("a"), ch.get("r")) for ch in n["children"]]
    return want == got and all(ch["kind"] == "d" and ch.get("bits") is not None and all(g["kind"] == "p" for g in ch["children"]) for ch in n["children"])


def tree_complete(nodes):
    return all(n["kind"] == "p" and p_complete(n) and all(tree_complete(ch["children"]) for ch in n["children"]) for n in nodes)


def prog_p(nodes, hid, final="Ret (VD 0)"):
    """a sequence of pairs calls with COMPUTED bodies: only the hashes, the cut-off and the distance each nested run
    ends with are taken from the recording; loop order, keys, selection and continuation are the model's"""
    term = final
    for n in reversed(nodes):
        nest = core.coq_list("(%d, %d, %s)" % (hid[ch["a"]], hid[ch["r"]], prog_p(ch["children"], hid, "Ret (VD %d)" % ch["bits"]))
                             for ch in n["children"])
        term = "pcall dk pk %d %s %s %s %s (%s)" % (n["cutoff"], nest, pre_term(n, hid), zlist(hid[h] for h in n["adds"]), zlist(hid[h] for h in n["rems"]), term)
    return term


def pre_term(n, hid):
    if n.get("precalc") is None:
        return "None"
    return "(Some %s)" % core.coq_list("(%d, %d, %d)" % (hid[a], hid[r], n["precalc"]["%s--%s" % (a, r)]) for a in n["adds"] for r in n["rems"])


def select_case(n, hid):
    """(coq expr, expected) for the selection of one recorded pairs call"""
    if n.get("precalc") is not None:
        ds = pre_term(n, hid)[6:-1]
    else:
        ds = core.coq_list("(%d, %d, %d)" % (hid[ch["a"]], hid[ch["r"]], ch["bits"]) for ch in n["children"])
    return "select_z %d %s" % (n["cutoff"], ds), [[hid[k], hid[v]] for k, v in n["items"]]


def key_model_ok(nodes):
    """the two cache keys are what the model says: the pairs key is a function of the two SORTED hash lists (injective),
    the distance key of the UNORDERED hash pair (injective)"""
    pk, pk_inv, dk, dk_inv = {}, {}, {}, {}
    for n in nodes:
        if n["kind"] == "p" and "adds" in n:
            c = (tuple(sorted(n["adds"])), tuple(sorted(n["rems"])))
            if pk.setdefault(c, n["key"]) != n["key"] or pk_inv.setdefault(n["key"], c) != c:
                return False
        elif n["kind"] == "d" and "a" in n:
            c = frozenset((n["a"], n["r"]))
            if dk.setdefault(c, n["key"]) != n["key"] or dk_inv.setdefault(n["key"], c) != c:
                return False
    return True


def _trace_task(args):
    t1r, t2r, rep, cs, tune = args
    t1, t2 = c05.from_repr(t1r), c05.from_repr(t2r)
    kw = dict(report_repetition=rep)
    levels, raw = [], []
    base, pure, _ = record_run(t1, t2, levels=levels, raw=raw, **kw)
    got, cached, ev = record_run(t1, t2, cache_size=cs, cache_tuning_sample_size=tune, **kw)
    if isinstance(base, str) or isinstance(got, str):
        return (t1r, t2r, rep, cs, tune, got == base, "raised", ("", "", ""), "", [], 0, ev["evictions"], 0, 0, (None, None, [], True))
    fp, fc = flatten(pure), flatten(cached)
    kid, vid = {}, {}
    for n in fp + fc:
        kid.setdefault((n["kind"], n["key"]), len(kid) + 1)
        vid.setdefault(n["value"], len(vid) + 1)
    # hypothesis of the theorem on the recorded tree: same key => same value
    by_key = {}
    for n in fp:                      # the cache-less run: what each key's value IS
        by_key.setdefault((n["kind"], n["key"]), []).append(n)
    consistent = "yes"
    for (kind, _k), ns in by_key.items():
        if len({n["value"] for n in ns}) > 1:
            # explained by the symmetric distance key (both orientations of one hash pair, each with its own value)?
            if kind == "d" and all(len({n["value"] for n in ns if n.get("orient") == o}) <= 1 for o in (True, False)):
                consistent = "asymmetric-distance" if consistent == "yes" else consistent
            # ... or by the sorted pairs key (the same hashes listed in different orders, each order with its own pairing)?
            elif kind == "p" and all("adds" in n for n in ns) and \
                    len({n["value"] for n in ns}) <= len({(tuple(n["adds"]), tuple(n["rems"])) for n in ns}) and \
                    all(a["value"] == b["value"] for a in ns for b in ns if (a["adds"], a["rems"]) == (b["adds"], b["rems"])):
                consistent = "pairs-order" if consistent == "yes" else consistent
            else:
                consistent = "no"
    # the pairs bodies computed by the model (MemoPairs.v): selection of every recorded pairs call, and the whole run
    hid = {}
    for n in fp + fc:
        for h in (n.get("adds", []) + n.get("rems", []) + [x for x in (n.get("a"), n.get("r")) if x is not None]):
            hid.setdefault(h, len(hid))
    sel = [select_case(n, hid) for n in fp if n["kind"] == "p" and p_complete(n) and "items" in n]
    keys_ok = key_model_ok(fp + fc)
    pexpr, plog = None, None
    if tree_complete(pure) and all(("bits" in n) if n["kind"] == "d" else ("items" in n) for n in fc):
        dk, pkt = {}, {}
        for n in fp + fc:
            if n["kind"] == "d":
                dk[(hid[n["a"]], hid[n["r"]])] = kid[("d", n["key"])]
            else:
                pkt[(tuple(hid[h] for h in n["adds"]), tuple(hid[h] for h in n["rems"]))] = kid[("p", n["key"])]
        dk_txt = core.coq_list("(%d, %d, %d)" % (a, r, k) for (a, r), k in dk.items())
        pk_txt = core.coq_list("(%s, %s, %d)" % (zlist(a), zlist(r), k) for (a, r), k in pkt.items())
        pexpr = "(let dk := %s in let pk := %s in run_trace_p %d %s (%s))" % (
            dk_txt, pk_txt, cs, core.coq_list("true" if b else "false" for b in schedule(cached)), prog_p(pure, hid))
        plog = []
        for n in fc:      # flatten() is the pre-order of the calls actually made
            oc = 0 if not n["en_get"] else 1 if n["hit"] else 2 if n["en_set"] else 3
            val = [0, n["bits"]] if n["kind"] == "d" else [1, [[hid[k], hid[v]] for k, v in n["items"]]]
            plog.append([kid[(n["kind"], n["key"])], oc, val])
    sched = schedule(cached)
    texpr = "run_trace %d %s (%s)" % (cs, core.coq_list("true" if b else "false" for b in sched), coq_prog(pure, kid, vid))
    cexpr = "check_consistent (%s)" % coq_prog(pure, kid, vid)
    log = cached_log(cached, kid, vid)
    if len(levels) == len(pure) and len({repr(p) for p, _ in levels}) == len(levels):
        # the WHOLE run through the state-passing diff model with ONE cache: the pairs call of every level is
        # the recorded call tree of that level, the traversal order is the model's
        pps = core.coq_list("(%s, Call %d (%s) (fun v => Ret v))" % (D.coq_pathc(p), kid[(n["kind"], n["key"])], coq_prog_body(n, kid, vid))
                            for (p, _ji), n in zip(levels, pure))
        decs = core.coq_list("(%s, %d, %s)" % (D.coq_pathc(p), vid[n["value"]], core.coq_list("(%d%%nat, %d%%nat)" % (j, i) for j, i in ji))
                             for (p, ji), n in zip(levels, pure))
        expr = "run_st %s %s %s %d %s %s %s %s %s" % (
            D.coq_udiff_table(D.udiff_table(t1, t2)), D.coq_cfg(False, 0.33), core.coq_bool(rep), cs,
            core.coq_list("true" if b else "false" for b in sched), pps, decs, V.to_coq(t1), V.to_coq(t2))
        log = [got, log]
        if pexpr is not None and len(raw) == len(pure) and all(set(n["adds"]) <= set(x["t2_first"]) and set(n["rems"]) <= set(x["t1_first"])
                                                                for n, x in zip(pure, raw)):
            # stronger: the pairing of every level is COMPUTED by the pairs model inside the diff model (hashes are numbers; the
            # dictionary a level's memoised call returns becomes index pairs through the level's hash -> first index tables)
            pps2 = core.coq_list("(%s, pcall_v dk pk %d %s %s %s %s)" % (
                D.coq_pathc(p), n["cutoff"], core.coq_list("(%d, %d, %s)" % (hid[ch["a"]], hid[ch["r"]], prog_p(ch["children"], hid, "Ret (VD %d)" % ch["bits"]))
                                                           for ch in n["children"]),
                pre_term(n, hid), zlist(hid[h] for h in n["adds"]), zlist(hid[h] for h in n["rems"])) for (p, _ji), n in zip(levels, pure))
            decs2 = core.coq_list("(%s, %s, %s)" % (D.coq_pathc(p), core.coq_list("(%d, %d%%nat)" % (hid[h], x["t2_first"][h]) for h in n["adds"]),
                                                    core.coq_list("(%d, %d%%nat)" % (hid[h], x["t1_first"][h]) for h in n["rems"]))
                                  for (p, _ji), n, x in zip(levels, pure, raw))
            expr = "(let dk := %s in let pk := %s in run_st2 %s %s %s %d %s %s %s %s %s)" % (
                dk_txt, pk_txt, D.coq_udiff_table(D.udiff_table(t1, t2)), D.coq_cfg(False, 0.33), core.coq_bool(rep), cs,
                core.coq_list("true" if b else "false" for b in sched), pps2, decs2, V.to_coq(t1), V.to_coq(t2))
            log = [got, plog]
        oexpr = "check_o %s %s %s %s %s %s" % (D.coq_udiff_table(D.udiff_table(t1, t2)), D.coq_cfg(False, 0.33), core.coq_bool(rep),
                                                core.coq_list("(%s, %s)" % (D.coq_pathc(p), core.coq_list("(%d%%nat, %d%%nat)" % (j, i) for j, i in ji)) for p, ji in levels),
                                                V.to_coq(t1), V.to_coq(t2))
    else:
        expr = "BAD-LEVELS"
        oexpr = ""
    return (t1r, t2r, rep, cs, tune, got == base, consistent, (expr, oexpr, texpr), cexpr, log,
            sum(1 for x in cached_log(cached, kid, vid) if x[1] == 1), ev["evictions"], len(fp), len(sched) - sum(sched),
            (pexpr, plog, sel, keys_ok))


class _Obj:
    def __init__(self, item):
        self.item = item
        self.indexes = [0]


def select_synthetic(ctx, n):
    """the real _get_most_in_common_pairs_in_iterables on arbitrary distance matrices (many ties, random list orders),
    driven through a stub `self` whose distance method reads a table"""
    from deepdiff import DeepDiff
    from deepdiff.lfucache import DummyLFU
    try:
        from deepdiff.diff import DISTANCE_CACHE_ENABLED
    except Exception:  # noqa
        return []
    rng = ctx.rng
    out = []

    class Stub:
        iterable_compare_func = None

        def _precalculate_numpy_arrays_distance(self, *a, **k):
            return None

        def _get_rough_distance_of_hashed_objs(self, added_hash, removed_hash, *a, **k):
            return self.table[(added_hash, removed_hash)]
    for i in range(n):
        na, nr = rng.randint(0, 5), rng.randint(0, 5)
        adds, rems = ["a%d" % j for j in range(na)], ["r%d" % j for j in range(nr)]
        rng.shuffle(adds)
        rng.shuffle(rems)
        vals = [rng.choice([0, 0.1, 0.2, 0.25, 0.3, 0.5, 1.0, 1.5]) for _ in range(rng.randint(1, 4))]
        st = Stub()
        st.table = {(a, r): rng.choice(vals) for a in adds for r in rems}
        st._stats = {DISTANCE_CACHE_ENABLED: False}
        st._distance_cache = DummyLFU()
        st.cutoff_distance_for_pairs = rng.choice([0.3, 0.3, 0.5, 1.0])
        try:
            got = DeepDiff._get_most_in_common_pairs_in_iterables(st, list(adds), list(rems), {h: _Obj([h]) for h in rems},
                                                                 {h: _Obj([h]) for h in adds}, frozenset(), None)
        except Exception as e:  # noqa  the private method changed shape: the recorded calls still cover the selection
            ctx.note("select_synthetic", "stub call raised " + repr(e))
            return out
        num = {h: k for k, h in enumerate(adds + rems)}
        ds = core.coq_list("(%d, %d, %d)" % (num[a], num[r], float_bits(st.table[(a, r)])) for a in adds for r in rems)
        out.append(("select_z %d %s" % (float_bits(st.cutoff_distance_for_pairs), ds), [[num[k], num[v]] for k, v in got.items()],
                    {"synthetic": i, "added": adds, "removed": rems, "distances": {"%s,%s" % k: v for k, v in st.table.items()}}))
    return out


def timed_cases(ctx, name, *a, **k):
    import time
    t0 = time.time()
    out = ctx.coq_cases(name, *a, **k)
    ctx.notes.setdefault("coq_cases_wall_s", {})[name] = round(time.time() - t0, 1)
    return out


def correspondence(ctx, inputs, pool):
    import time
    t_rec = time.time()
    jobs = []
    small_set = {(repr(a), repr(b)) for a, b, kind in inputs if kind == "planted-small"}
    for i, (a, b, kind) in enumerate(inputs):
        for rep in (False, True):
            settings = ((1, 0), (2, 0), (7, 0), (5000, 0), (2, 1), (7, 2), (3, 10)) if ctx.thorough else \
                (((7, 0), (2, 1)) if kind == "planted-small" else ((1, 0), (7, 0), (5000, 0), (2, 1), (7, 2)))
            for cs, tune in settings:
                jobs.append((repr(a), repr(b), rep, cs, tune))
    res = pool.map(_trace_task, jobs, chunksize=2)
    ctx.notes.setdefault("coq_cases_wall_s", {})["(recording the runs)"] = round(time.time() - t_rec, 1)
    cases, ccases, ocases = [], [], []
    seen_o = set()
    hits = evs = disabled = 0
    tcases = []
    pcases, selcases, seen_sel = [], [], set()
    for t1r, t2r, rep, cs, tune, same, consistent, (expr, oexpr, texpr), cexpr, log, nh, nev, ncalls, ndis, (pexpr, plog, sel, keys_ok) in res:
        tag = {"t1": t1r, "t2": t2r, "report_repetition": rep, "cache_size": cs, "cache_tuning_sample_size": tune}
        if not keys_ok:
            ctx.break_("correspondence", dict(tag, what="a cache key is not the function of its arguments the model says: pairs key = f(sorted added, sorted removed), "
                                                       "distance key = f(unordered hash pair), both injective"))
        for sx_, want in sel:          # the greedy selection of every recorded pairs call, inside or outside the guard
            if sx_ not in seen_sel:
                seen_sel.add(sx_)
                selcases.append((sx_, want, tag))
        if not same:
            ctx.fail(dict(tag, kind="settings", ignore_order=True, cache_purge_level=1, **({"raised": True} if consistent == "raised" else {})),
                     "the result with cache_size=%r cache_tuning_sample_size=%r differs from the result without cache%s" % (
                         cs, tune, " (one of the two runs raised)" if consistent == "raised" else ""))
        if consistent == "raised":
            ctx.count("trace:run_raised")
            continue
        if consistent == "no":
            ctx.break_("correspondence", dict(tag, what="two memoised calls with the same key (and, for distances, the same orientation) returned different values: hypothesis `consistent` of C17_cache_transparent_partial fails on this run"))
            continue
        if consistent == "asymmetric-distance":
            # finding C17-K17: outside the guard of the theorem; the cached run may legitimately diverge from the prediction
            ctx.count("trace:asymmetric_distance_key(guard `consistent` fails: finding C17-K17)")
            continue
        if consistent == "pairs-order":
            # finding C17-K28: same hashes in another order under one pairs key, paired differently
            ctx.count("trace:pairs_key_ignores_order(guard `consistent` fails: finding C17-K28)")
            continue
        if ncalls == 0:
            ctx.count("trace:no_lookup")
            continue
        if expr == "BAD-LEVELS":
            ctx.break_("correspondence", dict(tag, what="the pairs calls of the root run could not be attributed to distinct levels"))
            continue
        hits += nh
        evs += nev
        disabled += ndis
        ctx.count("trace:with_hit" if nh else "trace:no_hit")
        if nev:
            ctx.count("trace:with_eviction")
        if ndis:
            ctx.count("trace:cache_switched_off_mid_run")
        if pexpr is not None:
            # the stronger form: the program is BUILT by the model (MemoPairs.v) from the hashes and the distances the nested
            # runs end with; keys, loop order, greedy selection and every cached value are computed
            pcases.append((pexpr, plog, tag))
        else:
            # fallback: the recorded call tree with recorded values (a pair skipped by loop detection, nan distances)
            tcases.append((texpr, log[1], tag))
            ctx.count("trace:pairs_body_not_computable(recorded tree used instead)")
        if ((t1r, t2r) in small_set or (ctx.thorough and len(t1r) + len(t2r) < 1400)) and (cs, tune) in (((7, 0), (2, 1), (1, 0), (3, 10)) if ctx.thorough else ((7, 0), (2, 1))):
            cases.append((expr, log, tag))
            ctx.count("st_trace:pairing_computed_by_the_model" if "run_st2 " in expr else "st_trace:pairing_recorded")
        ccases.append((cexpr, True, tag))
        if (t1r, t2r, rep) not in seen_o and (((t1r, t2r) in small_set and (ctx.thorough or not rep)) or (ctx.thorough and len(t1r) + len(t2r) < 1400)):
            seen_o.add((t1r, t2r, rep))
            ocases.append((oexpr, True, tag))
    ctx.note("trace_cache_hits", hits)
    ctx.note("trace_evictions", evs)
    ctx.note("trace_disabled_lookups", disabled)
    timed_cases(ctx, "memo_trace", HEADER, tcases, shard=40, label="memo_model:every_cache_event_of_the_run")
    timed_cases(ctx, "memo_trace_computed", HEADER, pcases, shard=4, label="memo_model_with_computed_pairs_bodies:every_cache_event_and_value")
    selcases += select_synthetic(ctx, 2000 if ctx.thorough else 200)
    timed_cases(ctx, "pairs_select", HEADER, selcases, shard=300, label="greedy_pair_selection")
    ctx.note("pairs_select_cases", {"recorded_pairs_calls": len(seen_sel), "synthetic(ties, real method through a stub self)": len(selcases) - len(seen_sel)})
    bad = timed_cases(ctx, "st_trace", HEADER, cases, shard=3, label="diff_model_with_one_cache:result+every_cache_event")
    if bad:
        # The RESULT of the one-cache diff model is compared strictly.  Its event log additionally depends on the order in
        # which the model walks the levels; a behaviour-preserving reordering in the implementation (e.g. of dict keys) changes
        # the order of the cache events without touching any result, and the order-agnostic memo-model prediction above
        # (program taken from the recorded run) already covers every event.  So: log-only mismatches are recorded, not alarmed.
        rc = [(cases[i][0].replace("run_st2 ", "run_st2_result ", 1).replace("run_st ", "run_st_result ", 1), [cases[i][1][0]], cases[i][2]) for i, _t, _x in bad]
        bad2 = timed_cases(ctx, "st_result", HEADER, rc, shard=3, label="diff_model_with_one_cache:result(recheck)")
        if not bad2:
            ctx.breaks = [b for b in ctx.breaks if not (b.get("kind") == "correspondence" and b.get("detail", {}).get("name") == "st_trace")]
            ctx.corr_mismatch -= len(bad)
            ctx.note("st_traversal_order_differs_from_model", {"cases": len(bad), "meaning": "results agree; the implementation issues its cache calls in another order than diff_io_st (not a property of C17)"})
    else:
        ctx.note("st_traversal_order_differs_from_model", {"cases": 0})
    timed_cases(ctx, "memo_consistent", HEADER, ccases, shard=80, label="same_key_same_value")
    # proved since round 3 (DiffIO/DiffIOOrder.v: diff_io_o_perm); kept as a small sanity check of the statement's reading
    timed_cases(ctx, "st_order", HEADER, ocases if ctx.thorough else ocases[:2], shard=3, label="t2_key_order_traversal_lists_the_entries_of_diff_io")


# ---------------------------------------------------------------------------
# threads
# ---------------------------------------------------------------------------

def make_tasks(rng, n):
    """(kind, payload) tasks mixing DeepDiff (both modes, cached), DeepHash, Delta"""
    tasks = []
    for i in range(n):
        kind = rng.choice(["diff_io", "diff_io_cache", "diff", "hash", "delta", "diff_io_cache", "delta_tuple", "delta_tuple", "delta_tuple"])
        if kind == "delta_tuple":
            a, b = flat_tuple_job(rng, i)
        elif kind.startswith("diff_io"):
            a, b = planted(rng) if rng.random() < 0.6 else c05.gen_pair(rng)[:2]
        else:
            a, b, _ = c05.gen_pair(rng, depth=3)
        tasks.append((kind, a, b, rng.choice([1, 2, 7, 5000]), rng.choice([0, 1, 10])))
    return tasks


def flat_tuple_job(rng, k):
    """values changed INSIDE tuples of scalars (tuple in dict / in list); never a tuple holding containers (that is finding F4)"""
    rows = [tuple(rng.randint(0, 9) for _ in range(4)) for _ in range(rng.randint(3, 6))]
    t1 = {"rows": rows, "name": "job%d" % k, "tail": (1, 2, k)}
    t2 = copy.deepcopy(t1)
    t2["rows"] = [r[:2] + (r[2] + 100,) + r[3:] if rng.random() < 0.8 else r for r in rows]
    t2["tail"] = (1, 20, k)
    if rng.random() < 0.5:
        t2["name"] = "job%d!" % k
    if rng.random() < 0.3:
        return [t1, (5, 6)], [t2, (5, 7)]
    return t1, t2


def typed(v):
    """canonical form with container types (a tuple that came back as a list is a different result)"""
    return repr(V.canon(v))


def run_task(task):
    from deepdiff import DeepDiff, DeepHash, Delta
    kind, a, b, cs, tune = task
    a, b = copy.deepcopy(a), copy.deepcopy(b)
    try:
        if kind == "diff_io":
            return repr(DeepDiff(a, b, ignore_order=True).to_dict())
        if kind == "diff_io_cache":
            return repr(DeepDiff(a, b, ignore_order=True, report_repetition=True, cache_size=cs, cache_tuning_sample_size=tune).to_dict())
        if kind == "diff":
            return repr(DeepDiff(a, b).to_dict())
        if kind == "hash":
            return DeepHash(a)[a] + "|" + DeepHash(b, ignore_repetition=False)[b]
        if kind == "delta_tuple":
            return typed(copy.deepcopy(a) + Delta(DeepDiff(a, b)))
        if kind == "delta":
            d = Delta(DeepDiff(a, b), raise_errors=False, log_errors=False)
            return repr(V.canon(a + d)) if isinstance(a, (list, tuple, dict)) else repr(a + d)
    except Exception as e:  # noqa
        return "EXC " + type(e).__name__
    return None


def threaded(ctx, rounds, nthreads, ntasks):
    old = sys.getswitchinterval()
    try:
        for r in range(rounds):
            tasks = make_tasks(ctx.rng, ntasks)
            sys.setswitchinterval(old)
            expected = [run_task(t) for t in tasks]
            order = list(range(len(tasks)))
            ctx.rng.shuffle(order)
            results = [None] * len(tasks)
            sys.setswitchinterval(1e-6)
            chunks = [order[i::nthreads] for i in range(nthreads)]
            errs = []

            def work(idx):
                try:
                    for i in idx:
                        results[i] = run_task(tasks[i])
                except Exception as e:  # noqa
                    errs.append(repr(e))
            ts = [threading.Thread(target=work, args=(ch,)) for ch in chunks]
            for t in ts:
                t.start()
            for t in ts:
                t.join()
            sys.setswitchinterval(old)
            for i, t in enumerate(tasks):
                ctx.seen(("thread", r, i))
                if results[i] != expected[i]:
                    ctx.fail({"kind": "threads", "task": t[0], "t1": repr(t[1]), "t2": repr(t[2]), "cache_size": t[3], "cache_tuning_sample_size": t[4],
                              "threads": nthreads, "alone": str(expected[i])[:400], "concurrent": str(results[i])[:400]},
                             "a %s computation gave a different result when run concurrently with others" % t[0])
            if errs:
                ctx.fail({"kind": "threads", "errors": errs[:3]}, "a worker thread raised: " + errs[0])
            ctx.count("threads:tasks", len(tasks))
        ctx.note("threaded", {"rounds": rounds, "threads": nthreads, "tasks_per_round": ntasks, "switch_interval": 1e-6})
    finally:
        sys.setswitchinterval(old)


def rows_job(seed):
    """private data full of equal, unhashable sub-lists ("rows"): their prepared strings are digested again and again,
    back to back - what a racy memo inside the default hasher needs"""
    rnd = random.Random(seed)
    rows = []
    for _ in range(6):
        row = [rnd.randrange(1000) for _ in range(4)]
        rows.extend([list(row) for _ in range(3)])
    rnd.shuffle(rows)
    t1 = [list(r) for r in rows]
    t2 = [list(r) for r in rows]
    rnd.shuffle(t2)
    t2[0] = t2[0][:-1] + [t2[0][-1] + 1]
    return t1, t2


def rows_compute(job, kind):
    from deepdiff import DeepDiff, DeepHash, Delta
    t1, t2 = job
    try:
        if kind == 0:
            h = DeepHash(t1)
            return repr((h[t1], tuple(h[row] for row in t1)))
        if kind == 1:
            return repr(DeepDiff(t1, t2, ignore_order=True, report_repetition=True, cache_size=7).to_dict())
        if kind == 2:
            h = DeepHash(t2, ignore_repetition=False)
            return repr(h[t2]) + repr(DeepDiff(t1, t2, ignore_order=True).to_dict())
        d = Delta(DeepDiff(t1, t2, ignore_order=True, report_repetition=True), raise_errors=False, log_errors=False)
        return typed(copy.deepcopy(t1) + d)
    except Exception as e:  # noqa
        return "EXC " + repr(e)


def threaded_rows(ctx, rounds, nthreads=12, per_thread=4):
    """every thread hashes / diffs / patches its OWN data at the same time as the others (barrier start, switch interval
    1e-6); each result must be the one obtained alone"""
    seeds = [ctx.rng.randrange(1 << 30) for _ in range(nthreads * per_thread)]
    jobs = [(rows_job(sd), i % 4) for i, sd in enumerate(seeds)]
    old = sys.getswitchinterval()
    alone = [rows_compute(j, k) for j, k in jobs]
    again = [rows_compute(j, k) for j, k in jobs]
    for i, (a, b) in enumerate(zip(alone, again)):
        if a != b:
            ctx.fail({"kind": "repeat_rows", "seed": seeds[i], "computation": jobs[i][1]}, "two identical sequential runs gave different results")
    bad = []
    try:
        sys.setswitchinterval(1e-6)
        for r in range(rounds):
            order = list(range(len(jobs)))
            ctx.rng.shuffle(order)
            barrier = threading.Barrier(nthreads)
            got = [None] * len(jobs)

            def work(idx):
                barrier.wait()
                for i in idx:
                    got[i] = rows_compute(*jobs[i])
            ts = [threading.Thread(target=work, args=(order[k::nthreads],)) for k in range(nthreads)]
            for t in ts:
                t.start()
            for t in ts:
                t.join()
            for i in range(len(jobs)):
                ctx.seen(("rows", r, i))
                if got[i] != alone[i]:
                    bad.append((r, i, got[i]))
            if bad:
                break
    finally:
        sys.setswitchinterval(old)
    ctx.count("threads:rows_tasks", len(jobs) * (r + 1))
    for r, i, g in bad[:3]:
        t1, t2 = jobs[i][0]
        ctx.fail({"kind": "threads_rows", "round": r, "seed": seeds[i], "computation": ["DeepHash", "DeepDiff(ignore_order, report_repetition, cache_size=7)", "DeepHash+DeepDiff(ignore_order)", "Delta"][jobs[i][1]],
                  "t1": repr(t1), "t2": repr(t2), "threads": nthreads, "alone": alone[i][:300], "concurrent": str(g)[:300]},
                 "a computation on private data gave a different result when %d threads computed at the same time" % nthreads)


def delta_parked(ctx):
    """deterministic interleaving: thread A is parked in the middle of `t1 + delta` (inside the item
    assignment of a list subclass) while an unrelated Delta is applied from start to end in this thread"""
    from deepdiff import DeepDiff, Delta
    reached, go_on = threading.Event(), threading.Event()

    class SlowList(list):
        def __setitem__(self, index, value):
            reached.set()
            go_on.wait(20)
            super().__setitem__(index, value)
    case = {"kind": "threads_delta_parked", "t1": "{'a': (1, 2, 3), 'b': SlowList([1, 2, 3])}", "t2": "{'a': (1, 2, 30), 'b': SlowList([1, 20, 3])}",
            "other": "[1, 2] + Delta(DeepDiff([1, 2], [1, 3])) applied while the first is parked in b.__setitem__"}
    try:
        a1 = {'a': (1, 2, 3), 'b': SlowList([1, 2, 3])}
        a2 = {'a': (1, 2, 30), 'b': SlowList([1, 20, 3])}
        delta_a = Delta(DeepDiff(a1, a2))
        go_on.set()
        alone = typed(a1 + delta_a)
        go_on.clear()
        reached.clear()
        out = {}

        def work():
            try:
                out['a'] = typed(a1 + delta_a)
            except Exception as e:  # noqa
                out['a'] = "EXC " + repr(e)
        th = threading.Thread(target=work)
        th.start()
        ok = reached.wait(20)
        other = typed([1, 2] + Delta(DeepDiff([1, 2], [1, 3])))
        go_on.set()
        th.join(30)
        ctx.seen(("threads_delta_parked",))
        if not ok:
            ctx.note("delta_parked", "thread A never reached the item assignment (Delta no longer assigns through __setitem__): interleaving not exercised")
            return
        if out.get('a') != alone or other != typed([1, 3]):
            ctx.fail(dict(case, alone=alone, interleaved=out.get('a'), other_result=other),
                     "a Delta application interleaved with another Delta application gave %s instead of %s" % (out.get('a'), alone))
        ctx.note("delta_parked", "exercised")
    except Exception as e:  # noqa
        go_on.set()
        ctx.fail(dict(case, raised=repr(e)), "Delta application raised in the interleaving scenario: " + repr(e))


# ---------------------------------------------------------------------------
# source tie (DESIGN.md section 4.5): diff.py's caching glue regenerated from the current source
# ---------------------------------------------------------------------------

SOURCE_TIES = [{
    "name": "cacheglue", "translator": "cacheglue", "gen_module": "CacheGen", "equiv": ["CacheGenEquiv"],
    "needs": ["DiffIO.MemoSrcPrims", "DiffIO.MemoStepProofs", "DiffIO.MemoGlue", "DiffIO.MemoKeys", "DiffIO.MemoPairsProofs"],
    "sources": ["deepdiff/diff.py", "deepdiff/deephash.py"],
    "fragment": "deephash.combine_hashes_lists; DeepDiff._get_distance_cache_key, _get_rough_distance_of_hashed_objs, the cache-related statements of "
                "_get_most_in_common_pairs_in_iterables (the pairs computation in between is one oracle call), _auto_off_cache, _auto_tune_cache, and the "
                "statements of __init__ that create the cache / the flag / the re-enabling period and that check / apply cache_purge_level (pinned text) "
                "(the nested DeepDiff and sha256hex are oracles)"}]

TIE_HEADER = ("From DD Require Import Base.PyStr Lfu.LfuModel DiffIO.MemoModel DiffIO.MemoKeys DiffIO.MemoSrcPrims DiffIO.MemoGlue DiffIO.MemoPairs DiffIO.MemoPairsProofs.\n"
              "From DDGen Require Import CacheGen.\nLocal Open Scope Z_scope.\n"
              "(* concrete oracles: a hash is its rank among the hashes of the run (so > and sorted are the real ones), str / bytes of a hash are 3 digits,\n"
              "   sha256hex is the identity, the two key enumerations are injective and disjoint *)\n"
              "Definition hstr (h : Z) : pystr := p_of_Z (100 + h).\n"
              "Definition enc (s : pystr) : Z := fold_left (fun acc c => acc * 257 + Z.of_N c + 1) s 0.\n"
              "Definition kob (s : pystr) : key := 2 * enc s.\nDefinition kos (s : pystr) : key := 2 * enc s + 1.\n"
              "Definition idh (s : pystr) : pystr := s.\n"
              "Definition hdk : Z -> Z -> key := skey Z (okey_text Z hstr kob) Z.gtb.\n"
              "Definition hpk (l l' : list Z) : key := pk_text Z kos hstr idh (s2p \"pairs_cache\") (zsort l) (zsort l').\n"
              "Definition gdk : Z -> Z -> key := g__get_distance_cache_key Z Z.gtb hstr kob.\n"
              "Definition gpk (l l' : list Z) : key := g_combine_hashes_lists Z zsort hstr idh kos [l; l'] (s2p \"pairs_cache\").\n"
              "Definition sch (m : nat) (n : nat) : bool := match m with O => true | S _ => negb (Nat.eqb (Nat.modulo n (S m)) m) end.\n"
              "Definition show_st (s : mstate Z) : sx := SL [sx_nat (mclock s); SL (map (fun b => SL [sx_nat (freq b); SL (map (fun kv => SL [SZ (fst kv); SZ (snd kv)]) (items b))]) (buckets (mcache s)))].\n"
              "Definition show_res (r : Z * mstate Z) : sx := SL [SZ (fst r); show_st (snd r)].\n"
              "Definition gfd (m : nat) (a r : Z) (body : mstate Z -> Z * mstate Z) := g__get_rough_distance_of_hashed_objs Z Z unit unit (sch m) Z.gtb hstr kob (fun _ _ _ => body) a r tt tt tt.\n"
              "Definition gfp (m : nat) (l l' : list Z) (body : mstate Z -> Z * mstate Z) := g__get_most_in_common_pairs_in_iterables Z Z unit unit unit (sch m) zsort hstr idh kos (-1) (fun _ _ _ _ _ _ => body) l l' tt tt tt tt.\n"
              "Definition grun (m cap : nat) (p : hprog Z Z) : sx := show_res (hrun Z Z (gfd m) (gfp m) p (mkM (empty cap) 0)).\n"
              "Definition hrun_ (m cap : nat) (p : hprog Z Z) : sx := show_res (fst (run_cached (sch m) (to_prog Z Z hdk hpk p) (mkM (empty cap) 0))).\n"
              "Definition show_t (o : option tstats) : sx := match o with None => SA \"ZeroDivisionError\" | Some t => SL [SZ (st_diff_count t); SZ (st_hit_count t); SZ (st_prev_diff_count t); SZ (st_prev_hit_count t); sx_bool (st_enabled t); SZ (st_enable_every t)] end.")
TIE_STATE = {"found": []}


def _tie_diff(ctx, name, pairs, shard=150):
    """pairs: [(sx term over the REGENERATED definitions, sx term over the hand model)], evaluated inside Coq (vm_compute, scratch/srctie on the
    load path as DDGen); returns (indices on which the two differ, errors)"""
    import os
    import re
    from concurrent.futures import ThreadPoolExecutor
    if not pairs:
        return [], []
    ctx.ensure_built(TIE_HEADER)
    gen_dir = os.path.join(ctx.scratch, "srctie")
    files = []
    for k in range(0, len(pairs), shard):
        fn = os.path.join(ctx.scratch, "tie_%s_%d.v" % (name, k // shard))
        with open(fn, "w") as f:
            f.write("From Coq Require Import List String ZArith NArith Bool Arith.\nImport ListNotations.\nFrom DD Require Import Base.Sx.\n")
            f.write(TIE_HEADER + "\nLocal Open Scope string_scope.\nDefinition cases : list (sx * sx) := [\n")
            f.write(";\n".join("(%s,\n %s)" % (g, h) for (g, h) in pairs[k:k + shard]))
            f.write("\n].\nEval vm_compute in run_cases cases.\n")
        files.append(fn)

    def one(fn):
        return core.sh(["coqc", "-Q", core.THEORIES, "DD", "-Q", gen_dir, "DDGen", fn], timeout=900, cwd=ctx.scratch)
    with ThreadPoolExecutor(max_workers=core.NCPU) as ex:
        results = list(ex.map(one, files))
    bad, errors = [], []
    for k, (rc, out) in enumerate(results):
        m = re.search(r'"BEGIN\n(.*)END"', out, re.S)
        if rc != 0 or not m:
            errors.append("%s shard %d: %s" % (name, k, out[-400:]))
            continue
        for line in m.group(1).splitlines():
            if line.strip():
                bad.append(k * shard + int(line.partition("\t")[0]))
    return sorted(bad), errors


def hprog_of(nodes, hid, vid, final="HRet 0"):
    """the recorded call tree of the cache-less run as a term of type MemoGlue.hprog Z Z: every call is given by the HASHES the method received
    (ranks), its body by the nested calls and the recorded value; the keys are computed by whoever evaluates it"""
    term = final
    for n in reversed(nodes):
        body = hprog_of(n["children"], hid, vid, "HRet %d" % vid[n["value"]])
        if n["kind"] == "d":
            term = "HDist %d %d (%s) (fun _ => %s)" % (hid[n["a"]], hid[n["r"]], body, term)
        else:
            term = "HPairs %s %s (%s) (fun _ => %s)" % (zlist(hid[h] for h in n["adds"]), zlist(hid[h] for h in n["rems"]), body, term)
    return term


def _tie_inputs(ctx):
    rng = random.Random(ctx.seed ^ 0xC17)
    ins = [K17_WITNESS + ("k17-witness",), K28_WITNESS + ("k28-witness",)]
    ins += [planted(rng, small=True) + ("planted-small",) for _ in range(10)]
    ins += [planted(rng) + ("planted",) for _ in range(2)]
    return ins


def on_source_tie_break(ctx, name, rec):
    """The glue regenerated from the current diff.py / deephash.py is no longer proved equal to the hand model (or the translator rejected the
    source).  If it compiled: evaluate generated vs hand-written key functions, memoised methods (on the call trees RECORDED from real cache-less
    runs, replayed at several capacities and enable schedules) and tuner inside Coq; every input whose tree shows a difference is then judged like
    any generated case: the call-by-call correspondence (hand model vs the real cached runs) and the direct oracle (cache on vs cache off, all
    settings).  Returns what was searched; run() escalates the streams over the fragment whatever the outcome."""
    import os
    status = rec.get("status")
    if not os.path.exists(os.path.join(ctx.scratch, "srctie", "CacheGen.vo")):
        return {"differencing": "none: no generated model to evaluate (%s); correspondence / settings grid / tuning streams run at thorough size instead" % status,
                "detail": str(rec.get("detail", ""))[:300]}
    report = {"differencing": {}, "errors": []}
    # ---- the key functions on a grid of hashes ------------------------------------------------------------------------------
    hs = range(0, 5)
    kp = [(a, r) for a in hs for r in hs]
    bad, err = _tie_diff(ctx, "dkey", [("SZ (gdk %d %d)" % ar, "SZ (hdk %d %d)" % ar) for ar in kp])
    report["errors"] += err
    report["differencing"]["_get_distance_cache_key"] = {"arguments": len(kp), "differ": len(bad), "first": [repr(kp[i]) for i in bad[:3]]}
    key_diff = bool(bad)
    import itertools
    ls = [list(p) for n in (0, 1, 2, 3) for p in itertools.permutations((1, 2, 3), n)]
    lp = [(l, l2) for l in ls for l2 in ls]
    bad, err = _tie_diff(ctx, "pkey", [("SZ (gpk %s %s)" % (zlist(l), zlist(l2)), "SZ (hpk %s %s)" % (zlist(l), zlist(l2))) for l, l2 in lp], shard=300)
    report["errors"] += err
    report["differencing"]["combine_hashes_lists"] = {"arguments": len(lp), "differ": len(bad), "first": [repr(lp[i]) for i in bad[:3]]}
    key_diff = key_diff or bool(bad)
    # ---- the tuner on a grid of counters ---------------------------------------------------------------------------------------
    ts = [(d, h, pd, ph, en, ev) for d in (0, 1, 4, 8, 10, 20) for h in (0, 1, 2, 3, 5) for pd in (0, 4, 8) for ph in (0, 1, 4) for en in (True, False)
          for ev in (0, 10, 20)]
    mk = lambda t: "(mkT %d %d %d %d %s %d)" % (t[0], t[1], t[2], t[3], "true" if t[4] else "false", t[5])   # noqa: E731
    tp = [(n, t) for t in ts for n in (0, 1, 2, 10)]
    bad, err = _tie_diff(ctx, "tuner", [("SL [show_t (g__auto_tune_cache %d %s); show_t (g__auto_off_cache %s)]" % (n, mk(t), mk(t)),
                                          "SL [show_t (auto_tune %d %s); show_t (auto_off %s)]" % (n, mk(t), mk(t))) for n, t in tp], shard=400)
    report["errors"] += err
    report["differencing"]["_auto_tune_cache/_auto_off_cache"] = {
        "arguments": len(tp), "differ": len(bad),
        "first": ["cache_tuning_sample_size=%d (DIFF_COUNT, HIT_COUNT, PREVIOUS_DIFF_COUNT, PREVIOUS_HIT_COUNT, ENABLED, ENABLE_EVERY)=%r" % tp[i] for i in bad[:3]]}
    tuner_diff = bool(bad)
    # ---- the memoised methods on recorded call trees ---------------------------------------------------------------------------
    inputs = _tie_inputs(ctx)
    cases, owner = [], []
    install_recorder()
    for idx, (a, b, kind) in enumerate(inputs):
        try:
            base, pure, _ev = record_run(a, b)
        except Exception as e:  # noqa
            report["errors"].append("recording %s raised %r" % (kind, e))
            continue
        flat = flatten(pure)
        if isinstance(base, str) or not flat or len(flat) > 400 or not all(("a" in n) if n["kind"] == "d" else ("adds" in n) for n in flat):
            continue
        hashes = sorted({h for n in flat for h in ([n["a"], n["r"]] if n["kind"] == "d" else list(n["adds"]) + list(n["rems"]))})
        if len(hashes) > 800:
            continue
        hid = {h: i for i, h in enumerate(hashes)}
        vid = {}
        for n in flat:
            vid.setdefault(n["value"], len(vid) + 1)
        hp = hprog_of(pure, hid, vid)
        for m, cap in ((0, 5000), (0, 2), (0, 1), (2, 7), (1, 3)):
            cases.append(("grun %d %d (%s)" % (m, cap, hp), "hrun_ %d %d (%s)" % (m, cap, hp)))
            owner.append((idx, m, cap))
    bad, err = _tie_diff(ctx, "trees", cases, shard=10)
    report["errors"] += err
    differing = sorted({owner[i][0] for i in bad})
    report["differencing"]["memoised methods on recorded call trees"] = {
        "trees": len(cases) // 5, "evaluations": len(cases), "differ": len(bad),
        "first": [{"shape": inputs[owner[i][0]][2], "t1": repr(inputs[owner[i][0]][0])[:300], "t2": repr(inputs[owner[i][0]][1])[:300],
                   "schedule_period": owner[i][1], "capacity": owner[i][2]} for i in bad[:2]]}
    if not (differing or key_diff or tuner_diff):
        report["result"] = ("the generated and the hand-written glue agree on every argument searched (the proof broke on a syntactic change); "
                            "streams escalated to thorough size")
        return report
    # ---- judge the inputs like generated cases ------------------------------------------------------------------------------------
    judged = [inputs[i] for i in differing[:6]]
    if not judged:   # a difference in a key function / the tuner that no recorded tree reaches: the witnesses and the planted shapes
        judged = inputs[:6]
    TIE_STATE["found"] = judged
    nf, nb = len(ctx.failures), len(ctx.breaks)
    replay_witnesses(ctx)
    with mp.get_context("fork").Pool(core.NCPU) as pool:
        correspondence(ctx, [x for x in judged if x[2] != "k28-witness"], pool)
        oracle_grid(ctx, judged, pool, full=True)
        if tuner_diff:
            oracle_tuning(ctx, pool, 150)
    report["judged"] = {"inputs": [{"shape": k, "t1": repr(a)[:200], "t2": repr(b)[:200]} for a, b, k in judged],
                        "oracle_failures": len(ctx.failures) - nf, "correspondence_or_witness_breaks": len(ctx.breaks) - nb}
    if len(ctx.failures) == nf and len(ctx.breaks) == nb:
        report["result"] = ("the generated glue differs from the hand model on these inputs' call trees, but the implementation shows neither a result that "
                            "depends on the cache settings nor a cache event the hand model mispredicts")
    return report


def run(ctx):
    rng = ctx.rng
    sys.setrecursionlimit(10000)
    # a broken source tie (the glue regenerated from the current diff.py is not proved equal to the hand model): the streams that exercise the
    # translated fragment (correspondence of the recorded cache events, settings grid, splits, tuning) run at thorough size even in the quick tier
    big = ctx.thorough or ctx.tie_broken("cacheglue")
    if big and not ctx.thorough:
        ctx.note("escalated_by_source_tie", "correspondence / settings grid / tuning streams at thorough size")
    n_pl = 40 if big else 4
    n_ot = 60 if big else 6
    inputs = gen_inputs(rng, n_pl, n_ot)
    replay_witnesses(ctx)
    inputs.append(K17_WITNESS + ("k17-witness",))
    for a, b, kind in inputs[:2] + inputs[n_pl:n_pl + 1]:
        ctx.sample({"t1": repr(a)[:400], "t2": repr(b)[:400], "shape": kind})
    import time
    tm = {}
    t0 = time.time()
    with mp.get_context("fork").Pool(core.NCPU) as pool:
        smalls = [planted(rng, small=True) + ("planted-small",) for _ in range(12 if big else 3)]
        for _ in range(6 if big else 1):
            # two cache-using children under one dict whose key order differs between t1 and t2: the cache state
            # must flow through them in the order of t2's keys
            (a1, b1), (a2, b2) = planted(rng, small=True), planted(rng, small=True)
            if isinstance(a1, list) and isinstance(a2, list):
                smalls.append(({"p": a1, "q": a2, "n": 1}, {"q": b2, "n": 1, "p": b1}, "planted-small"))
        correspondence(ctx, smalls + inputs[: (n_pl + 10 if big else n_pl + 2)] + [inputs[-1]], pool)
        tm["correspondence"] = round(time.time() - t0, 1)
        t0 = time.time()
        oracle_grid(ctx, inputs, pool, full=big)
        oracle_splits(ctx, pool)
        oracle_tuning(ctx, pool, 150 if big else 48)
        tm["grid"] = round(time.time() - t0, 1)
        t0 = time.time()
        oracle_hashes(ctx, pool, core.NCPU, 12 if ctx.thorough else 3, 6 if ctx.thorough else 2)
        oracle_sessions(ctx, pool, 150 if ctx.thorough else 18)
        tm["hashes"] = round(time.time() - t0, 1)
    t0 = time.time()
    delta_parked(ctx)
    threaded(ctx, 8 if ctx.thorough else 3, 12, 120 if ctx.thorough else 48)
    threaded_rows(ctx, 60 if ctx.thorough else 20, per_thread=6)
    tm["threads"] = round(time.time() - t0, 1)
    ctx.note("phase_wall_s", tm)


def replay(ctx, data):
    case = data.get("case", {})
    if case.get("kind") == "hashes_inplace":
        probs = inplace_case(case["t1"], case["t2"], [tuple(e) for e in case["edits"]], case["ignore_order"], case["report_repetition"])
        ctx.evaluations += 1
        print("replay: hashes_inplace ->", probs or "results agree")
        if probs:
            ctx.fail(case, "passing a previously used hashes table changes the result: " + probs[0])
        return
    if case.get("kind") == "hashes_session":
        seq = [tuple(q) for q in case["sequence"]]
        _seq, shared, alone, _expr, _raised, nstale, _n = _session_task((seq, 0.33))
        ctx.evaluations += 1
        bad = [i for i, (x, y) in enumerate(zip(shared, alone)) if x != y]
        print("replay: hashes_session -> runs that differ from the run alone:", bad or "none", "stale id reads:", nstale)
        if bad and len({q[2] for q in seq}) == 1:
            ctx.fail(case, "run #%d of a session passing one hashes table differs from the run alone" % bad[0])
        return
    if case.get("kind") == "hashes_temporaries":
        for _ in range(5):      # id recycling is up to the allocator: a few attempts
            probs, at = temporaries_case([tuple(x) for x in case["sequence"]], case["ignore_order"], case["report_repetition"])
            ctx.evaluations += 1
            if probs:
                break
        print("replay: hashes_temporaries ->", probs or "results agree")
        if probs:
            ctx.fail(case, "passing a previously used hashes table changes the result: " + probs[0])
        return
    if case.get("kind") == "threads_delta_parked":
        delta_parked(ctx)
        print("replay: threads_delta_parked ->", "failed" if ctx.failures else "results agree")
        return
    if case.get("kind") == "threads_rows":
        threaded_rows(ctx, 20)
        print("replay: threaded rows stress re-run ->", "failed" if ctx.failures else "results agree")
        return
    if case.get("kind") == "threads":
        threaded(ctx, 6, 12, 96)
        print("replay: threaded stress re-run ->", "failed" if ctx.failures else "results agree")
        return
    if "t1" not in case or case.get("kind") not in ("settings", "repeat", "hashes"):
        return run(ctx)
    t1r, t2r = case["t1"], case["t2"]
    io, rep = case.get("ignore_order", True), case.get("report_repetition", False)
    if case["kind"] == "settings":
        st = [(case["cache_size"], case["cache_tuning_sample_size"], case.get("cache_purge_level", 1))]
    else:
        st = [(0, 0, 1)]
    res = _grid_task((t1r, t2r, io, rep, st))
    _t1, _t2, _io, _rep, out, rep_ok, hashes_ok, detail, hits, evictions, lookups, n0 = res
    ctx.evaluations += 1
    print("replay: %s -> settings_equal=%r repeat_equal=%r hashes_equal=%r (%s) hits=%d evictions=%d" % (
        case["kind"], [x[1] for x in out], rep_ok, hashes_ok, detail, hits, evictions))
    for (cs, tune, purge), same, exc, extra in out:
        if not same:
            ctx.fail(dict(case, extra_knobs=extra), "the result with cache_size=%r cache_tuning_sample_size=%r cache_purge_level=%r differs from the result without cache" % (cs, tune, purge))
    if not rep_ok:
        ctx.fail(case, "two identical runs gave different results")
    if not hashes_ok:
        ctx.fail(case, "passing a previously used hashes table changes the result: " + str(detail))

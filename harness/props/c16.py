"""C16 - DeepSearch reports exactly the matching locations.

proof:           coq/theories/Search/{SearchModel,SearchSpec,SearchProofs,SearchExtract,SearchExtractObj,SearchObjects}.v, Properties/C16.v
correspondence:  DeepSearch(obj, item, **mode) on generated nested objects x items x modes,
                 compared IN FULL (matched_paths / matched_values in the implementation's
                 own insertion order, with values at verbose_level 2, the `unprocessed` list, or `raise` for a
                 TypeError) with the Gallina model evaluated inside Coq.  The regular
                 expression engine, str.lower() on non-ASCII text, str(bytes) and str(compiled pattern) enter
                 the model as oracle tables computed here with Python's `re` / `str`.
                 Named tuples (tuples: inside the property's quantifier) run in the property's own streams; class
                 instances (__dict__, __slots__, class attributes, bound methods) and objects whose attributes cannot be
                 read (`unprocessed`) run as the extension stream "Obj" (core.Ctx.extension: same model and theorems,
                 recorded in the evidence file, never a violation: the property's text does not speak about them).
                 Number-like leaves outside the half-integers (every float, Decimal; dates in the Obj stream) enter the model
                 with their exact text str(obj); invalid regular expressions give the third outcome `reerror`; cyclic
                 objects (a list / dict / instance holding itself or an ancestor) run as extension stream "Cyclic" with
                 atom items: the model gets the tree with XRef at the back references.
source tie:      harness/translate/searchdispatch.py regenerates a Gallina model of DeepSearch.__init__ / __report / __skip_this /
                 __search* from /repo's current search.py on every run (coq/srctie/SearchGen.v); coq/srctie/SearchGenEquiv.v proves
                 it equal to the hand model for all arguments and transfers the main theorems (Search/NOTES_srctie.md).  When the
                 tie is not intact: on_source_tie_break evaluates generated vs hand model inside Coq on ~3 900 inputs and feeds the
                 differing ones to the case machinery below; the streams run at thorough size.
grep front end:  ONE grep(item, **options) instance used with | two or three times (same / different objects);
                 every use must equal DeepSearch(obj, item, **options) and the model (a pure function).
direct oracle:   an independent reference search written from the documentation (enumerate
                 every location with its ancestors, filter by exclusion and by the matching
                 mode; case folding = str.lower() of the item and of the searched text alike), `deepdiff.extract`
                 on every reported path, comparison of the searched object before / after.
inputs:          about 10 % of the objects hold ONE container at two positions (shared sub-object; the model gets the
                 unfolded tree; failing cases carry a pickle so that the replay rebuilds the sharing); the exclusion
                 arguments are passed as list / tuple / set / frozenset and with a pre-compiled first regex; the item may be
                 a pre-compiled pattern (with flags); verbose_level in {0,1,2,3}; strings include characters on which
                 lower() / casefold() / upper().lower() differ (sharp s, final sigma, dotted capital I, ligatures).
"""
import ast
import base64
import copy
import datetime
import itertools
import logging
import pickle
import re
import reprlib
from collections import namedtuple
from decimal import Decimal

from harness import core
from harness import values as V

THEOREM_FILE = "Properties/C16.v"
COQCHK = ["Properties.C16"]
RULE = ("random nested objects (dict/list/tuple/named tuple/set/frozenset/str (ASCII and non-ASCII case pairs)/int/bool/half-integer "
        "float/None, a few bytes; depth<=4; a shared sub-container in about 9 % of the cases; extension stream: class instances, "
        "bound methods, unreadable objects) x items "
        "drawn from the object's own leaves, substrings of its strings, its keys, its path texts, absent values, numbers as text, "
        "regular expressions (str, bytes, pre-compiled with flags) x case_sensitive x match_string x use_regexp x strict_checking x "
        "verbose_level{0,1,2,3} x exclude_paths/exclude_regex_paths/exclude_types (as list/tuple/set/frozenset/pre-compiled); thorough adds an exhaustive small universe; a case is non-trivial when "
        "something is reported or the constructor raises; distinct = distinct (object, item, options)")
TRUSTED = ["regular expressions (the compiled item and exclude_regex_paths), str(bytes) and str(compiled pattern) are oracles: "
           "Section variables of the Coq development, fed at run time with truth tables computed by Python",
           "str.lower() is an oracle too (Section variable on whole strings: Unicode lower-casing is context dependent); the harness "
           "sends Python's answer for every str of the case on which it differs from the ASCII rule; bytes.lower() is the ASCII rule",
           "the attribute list of an instance ([(n, getattr(obj, n)) for n in dir(obj) if not dunder]) is an input of the model; the "
           "harness computes it from the class definitions of its own test classes (sorted names), not with dir()",
           "str(obj) of a float outside the half-integers / Decimal / date / datetime / timedelta and the universe number it is == to are "
           "inputs of the model computed by Python; re_ok (re.compile accepts the lower-cased item) is an oracle",
           "ip ranges, numpy, user classes with __eq__ / __iter__ / __getattr__ / sub-classes are outside the universe; cyclic objects "
           "are modelled for atom items only (XRef = a child that is one of its own ancestors); shared sub-objects are unfolded",
           "source tie `searchdispatch` (second tie, in addition to the correspondence): the ast->Gallina translator "
           "harness/translate/searchdispatch.py with its encoding rules E1-E9 / skip rules S1-S4 and the Python primitives of "
           "Search/SearchStmt.v (isinstance on the model's universes, ==, in, %-formatting, d[k], ...) are trusted for the translated "
           "methods of DeepSearch only; coq/srctie/SearchGenEquiv.v (generated = hand model, all arguments) is re-checked on every run"]
ASSUMPTIONS = ["floats as dictionary keys / set members / ITEMS are half-integers of small magnitude; as searched leaves any float",
               "the item is a value of the shared universe (atom or plain container) or a pre-compiled pattern",
               "container items are searched in tree shaped objects only (cyclic objects: atom items)"]

# ---------------------------------------------------------------------------
# class instances, named tuples, objects whose attributes cannot be read (Coq: XObj / XNamed / XOpaque)
# (no non-dunder helper methods: dir() would list them and the search would report them)
# ---------------------------------------------------------------------------

@reprlib.recursive_repr()
def _inst_repr(self):
    return "%s(**%r)" % (type(self).__name__, _inst_state(self))


def _inst_state(x):
    if hasattr(type(x), "__slots__"):
        return {n: getattr(x, n) for n in type(x).__slots__ if hasattr(x, n)}
    return dict(vars(x))


class A:
    """a plain instance: its attributes live in __dict__"""
    def __init__(self, **kw):
        self.__dict__.update(kw)
    __repr__ = _inst_repr


class B:
    """a second class (for exclude_types)"""
    def __init__(self, **kw):
        self.__dict__.update(kw)
    __repr__ = _inst_repr


class M:
    """an instance whose class has a class attribute and a method: dir() lists both"""
    cv = "cv1"

    def ameth(self):
        return None

    def __init__(self, **kw):
        self.__dict__.update(kw)
    __repr__ = _inst_repr


class S:
    """__slots__, no __dict__; an unset slot makes getattr raise AttributeError: the object is `unprocessed`"""
    __slots__ = ("b", "a", "c")

    def __init__(self, **kw):
        for k, v in kw.items():
            setattr(self, k, v)
    __repr__ = _inst_repr


class E:
    """a property that raises AttributeError: `unprocessed`"""
    ok = "val"

    @property
    def bad(self):
        raise AttributeError("bad")

    def __init__(self, **kw):
        self.__dict__.update(kw)
    __repr__ = _inst_repr


P = namedtuple("P", "x y")
R = namedtuple("R", "name val more")
CLASSES = {"A": A, "B": B, "M": M, "S": S, "E": E}
NAMED = {"P": P, "R": R}
CLASS_ATTRS = {M: ("cv", "ameth"), E: ("ok", "bad")}
ATTR_NAMES = ["a", "b", "c", "x", "ab", "A", "k1", "name", "val", "_p", "__q", "a1", "none", "root", "__d__", "ſa", "İb"]


# ---------------------------------------------------------------------------
# number-like leaves outside the atom universe (Coq: XNum type value text): every other float (0.1, 1e-07, 1e+16, nan,
# inf, -0.0), Decimal, date / datetime / timedelta - `isinstance(obj, numbers)` in deepdiff: compared with == and, in
# loose mode, through str(obj)
# ---------------------------------------------------------------------------
XFLOATS = [0.1, 1e-07, 1e+16, 1.25, -0.0, float("inf"), float("nan"), 123456.789, 1e+22, 2.5e-05, 3e+16]
XDECIMALS = [Decimal("1.5"), Decimal("1E+3"), Decimal("0.10"), Decimal("2"), Decimal("-0.5"), Decimal("1.50"), Decimal("NaN")]
XDATES = [datetime.date(2024, 1, 2), datetime.datetime(2024, 1, 2, 3, 4), datetime.datetime(2024, 1, 2), datetime.timedelta(days=1, seconds=5),
          datetime.timedelta(0)]
XNUM_TYPES = (Decimal, datetime.date, datetime.timedelta)


def universe_float(x):
    t = x * 2
    return x == x and abs(x) < 1e15 and t == int(t) and not (x == 0 and str(x).startswith("-"))


def is_xnum(v):
    return isinstance(v, XNUM_TYPES) or (isinstance(v, float) and not universe_float(v))


def xnum_value(v):
    """the number of the universe that v is == to (None when there is none)"""
    if isinstance(v, (float, Decimal)) and v == v and abs(v) != float("inf"):
        if v == int(v):
            return int(v)
        if v * 2 == int(v * 2) and abs(v) < 1e15:
            return float(v)
    return None


def xnum_coq(v):
    ty = "(TyB TFloat)" if isinstance(v, float) else "(TyObj %s)" % core.coq_pystr(type(v).__name__)
    val = xnum_value(v)
    return "(XNum %s %s %s)" % (ty, "None" if val is None else "(Some %s)" % V.atom_to_coq(val), core.coq_pystr(str(v)))


# ---------------------------------------------------------------------------
# cyclic objects: an edge parent -> child is a BACK reference when the child is one of the parent's ancestors (or the
# parent itself) on the path from the searched root.  BACK holds those edges for the object of the current case
# (Coq: XRef); the model, the canonical forms and the reference search stop there.
# ---------------------------------------------------------------------------
BACK = set()


class _Ref:
    def __repr__(self):
        return "<back reference>"


REF = _Ref()


def kids(v):
    """[(kind, key, child)] of a container / instance as the search enumerates them"""
    if is_opaque(v) or is_xnum(v) or v is REF:
        return []
    if has_attrs(v):
        return [("a", n, x) for n, x in attr_items(v)]
    if isinstance(v, dict):
        return [("k", k, x) for k, x in v.items()]
    if isinstance(v, (list, tuple, set, frozenset)):
        return [("i", i, x) for i, x in enumerate(v)]
    return []


def kid(v, kind, key, x):
    return REF if BACK and (id(v), kind, key) in BACK else x


def find_back_edges(obj):
    out = set()

    def walk(v, anc):
        if isinstance(v, (list, dict, tuple)) or is_inst(v):
            anc = anc + (id(v),)
            for kind, key, x in kids(v):
                if id(x) in anc and (isinstance(x, (list, dict, tuple)) or is_inst(x)):
                    out.add((id(v), kind, key))
                else:
                    walk(x, anc)
    walk(obj, ())
    return out


def is_named(v):
    return isinstance(v, tuple) and hasattr(type(v), "_fields")


def is_opaque(v):
    return isinstance(v, E) or (isinstance(v, S) and any(not hasattr(v, n) for n in S.__slots__))


def is_inst(v):
    return isinstance(v, (A, B, M, S)) and not is_opaque(v)


def is_method(v):
    return callable(v) and not isinstance(v, type)


def dunder(n):
    return n.startswith("__") and n.endswith("__")


def attr_items(v):
    """[(name, value)] the search goes through, written from the class definitions above (not with dir()):
    the non-dunder names of the instance and of its class in sorted order; the fields of a named tuple"""
    if is_named(v):
        return [(f, getattr(v, f)) for f in v._fields]
    if is_method(v):
        return []
    names = set(_inst_state(v)) | set(CLASS_ATTRS.get(type(v), ()))
    return [(n, getattr(v, n)) for n in sorted(names) if not dunder(n)]


def has_attrs(v):
    return is_named(v) or is_inst(v) or is_method(v)


def is_seq(v):
    return isinstance(v, (list, tuple, set, frozenset)) and not is_named(v)


def xcoq(v):
    """Coq term of type xvalue"""
    if v is REF:
        return "XRef"
    if is_xnum(v):
        return xnum_coq(v)
    if is_opaque(v):
        return "(XOpaque %s)" % core.coq_pystr(type(v).__name__)
    if has_attrs(v):
        return "(%s %s [%s])" % ("XNamed" if is_named(v) else "XObj", core.coq_pystr("method" if is_method(v) else type(v).__name__),
                                 "; ".join("(%s, %s)" % (core.coq_pystr(n), xcoq(kid(v, "a", n, x))) for n, x in attr_items(v)))
    if isinstance(v, list):
        return "(XList [%s])" % "; ".join(xcoq(kid(v, "i", i, x)) for i, x in enumerate(v))
    if isinstance(v, tuple):
        return "(XTuple [%s])" % "; ".join(xcoq(kid(v, "i", i, x)) for i, x in enumerate(v))
    if isinstance(v, dict):
        return "(XDict [%s])" % "; ".join("(%s, %s)" % (V.atom_to_coq(k), xcoq(kid(v, "k", k, x))) for k, x in v.items())
    if isinstance(v, frozenset):
        return "(XFrozen [%s])" % "; ".join(V.atom_to_coq(x) for x in v)
    if isinstance(v, set):
        return "(XSet [%s])" % "; ".join(V.atom_to_coq(x) for x in v)
    return "(XAtom %s)" % V.atom_to_coq(v)


def xcanon(v, sort=False):
    """mirrors Coq's sx_xvalue (sort=True: dict / set order forgotten, for comparisons)"""
    if v is METHOD or is_method(v):
        return ["O", "method", []]
    if v is REF:
        return ["R"]
    if is_xnum(v):
        return ["X", str(v)]
    if is_opaque(v):
        return ["U", type(v).__name__] + ([sorted(([n, xcanon(x, True)] for n, x in _inst_state(v).items()), key=repr)] if sort else [])
    if has_attrs(v):
        return ["N" if is_named(v) else "O", type(v).__name__, [[n, xcanon(kid(v, "a", n, x), sort)] for n, x in attr_items(v)]]
    if isinstance(v, list):
        return ["L", [xcanon(kid(v, "i", i, x), sort) for i, x in enumerate(v)]]
    if isinstance(v, tuple):
        return ["T", [xcanon(kid(v, "i", i, x), sort) for i, x in enumerate(v)]]
    if isinstance(v, dict):
        items = [[V.canon_atom(k), xcanon(kid(v, "k", k, x), sort)] for k, x in v.items()]
        return ["D", sorted(items, key=repr) if sort else items]
    if isinstance(v, (set, frozenset)):
        items = [V.canon_atom(x) for x in v]
        return ["F" if isinstance(v, frozenset) else "S", sorted(items, key=repr) if sort else core.sx_sorted(items)]
    return V.canon_atom(v)


def xstate(v, anc=()):
    """everything the object holds (unreadable objects and dunder attributes included; cut where a container holds one of
    its own ancestors): the `object not modified` check"""
    if is_method(v):
        return "method"
    if is_xnum(v):
        return ["X", repr(v)]
    if id(v) in anc:
        return "R"
    if isinstance(v, (A, B, M, S, E)):
        return [type(v).__name__, sorted(([n, xstate(x, anc + (id(v),))] for n, x in _inst_state(v).items()), key=repr)]
    if is_named(v):
        return ["N", type(v).__name__, [xstate(x, anc + (id(v),)) for x in v]]
    if isinstance(v, (list, tuple)):
        return [type(v).__name__, [xstate(x, anc + (id(v),)) for x in v]]
    if isinstance(v, dict):
        return ["D", [[V.canon_atom(k), xstate(x, anc + (id(v),))] for k, x in v.items()]]
    return V.canon_sorted(v)


def xeq(a, b):
    return xcanon(a, True) == xcanon(b, True)


def has_objects(v):
    return any(has_attrs(w) or is_opaque(w) for _, w, _ in locations(v))


NUMS = (bool, int, float)
TYPES = {"str": str, "int": int, "float": float, "bool": bool, "list": list, "tuple": tuple, "dict": dict,
         "set": set, "frozenset": frozenset, "NoneType": type(None), "bytes": bytes,
         "A": A, "B": B, "M": M, "S": S, "E": E, "P": P, "R": R,
         "Decimal": Decimal, "datetime": datetime.datetime, "timedelta": datetime.timedelta}
COQ_TY = {"str": "TStr", "int": "TInt", "float": "TFloat", "bool": "TBool", "list": "TList", "tuple": "TTuple",
          "dict": "TDict", "set": "TSet", "frozenset": "TFrozen", "NoneType": "TNone", "bytes": "TBytes"}


def coq_xty(name):
    if name in COQ_TY:
        return "(TyB %s)" % COQ_TY[name]
    return "(%s %s)" % ("TyNamed" if name in NAMED else "TyObj", core.coq_pystr(name))
DEFECTS = ["K16", "K16b", "K16c", "K16e", "K16f", "K16h"]      # switches of the reference search
FINDINGS = DEFECTS + ["K16g"]
CONTAINERS = (list, tuple, dict, set, frozenset)


class _Method:
    def __repr__(self):
        return "<bound method>"


METHOD = _Method()


def attr_names(x):
    return [n for n in dir(x) if not (n.startswith("__") and n.endswith("__"))]


def cv(v):
    """canonical value; bound / builtin methods become the attribute-less instance of class 'method'"""
    return xcanon(v)


def cv_eq(a, b):
    return xeq(a, b)


def ascii_lower(s):
    if isinstance(s, bytes):
        return s.lower()
    return "".join(chr(ord(c) + 32) if "A" <= c <= "Z" else c for c in s)


# ---------------------------------------------------------------------------
# locations of an object (independent of deepdiff): steps are ('k', key) / ('i', n)
# ---------------------------------------------------------------------------

def step_text(s):
    kind, x = s
    if kind == "i":
        return "[%d]" % x
    if kind == "a":
        return ".%s" % x
    if isinstance(x, (str, bytes)):
        return "['%s']" % (x,)
    return "[%s]" % (x,)


def path_text(steps):
    return "root" + "".join(step_text(s) for s in steps)


def locations(obj):
    """steps: ('k', key) dictionary entry, ('i', n) position, ('a', name) attribute of an instance / field of a named tuple.
    [(steps, value, chain)] for every location, root included; chain is the list of
    (steps, value) of the location's ancestors followed by the location itself."""
    out = []

    def walk(v, steps, chain):
        chain = chain + [(steps, v)]
        out.append((steps, v, chain))
        for kind, key, x in kids(v):     # (nothing below an unreadable object, a number-like leaf, a back reference)
            walk(kid(v, kind, key, x), steps + ((kind, key),), chain)
    walk(obj, (), [])
    return out


# ---------------------------------------------------------------------------
# the reference search (documented behaviour); `emulate` switches known defects on
# ---------------------------------------------------------------------------

class RefRaise(Exception):
    pass


def ref_search(obj, item, kw, emulate=()):
    """Returns ('raise',) (TypeError), ('reerror',) (re.error) or ('ok', {path text: value} matched_paths, {path text: value} matched_values, [path text] unprocessed)."""
    E = set(emulate)
    cs_arg = kw.get("case_sensitive", False)
    ms = kw.get("match_string", False)
    rx = kw.get("use_regexp", False)
    strict = kw.get("strict_checking", True)
    ex_paths = set(kw.get("exclude_paths", ()))
    ex_rx = [re.compile(p) for p in kw.get("exclude_regex_paths", ())]
    ex_types = tuple(kw.get("exclude_types", ()))

    compiled = isinstance(item, re.Pattern)      # a pre-compiled pattern as the item (use_regexp=True): searched as it is
    if compiled and not rx:
        raise ValueError("a compiled pattern is an item only together with use_regexp=True")
    is_text_item = isinstance(item, (str, bytes))
    folding = is_text_item and not cs_arg
    fold = (lambda s: s.lower()) if folding else (lambda s: s)
    if is_text_item:
        needle = fold(item)
    elif compiled:
        needle = item.pattern
    elif isinstance(item, NUMS) and not strict:
        needle = str(item)
    else:
        needle = None                       # None, or a number under strict checking
    pattern = None
    if rx:
        if needle is None:
            return ("raise",)               # documented: "not usable for regex" TypeError
        try:
            if compiled:
                pattern = item
            elif "K16c" in E:
                pattern = re.compile(needle)       # (a valid pattern may be invalid once lower-cased: a\Z -> a\z)
            else:
                src = item if is_text_item else needle
                pattern = re.compile(src, re.IGNORECASE if folding else 0)
        except re.error:
            return ("reerror",)                 # documented Python behaviour: re.compile raises re.error

    def rx_search(text, folded_text):
        if type(pattern.pattern) is not type(text):
            # a str pattern is not found in bytes and vice versa, a bytes pattern matches neither a path
            # text nor the text of a number (K16d / K16i, fixed by /repo 9553299, 49764d9, bcd9dc1)
            return False
        if "K16c" in E:
            return bool(pattern.search(folded_text))
        return bool(pattern.search(text))

    def value_matches(v):
        if v is None:
            return item is None
        if isinstance(v, (str, bytes)):
            if needle is None:
                return False
            if rx:
                return rx_search(v, fold(v))
            if type(needle) is not type(v):
                return False
            return fold(v) == needle if ms else needle in fold(v)
        if isinstance(v, NUMS + XNUM_TYPES):
            if strict:
                return isinstance(item, NUMS) and v == item
            txt = str(v)
            if isinstance(needle, str) and not rx:
                return (txt == needle) if "K16e" in E else (fold(txt) == needle)
            if rx:
                if isinstance(needle, str) and "K16e" in E and txt == needle:
                    return True
                # the text of the number is searched with the pattern (no folding of the
                # text in the code: only visible for 'True'/'False')
                return rx_search(txt, txt)
            return False
        if isinstance(v, CONTAINERS):
            # a container matches when it equals a container item (documented nowhere in detail;
            # as written only items of lists / tuples / sets are compared: K16h, handled by the caller).
            # A named tuple is a tuple: it equals the tuple of its fields.
            return isinstance(item, CONTAINERS) and v == item
        return False                       # an instance of a class (no __eq__: identity) matches no item of the universe

    item_str = str(needle) if needle is not None else str(item)

    def text_matches(text):
        ft = fold(text)
        if rx:
            return rx_search(text, ft)
        return item_str == ft if ms else item_str in ft

    def path_excluded(steps):
        t = path_text(steps)
        return t in ex_paths or any(r.search(t) for r in ex_rx)

    def type_excluded(v):
        return bool(ex_types) and isinstance(v, ex_types)

    def own_type_excluded(steps, v):
        if "K16" in E:      # as written: only items of sequences / sets are tested against exclude_types
            return bool(steps) and steps[-1][0] == "i" and type_excluded(v)
        return type_excluded(v)

    def link_excluded(steps, v):
        return path_excluded(steps) or own_type_excluded(steps, v)

    if "K16" in E and not rx:
        # as written: the searched item itself is tested against exclude_types
        if type_excluded(needle if needle is not None else item):
            return ("ok", {}, {}, [])
    paths, vals, unproc = {}, {}, []

    def shortcut_hit(steps, w):
        """as written: an item of a list / tuple / set that equals a container item is reported and not descended into"""
        return isinstance(item, CONTAINERS) and isinstance(w, CONTAINERS) and bool(steps) and steps[-1][0] == "i" and w == item
    try:
        for steps, v, chain in locations(obj):
            if v is REF:        # the object has been / is being searched at its first occurrence on this path
                continue
            if any(link_excluded(s, w) for s, w in chain[:-1]):
                continue
            if "K16h" in E and any(shortcut_hit(s, w) for s, w in chain[:-1]):
                continue
            if steps and steps[-1][0] in ("k", "a"):
                hidden = own_type_excluded(steps, v) or (path_excluded(steps) and "K16b" not in E)
                hidden = hidden or ("K16h" in E and len(chain) >= 2 and shortcut_hit(*chain[-2]))
                if not hidden and text_matches(path_text(steps)):
                    paths[path_text(steps)] = v
            if link_excluded(steps, v):
                continue
            if value_matches(v) and not ("K16h" in E and isinstance(v, CONTAINERS) and not is_named(v) and not shortcut_hit(steps, v)):
                vals[path_text(steps)] = v     # (a named tuple is compared with the item wherever it sits: __search_obj)
            if is_opaque(v) and not ("K16h" in E and shortcut_hit(steps, v)):
                unproc.append(path_text(steps))
            if "K16f" in E and (item is None or isinstance(item, CONTAINERS)) and isinstance(v, (str, bytes)):
                # as written: a str is searched as a custom object when the item is None
                for n in attr_names(v):
                    t = path_text(steps) + "." + n
                    if text_matches(t):
                        paths[t] = METHOD
    except RefRaise:
        return ("raise",)
    return ("ok", paths, vals, unproc)


# ---------------------------------------------------------------------------
# running the implementation
# ---------------------------------------------------------------------------

def run_impl(obj, item, kw):
    """('raise', class name) | ('ok', [(text, value)] matched_paths, [(text, value)] matched_values, other keys)
    in the implementation's own order; values are None at verbose_level 1."""
    from deepdiff import DeepSearch
    return run_call(lambda: DeepSearch(obj, item, **kw))


def run_call(call):
    """Run one search entry point (DeepSearch(...) or obj | grep_instance) and canonicalise its outcome:
    ('raise', cls) | ('crash', text) | ('ok', matched_paths, matched_values, other keys, unprocessed)."""
    logging.disable(logging.CRITICAL)
    try:
        ds = call()
    except TypeError:
        return ("raise", "TypeError")
    except re.error:
        return ("reerror", "re.error")
    except Exception as e:   # anything else is not part of the model
        return ("crash", "%s: %s" % (type(e).__name__, e))
    out = []
    for key in ("matched_paths", "matched_values"):
        d = ds.get(key, {})
        if isinstance(d, dict):
            out.append([(k, v) for k, v in d.items()])
        else:
            out.append([(k, None) for k in d])
    other = sorted(k for k in ds.keys() if k not in ("matched_paths", "matched_values", "unprocessed"))
    unproc = ds.get("unprocessed", [])
    if not isinstance(unproc, list) or ("unprocessed" in ds and not unproc):
        other.append("unprocessed:%r" % (unproc,))       # an empty / non-list entry must have been removed
    return ("ok", out[0], out[1], other, list(unproc))


SHAPES = {"list": list, "tuple": tuple, "set": set, "frozenset": frozenset}


def kwargs_of(cfg):
    """The keyword arguments; cfg['shape'] picks one of the accepted shapes of the exclusion arguments: list (the
    documented one) / tuple / set / frozenset for exclude_paths and exclude_types, and for exclude_regex_paths a list or
    tuple whose first pattern is pre-compiled ('compiled': re.compile returns a compiled pattern unchanged)."""
    shape = cfg.get("shape", "list")
    conv = SHAPES.get(shape, list)
    kw = {"verbose_level": cfg["verbose_level"], "case_sensitive": cfg["case_sensitive"], "match_string": cfg["match_string"],
          "use_regexp": cfg["use_regexp"], "strict_checking": cfg["strict_checking"]}
    if cfg["exclude_paths"]:
        kw["exclude_paths"] = conv(cfg["exclude_paths"])
    if cfg["exclude_regex_paths"]:
        pats = list(cfg["exclude_regex_paths"])
        if shape == "compiled":
            pats[0] = re.compile(pats[0])
        kw["exclude_regex_paths"] = tuple(pats) if shape in ("tuple", "compiled") else pats
    if cfg["exclude_types"]:
        kw["exclude_types"] = conv([TYPES[t] for t in cfg["exclude_types"]])
    return kw


# ---------------------------------------------------------------------------
# generators
# ---------------------------------------------------------------------------

STRS = ["a", "b", "ab", "abc", "A", "aB", "Abc", "ABC", "x y", "1", "10", "1.5", "2", "k1", "none", "None", "True", "true",
        "root", "", "xa", "b1", "0.5", "-1", "a.c", "éa", "a\U0001d1c0", "a'b", 'a"b', "a]b[", "x.y z"]
# text on which str.lower() is not the ASCII lower-casing, and on which lower() / casefold() / upper().lower() differ:
# sharp s, final sigma (context dependent), long s, ligatures, dotted capital I (lower() has two code points), n-apostrophe,
# Cyrillic / accented capitals (lower() == casefold(), non-ASCII), titlecase digraph
UNI = ["Straße", "ΟΔΟΣ", "ſa", "ﬁx", "İb", "ÉA", "aΣ", "Σ", "ŉ", "Дa", "ǅ", "ß", "ςa", "AΣ b"]
BYTES = [b"a", b"ab", b"A", b"", b"1"]
# re.error out of re.compile; a\\Z and \\Ab are valid as written and invalid once lower-cased (K16c)
BAD_PATTERNS = ["[a", "(", "*a", "a{2,1}", "(?P<n>a)(?P<n>b)", "a\\Z", "\\Ab", "\\Qx"]
PATTERNS = ["a.", "^a", "b$", "[0-9]+", "\\d", ".*", "A|b", "\\S", "\\S+", "[A-Z]", "a?b", "\\[1\\]", "'a'", "oo", "\\W", "\\.5$", "^1$", "(a|1)+", "\\Bb"]
EXCL_RX = ["\\[1\\]", "root\\['a'\\]", "\\[\\d+\\]$", "'b'", "^root\\[0\\]", "\\['?k", "None", "\\]\\["]


def gen_leaf(rng, with_bytes, exotic=None):
    """exotic: 'num' adds floats outside the half-integers and Decimals, 'all' also dates / datetimes / timedeltas"""
    if exotic and rng.random() < 0.22:
        return rng.choice(XFLOATS + XDECIMALS + (XDATES if exotic == "all" else []))
    r = rng.random()
    if r < 0.12:
        return None if rng.random() < 0.4 else rng.random() < 0.5
    if r < 0.35:
        return rng.choice([0, 1, 2, 10, 15, -1, 12, 3, 21])
    if r < 0.5:
        return rng.choice([0.5, 1.5, 1.0, 2.0, -0.5, 10.0, 0.0, 2.5])
    if with_bytes and r < 0.6:
        return rng.choice(BYTES)
    if r > 0.93:
        return rng.choice(UNI)
    return rng.choice(STRS)


def gen_keys(rng, n, with_bytes):
    keys = []
    for _ in range(4 * n):
        if len(keys) >= n:
            break
        k = gen_leaf(rng, with_bytes) if rng.random() < 0.45 else rng.choice(STRS if rng.random() < 0.9 else UNI)
        if all(not (k == q) for q in keys):
            keys.append(k)
    return keys


def gen_obj(rng, depth, width, with_bytes, with_objs=False):
    """with_objs: instances (__dict__ / __slots__ / class attributes and methods), named tuples and objects whose
    attributes cannot be read (an unset slot, a property that raises) occur at every level; 'named': named tuples only"""
    if depth <= 0 or rng.random() < 0.2:
        return gen_leaf(rng, with_bytes, "all" if with_objs is True else "num" if with_objs == "nums" else None)
    sub = lambda: gen_obj(rng, depth - 1, width, with_bytes, with_objs)     # noqa: E731
    k = rng.choice("LLTDDDSF" + ("NN" if with_objs == "named" else "" if with_objs == "nums" else "OOOONNU" if with_objs else ""))
    n = rng.randint(0, width)
    if k == "L":
        return [sub() for _ in range(n)]
    if k == "T":
        return tuple(sub() for _ in range(n))
    if k == "D":
        return {q: sub() for q in gen_keys(rng, n, with_bytes)}
    if k == "O":
        cls = rng.choice([A, A, A, B, M, M, S])
        if cls is S:
            return S(**{a: sub() for a in S.__slots__})
        return cls(**{a: sub() for a in rng.sample(ATTR_NAMES, min(n, len(ATTR_NAMES)))})
    if k == "N":
        return P(sub(), sub()) if rng.random() < 0.6 else R(sub(), sub(), sub())
    if k == "U":
        if rng.random() < 0.5:
            return S(**{a: sub() for a in rng.sample(S.__slots__, rng.randint(0, 2))})      # an unset slot
        return E(**{a: sub() for a in rng.sample(ATTR_NAMES, min(n, 2))})
    ks = gen_keys(rng, n, with_bytes)
    return set(ks) if k == "S" else frozenset(ks)


def make_cyclic(rng, obj):
    """A copy of obj in which a list / dict / instance holds a reference to itself or to one of its ancestors (one or two such
    back references); (copy, False) when obj has no such container."""
    obj = copy.deepcopy(obj)
    nodes = []

    def walk(v, anc):
        if isinstance(v, (list, dict)) or (is_inst(v) and not isinstance(v, S)):
            anc = anc + [v]
            nodes.append((v, anc))
        if is_method(v) or is_opaque(v):
            return
        if isinstance(v, (A, B, M, S)):
            for x in _inst_state(v).values():
                walk(x, anc)
        elif isinstance(v, dict):
            for x in v.values():
                walk(x, anc)
        elif isinstance(v, (list, tuple)):
            for x in v:
                walk(x, anc)
    walk(obj, [])
    if not nodes:
        return obj, False
    for _ in range(rng.choice([1, 1, 2])):
        host, anc = rng.choice(nodes)
        target = rng.choice(anc)
        if isinstance(host, list):
            host.insert(rng.randint(0, len(host)), target)
        elif isinstance(host, dict):
            host[rng.choice(["cyc", "a", "self", 0])] = target
        else:
            setattr(host, rng.choice(["cyc", "a", "parent"]), target)
    return obj, True


def share_x(rng, obj):
    """A copy of obj in which ONE container (list / dict / instance) occurs, as the same object, at a second position
    (not below or above the first); (copy, False) when there is no such pair.  The search must treat it as the tree."""
    obj = copy.deepcopy(obj)
    slots = []

    def walk(v, setter, steps):
        if isinstance(v, (list, dict)) or is_inst(v) or is_opaque(v):
            slots.append((v, setter, steps))
        if is_method(v):
            return
        if isinstance(v, (A, B, M, S, E)):
            for a, x in _inst_state(v).items():
                walk(x, (lambda new, v=v, a=a: setattr(v, a, new)), steps + (a,))
        elif isinstance(v, dict):
            for q, x in v.items():
                walk(x, (lambda new, v=v, q=q: v.__setitem__(q, new)), steps + (q,))
        elif isinstance(v, list):
            for i, x in enumerate(v):
                walk(x, (lambda new, v=v, i=i: v.__setitem__(i, new)), steps + (i,))
        elif isinstance(v, tuple):
            for i, x in enumerate(v):
                walk(x, None, steps + (i,))
    walk(obj, None, ())
    rng.shuffle(slots)
    for va, _, pa in slots:           # replace a container of the same type elsewhere
        for vb, setb, pb in slots:
            if setb is None or va is vb or type(va) is not type(vb) or pa == pb[:len(pa)] or pb == pa[:len(pb)]:
                continue
            setb(va)
            return obj, True
    for va, _, pa in slots:           # or add it to a list / dict / instance that is not inside it
        for host, _, ph in slots:
            if host is va or ph[:len(pa)] == pa or is_opaque(host) or isinstance(host, S):
                continue
            if isinstance(host, list):
                host.insert(rng.randint(0, len(host)), va)
            elif isinstance(host, dict):
                host["sh"] = va
            else:
                setattr(host, "sh", va)
            return obj, True
    return obj, False


def is_atom(v):
    return v is None or isinstance(v, (bool, int, str, bytes)) or (isinstance(v, float) and universe_float(v))


def is_plain(v):
    """a value of the shared universe (no instance / named tuple / method inside)"""
    if isinstance(v, dict):
        return all(is_plain(x) for x in v.values())
    if isinstance(v, (list, tuple)):
        return not is_named(v) and all(is_plain(x) for x in v)
    return is_atom(v) or isinstance(v, (set, frozenset))


def atoms_of(obj):
    """the atoms at the locations of obj; the dictionary keys and attribute / field names"""
    leaves, keys = [], []
    for steps, v, _ in locations(obj):
        if is_atom(v):
            leaves.append(v)
        if steps and steps[-1][0] in ("k", "a"):
            keys.append(steps[-1][1])
    return leaves, keys


def substrings(rng, s):
    if len(s) == 0:
        return s
    i = rng.randrange(len(s))
    j = rng.randint(i + 1, len(s))
    return s[i:j]


def gen_item(rng, obj, locs, use_regexp):
    leaves, keys = atoms_of(obj)
    strs = [x for x in leaves + keys if isinstance(x, str)]
    nums = [x for x in leaves + keys if isinstance(x, NUMS)]
    texts = [path_text(s) for s, _, _ in locs]
    xnums = [v for _, v, _ in locs if is_xnum(v)]
    if xnums and rng.random() < 0.35:        # the text of a number-like leaf (whole / part / other case), the number it equals
        x = rng.choice(xnums)
        q = rng.random()
        if use_regexp:
            return re.escape(substrings(rng, str(x))) if q < 0.7 else rng.choice(["e[-+]", "^\\d+\\.\\d+$", "E", "-0", "[a-z]{3}"])
        if q < 0.3 and xnum_value(x) is not None:
            return xnum_value(x)
        return str(x) if q < 0.75 else str(x).upper() if q < 0.85 else substrings(rng, str(x))
    r = rng.random()
    if use_regexp:
        if r < 0.08:
            return rng.choice([None, 1, 1.5, True])          # constructor raises (or str() in loose mode)
        if r < 0.45 and strs:
            return re.escape(substrings(rng, rng.choice(strs)))
        if r < 0.5 and nums:
            return rng.choice(nums)
        if r < 0.53:
            return rng.choice([b"a", b"1", b".", b"[a"])
        if r < 0.57:
            return rng.choice(BAD_PATTERNS)
        if r < 0.6:      # a pre-compiled pattern, with or without flags (re.compile returns it unchanged)
            if rng.random() < 0.15:
                return re.compile(rng.choice([b"a", b"A.", b"\\d"]), rng.choice([0, re.I]))
            return re.compile(rng.choice(PATTERNS + ["ab", "a b", "^root"]), rng.choice([0, 0, re.I, re.I | re.S, re.X]))
        return rng.choice(PATTERNS)
    conts = [] if BACK else [tuple(v) if is_named(v) else v for _, v, _ in locs[1:] if isinstance(v, CONTAINERS)]
    conts = [v for v in conts if is_plain(v)]       # (no container items for cyclic objects)
    if r < 0.14 and conts:       # a container item: a sub-container of the object (a named tuple as the tuple of its fields),
        v = copy.deepcopy(rng.choice(conts))    # a == variant of it, or an absent one
        q = rng.random()
        if q < 0.2 and isinstance(v, list) and v:
            v = [float(x) if isinstance(x, int) and not isinstance(x, bool) else x for x in v]
        elif q < 0.3 and isinstance(v, list):
            v = v + ["zz"]
        elif q < 0.4 and isinstance(v, (set, frozenset)):
            v = frozenset(v) if isinstance(v, set) else set(v)
        elif q < 0.5 and isinstance(v, tuple):
            v = list(v)
        return v
    if r < 0.2 and leaves:
        return rng.choice(leaves)
    if r < 0.4 and strs:
        s = substrings(rng, rng.choice(strs))
        return s.upper() if rng.random() < 0.15 else s
    if r < 0.5 and keys:
        return rng.choice(keys)
    if r < 0.6 and nums:
        x = rng.choice(nums)
        return str(x) if rng.random() < 0.7 else x
    if r < 0.68:
        t = rng.choice(texts)
        return t if rng.random() < 0.5 else substrings(rng, t)
    if r < 0.78:
        return rng.choice(["zz", 99, 7.5, "Q", "['", "][", "[0]", "oo", "."])
    if r < 0.82:
        return rng.choice(BYTES)
    if r < 0.9:
        return rng.choice([None, True, False, 1, 0, 1.0, 2, 0.5, 1.5, 10])
    if r < 0.92:
        return rng.choice(UNI)
    return rng.choice(STRS)


def gen_cfg(rng, locs):
    texts = [path_text(s) for s, _, _ in locs]
    cfg = {"verbose_level": rng.choice([1, 2, 2, 2, 1, 2, 0, 3]),
           "case_sensitive": rng.random() < 0.4,
           "match_string": rng.random() < 0.25,
           "use_regexp": rng.random() < 0.25,
           "strict_checking": rng.random() < 0.55,
           "exclude_paths": [], "exclude_regex_paths": [], "exclude_types": []}
    if rng.random() < 0.3:
        cfg["exclude_paths"] = sorted(set(rng.choice(texts + ["root[9]"]) for _ in range(rng.randint(1, 2))))
    if rng.random() < 0.15:
        cfg["exclude_regex_paths"] = [rng.choice(EXCL_RX)]
    if rng.random() < 0.3:
        cfg["exclude_types"] = sorted(set(rng.choice(sorted(TYPES)) for _ in range(rng.randint(1, 2))))
    if cfg["exclude_paths"] or cfg["exclude_regex_paths"] or cfg["exclude_types"]:
        cfg["shape"] = rng.choice(["list", "list", "tuple", "set", "frozenset", "compiled"])
    return cfg


def non_ascii_lower(obj, item):
    """some str of the case is lower-cased by Python otherwise than by the ASCII rule (the model gets Python's answer as an oracle table)"""
    leaves, keys = atoms_of(obj)
    return any(isinstance(x, str) and x.lower() != ascii_lower(x) for x in leaves + keys + [item])


# ---------------------------------------------------------------------------
# emitting one model case
# ---------------------------------------------------------------------------

def effective_item(item, cfg):
    """The item as the constructor normalises it (needed to compute the regex oracle table)."""
    eff = item
    if isinstance(item, (str, bytes)) and not cfg["case_sensitive"]:
        eff = item.lower()
    if not cfg["strict_checking"] and isinstance(eff, NUMS):
        eff = str(eff)
    return eff


def coq_tbl_bool(d):
    return "[" + "; ".join("(%s, true)" % core.coq_pystr(k) for k in d) + "]"


def model_case(obj, item, cfg, locs):
    folding = isinstance(item, (str, bytes)) and not cfg["case_sensitive"]
    fold = (lambda s: s.lower()) if folding else (lambda s: s)
    leaves, keys = atoms_of(obj)
    texts = [path_text(s) for s, _, _ in locs]
    # str(bytes)
    bs = set(x for x in keys if isinstance(x, bytes))
    if isinstance(item, bytes):
        bs.update([item, item.lower()])
    b_tbl = "[" + "; ".join("(%s, %s)" % (core.coq_pystr(b), core.coq_pystr(str(b))) for b in sorted(bs)) + "]"
    # str.lower(): every str the search lower-cases (the item, the str leaves, the path texts) on which Python's answer is
    # not the ASCII one
    lows = {}
    if folding and isinstance(item, str):
        for x in [item] + [x for x in leaves if isinstance(x, str)] + texts:
            if x.lower() != ascii_lower(x):
                lows[x] = x.lower()
    l_tbl = "[" + "; ".join("(%s, %s)" % (core.coq_pystr(k), core.coq_pystr(lows[k])) for k in sorted(lows)) + "]"
    # compiled item
    re_true, re_text = [], ""
    eff = effective_item(item, cfg)
    cs_model = cfg["case_sensitive"]
    if isinstance(item, re.Pattern):
        # the model gets the pattern's source as a case sensitive item (a non-string item forces case_sensitive=True);
        # the oracle table is computed with the compiled pattern itself, flags included
        eff, item, cs_model = item, item.pattern, True
    re_ok = True
    if cfg["use_regexp"] and isinstance(eff, (str, bytes)):
        try:
            re.compile(eff)
        except re.error:
            re_ok = False
    if re_ok and cfg["use_regexp"] and isinstance(eff, (str, bytes, re.Pattern)):
        pat = re.compile(eff)
        re_text = str(pat)
        subjects = set()
        if isinstance(pat.pattern, str):
            subjects.update(fold(x) for x in leaves if isinstance(x, str))
            subjects.update(str(x) for x in leaves if isinstance(x, NUMS))
            subjects.update(str(v) for _, v, _ in locs if is_xnum(v))
            subjects.update(fold(t) for t in texts)
            re_true = sorted(s for s in subjects if pat.search(s))
        else:
            subjects.update(fold(x) for x in leaves if isinstance(x, bytes))
            re_true = sorted(s for s in subjects if pat.search(s))
    ex_true = []
    if cfg["exclude_regex_paths"]:
        rxs = [re.compile(p) for p in cfg["exclude_regex_paths"]]
        ex_true = sorted(set(t for t in texts if any(r.search(t) for r in rxs)))
    c = "(mkConfig %s %s %s %s [%s] [%s])" % (
        core.coq_bool(cs_model), core.coq_bool(cfg["match_string"]), core.coq_bool(cfg["use_regexp"]),
        core.coq_bool(cfg["strict_checking"]), "; ".join(core.coq_pystr(p) for p in cfg["exclude_paths"]),
        "; ".join(coq_xty(t) for t in cfg["exclude_types"]))
    if isinstance(item, CONTAINERS):
        re_text = str(item)
    return "run_search %s %s %s %s %s %s %s %s str_attrs_ bytes_attrs_ %s %s" % (
        core.coq_bool(cfg["verbose_level"] >= 2), c, core.coq_bool(re_ok), coq_tbl_bool(re_true), coq_tbl_bool(ex_true), b_tbl, l_tbl,
        core.coq_pystr(re_text), V.to_coq(item), xcoq(obj))


def expected_of(res, verbose2):
    if res[0] != "ok":
        return res[0] if res[0] in ("raise", "reerror") else "crash:" + res[1]
    if res[3]:
        return "other-keys:" + ",".join(res[3])
    if verbose2:
        return ["ok", [[k, cv(v)] for k, v in res[1]], [[k, cv(v)] for k, v in res[2]], list(res[4])]
    return ["ok", [k for k, _ in res[1]], [k for k, _ in res[2]], list(res[4])]


# ---------------------------------------------------------------------------
# the direct oracle on one case
# ---------------------------------------------------------------------------

def tame(steps):
    """'tame' (Coq: tame_path - extract must resolve the path), 'k16g' (search.py's own printer writes a text
    path.py cannot parse back: str key with a single quote, bytes key) or 'c09' (key ending in the escape
    character: parser finding K6 of C09, not a matter of DeepSearch)."""
    out = "tame"
    for kind, x in steps:
        if kind == "a" and (not x.isidentifier() or x.startswith("__")):
            return "attr"               # an attribute name that is no identifier (set through __dict__) has no path syntax;
                                        # path.py drops every element that starts with '__' (extract(obj, 'root.__q') is obj)
        if kind != "k":
            continue
        if isinstance(x, bytes) or (isinstance(x, str) and "'" in x):
            return "k16g"
        if isinstance(x, str) and x.endswith("\U0001d1c0"):
            out = "c09"
    return out


def compare(ref, res, verbose2):
    """None when the implementation's result equals the reference; else a description."""
    if res[0] == "crash":
        return "DeepSearch raised " + res[1]
    if ref[0] != "ok" or res[0] != "ok":
        if ref[0] == res[0]:
            return None
        what = {"raise": "TypeError", "reerror": "re.error"}
        return ("DeepSearch raised %s" % what[res[0]]) if res[0] != "ok" else ("DeepSearch did not raise the documented %s" % what[ref[0]])
    if res[3]:
        return "unexpected result keys %r" % (res[3],)
    msgs = []
    for name, rd, il in (("matched_paths", ref[1], res[1]), ("matched_values", ref[2], res[2])):
        ik = [k for k, _ in il]
        extra = [k for k in ik if k not in rd]
        missing = [k for k in rd if k not in ik]
        if extra:
            msgs.append("%s reports %s which is excluded or does not match" % (name, ", ".join(extra[:3])))
        if missing:
            msgs.append("%s lacks %s" % (name, ", ".join(missing[:3])))
        if verbose2 and not extra and not missing:
            for k, v in il:
                if not cv_eq(v, rd[k]):
                    msgs.append("%s[%s] is %r, the object holds %r there" % (name, k, v, rd[k]))
                    break
    if sorted(ref[3]) != sorted(res[4]):
        msgs.append("unprocessed is %r, the objects whose attributes cannot be read are at %r" % (res[4], ref[3]))
    return "; ".join(msgs) if msgs else None


def explain(obj, item, kw, res, verbose2):
    """Smallest set of known defects whose emulation makes the reference agree with the implementation."""
    for n in range(1, len(DEFECTS) + 1):
        for S in itertools.combinations(DEFECTS, n):
            try:
                if compare(ref_search(obj, item, kw, S), res, verbose2) is None:
                    return list(S)
            except Exception:
                continue
    return []


def case_dict(obj, item, cfg, what=None, res=None):
    d = {"obj": repr(obj), "item": repr(item), "options": cfg}
    if what:
        d["observed"] = what
    try:            # sharing of sub-objects / instances: the replay rebuilds the very same object graph
        if pickle.dumps(obj) != pickle.dumps(_eval(repr(obj))):
            d["pickle"] = base64.b64encode(pickle.dumps(obj)).decode("ascii")
    except Exception:
        d["pickle"] = base64.b64encode(pickle.dumps(obj)).decode("ascii")
    return d


def report(ctx, c, what):
    """ctx.fail, except that inside an extension stream (objects outside the property's stated domain) a failure that is
    fully explained by a known finding is only counted: the extension notes are for what is new there"""
    if getattr(ctx, "_ext", None) and c.get("explained_by"):
        ctx.count("extension_known_finding:" + c["explained_by"][0])
        return
    ctx.fail(c, what)


def oracle(ctx, obj, item, cfg, res, locs):
    """Direct property check of one executed case. Returns True when it passed."""
    kw = kwargs_of(cfg)
    verbose2 = cfg["verbose_level"] >= 2
    ok = True
    ref = ref_search(obj, item, kw)
    diff = compare(ref, res, verbose2)
    if diff is not None:
        ok = False
        c = case_dict(obj, item, cfg, diff)
        c["explained_by"] = explain(obj, item, kw, res, verbose2)
        report(ctx, c, "DeepSearch(%s, %s, %s): %s" % (c["obj"], c["item"], fmt_kw(cfg), diff))
    if res[0] == "ok":
        # every reported path extracts the reported value from the object
        from deepdiff import extract
        by_text = {}
        for steps, v, _ in locs:
            by_text.setdefault(path_text(steps), []).append((steps, v))
        for name, lst in (("matched_paths", res[1]), ("matched_values", res[2])):
            for text, val in lst:
                cands = by_text.get(text, [])
                if not cands:        # not a location: already reported by the comparison with the reference
                    continue
                kind = tame(cands[0][0])
                if len(cands) > 1 or kind in ("c09", "attr"):
                    ctx.count("extract:skipped_ambiguous_text_or_C09_key")
                    continue
                steps, v = cands[0]
                if verbose2 and not xeq(val, v):
                    ok = False
                    ctx.fail(case_dict(obj, item, cfg, "%s[%s] = %r but the object holds %r" % (name, text, val, v)),
                             "DeepSearch reports a value that is not at the reported path")
                if any(isinstance(w, (set, frozenset)) for _, w in chain_of(locs, steps)[:-1]):
                    ctx.count("extract:skipped_set")
                    continue
                try:
                    got = extract(obj, text)
                    good = xeq(got, v)
                except Exception as e:
                    got, good = "%s: %s" % (type(e).__name__, e), False
                ctx.count("extract:checked_" + kind)
                if not good:
                    ok = False
                    c = case_dict(obj, item, cfg, "extract(obj, %r) gives %r, reported/held value %r" % (text, got, v))
                    c["explained_by"] = ["K16g"] if kind == "k16g" else []
                    report(ctx, c, "extract() on the reported path %s does not give the reported value" % text)
    return ok


def chain_of(locs, steps):
    for s, _v, chain in locs:
        if s == steps:
            return chain
    return []


def fmt_kw(cfg):
    d = {k: v for k, v in cfg.items() if v not in ([], None) and k != "shape"}
    if cfg.get("shape", "list") != "list":
        d["<exclusion arguments given as>"] = cfg["shape"]
    return ", ".join("%s=%r" % kv for kv in sorted(d.items()))


# ---------------------------------------------------------------------------
# known findings
# ---------------------------------------------------------------------------

def _is_container_text(t):
    return t[:1] in "[({" or t.startswith(("set(", "frozenset("))


# the feature of the input without which the finding cannot show
FEATURE = {
    "K16": lambda o, item: bool(o.get("exclude_types")),
    "K16b": lambda o, item: bool(o.get("exclude_paths") or o.get("exclude_regex_paths")),
    "K16c": lambda o, item: bool(o.get("use_regexp")) and not o.get("case_sensitive") and item[:1] in "'\"b",
    "K16e": lambda o, item: not o.get("strict_checking", True) and not o.get("case_sensitive"),
    "K16f": lambda o, item: item == "None" or _is_container_text(item),
    "K16g": lambda o, item: True,
    "K16h": lambda o, item: _is_container_text(item),
}


def _explained(key):
    """A failing case belongs to finding `key` when (a) the failing clause is the finding's (comparison with the reference
    search; for K16g the extract() clause), (b) the input shows the finding's feature, (c) the observed wrong result is
    exactly the one the finding's mechanism, replayed in the reference search, predicts (`explained_by` = smallest set of
    defect switches under which the reference reproduces the implementation's complete result)."""
    def m(case):
        ex = case.get("explained_by") or []
        if not ex or ex[0] != key:
            return False
        clause_extract = str(case.get("observed", "")).startswith("extract(")
        if (key == "K16g") != clause_extract:
            return False
        return bool(FEATURE[key](case.get("options", {}), case.get("item", "")))
    return m


MATCHERS = {k: _explained(k) for k in FINDINGS}

WITNESSES = {
    "K16": ({'a': 1.5, 'b': 'x1.5'}, '1.5', {"exclude_types": ["float"], "strict_checking": False}),
    "K16b": ({'a': 1}, 'a', {"exclude_paths": ["root['a']"]}),
    "K16c": (['abc'], '\\S+', {"use_regexp": True}),
    "K16e": ([True], 'True', {"strict_checking": False}),
    "K16f": ({None: 'a'}, None, {}),
    "K16g": ({"a'b": 'x'}, 'x', {}),
    "K16h": ({'a': [1, 2]}, [1, 2], {}),
}
# second witness of K16 (Coq: complete_refuted): nothing is reported when the item's own type is excluded
EXTRA_WITNESSES = [("K16", [1], '1', {"exclude_types": ["str"], "strict_checking": False})]


def full_cfg(part):
    cfg = {"verbose_level": 2, "case_sensitive": False, "match_string": False, "use_regexp": False, "strict_checking": True,
           "exclude_paths": [], "exclude_regex_paths": [], "exclude_types": []}
    cfg.update(part)
    return cfg


# ---------------------------------------------------------------------------
# one case end to end
# ---------------------------------------------------------------------------

def do_case(ctx, obj, item, cfg, cases, tag):
    obj = copy.deepcopy(obj)      # (set iteration order may change in a copy: everything below uses this one object)
    BACK.clear()
    BACK.update(find_back_edges(obj))
    try:
        do_case_(ctx, obj, item, cfg, cases, tag)
    finally:
        BACK.clear()


def do_case_(ctx, obj, item, cfg, cases, tag):
    locs = locations(obj)
    before = xstate(obj)
    res = run_impl(obj, item, kwargs_of(cfg))
    if xstate(obj) != before:
        ctx.fail(case_dict(obj, item, cfg, "object after the search: %r" % (obj,)), "DeepSearch modified the searched object")
        return
    verbose2 = cfg["verbose_level"] >= 2
    nontrivial = res[0] != "ok" or bool(res[1]) or bool(res[2]) or bool(res[4])
    ctx.seen((repr(obj), repr(item), repr(sorted(cfg.items()))), nontrivial=nontrivial)
    ctx.count("result:" + (res[0] if res[0] != "ok" else "paths+values" if res[1] and res[2] else "paths" if res[1]
                           else "values" if res[2] else "empty"))
    if res[0] == "ok" and res[4]:
        ctx.count("result:unprocessed_nonempty")
    if any(is_xnum(v) for _, v, _ in locs):
        ctx.count("object:with_number_like_leaf")
    if BACK:
        ctx.count("object:cyclic")
    kinds = set("instance" if is_inst(v) else "named_tuple" if is_named(v) else "unreadable" if is_opaque(v) else
                "method" if is_method(v) else None for _, v, _ in locs) - {None}
    ctx.count("object:" + ("+".join(sorted(kinds)) or "plain"))
    mode = ("regexp" if cfg["use_regexp"] else "exact" if cfg["match_string"] else "substring") + \
           ("/cs" if cfg["case_sensitive"] else "/ci") + ("/strict" if cfg["strict_checking"] else "/loose")
    ctx.count("mode:" + mode)
    ctx.count("item:" + type(item).__name__)
    ctx.count("exclusions:" + ("+".join(k[8:] for k in ("exclude_paths", "exclude_regex_paths", "exclude_types") if cfg[k]) or "none"))
    ctx.count("verbose:%d" % cfg["verbose_level"])
    if cfg.get("shape"):
        ctx.count("exclusion_argument_shape:" + cfg["shape"])
    if non_ascii_lower(obj, item):
        ctx.count("text:non_ascii_lower" + ("/folded" if isinstance(item, str) and not cfg["case_sensitive"] else "/not_folded"))
    guard_stats(ctx, obj, item, cfg, locs)
    if ctx.evaluations % 7 == 0:      # the `obj | grep(item, **kw)` entry point gives the same result
        from deepdiff import grep
        try:
            gres = run_call(lambda: obj | grep(item, **kwargs_of(cfg)))
        except TypeError:
            gres = ("raise", "TypeError")
        ctx.count("grep_operator:checked")
        if expected_of(gres, verbose2) != expected_of(res, verbose2):
            ctx.fail(case_dict(obj, item, cfg, "obj | grep(item) gives %r" % (gres,)), "obj | grep(item, ...) differs from DeepSearch(obj, item, ...)")
    oracle(ctx, obj, item, cfg, res, locs)
    cases.append((model_case(obj, item, cfg, locs), expected_of(res, verbose2),
                  {"tag": tag, "obj": repr(obj), "item": repr(item), "options": cfg}))


def guard_stats(ctx, obj, item, cfg, locs):
    """Fraction of the generated cases inside each guard of the _partial theorems."""
    ex_types = tuple(TYPES[t] for t in cfg["exclude_types"])
    ex_paths = set(cfg["exclude_paths"])
    ex_rx = [re.compile(p) for p in cfg["exclude_regex_paths"]]
    eff = effective_item(item, cfg)
    item_ex = bool(ex_types) and not cfg["use_regexp"] and isinstance(eff, ex_types)
    k16 = not (ex_types and isinstance(obj, ex_types)) and not any(
        s and s[-1][0] == "k" and ex_types and isinstance(v, ex_types) for s, v, _ in locs)
    k16b = not any(s and s[-1][0] == "k" and (path_text(s) in ex_paths or any(r.search(path_text(s)) for r in ex_rx))
                   for s, v, _ in locs)
    bfree = not isinstance(item, bytes) and not any(isinstance(v, bytes) for _, v, _ in locs)
    if cfg["exclude_types"]:
        ctx.count("guard:exclude_types_given")
        ctx.count("guard:k16_guard_" + ("holds" if k16 else "fails") + "_given_exclude_types")
        ctx.count("guard:item_type_" + ("excluded" if item_ex else "not_excluded") + "_given_exclude_types")
    if cfg["exclude_paths"] or cfg["exclude_regex_paths"]:
        ctx.count("guard:k16b_guard_" + ("holds" if k16b else "fails") + "_given_path_exclusions")
    ctx.count("guard:bytes_free_" + ("yes" if bfree else "no"))
    ctx.count("guard:item_is_None_" + ("yes" if item is None else "no"))


HEADER = ("From DD Require Import Base.PyStr Base.Value Search.SearchModel Search.SearchShow.\nLocal Open Scope Z_scope.\n"
          "Definition str_attrs_ : list pystr := [%s].\nDefinition bytes_attrs_ : list pystr := [%s]." % (
              "; ".join(core.coq_pystr(n) for n in attr_names("")), "; ".join(core.coq_pystr(n) for n in attr_names(b""))))


def random_cases(ctx, n, with_objs=False, name="search_random", tag="random"):
    rng = ctx.rng
    cases = []
    made = 0
    while made < n:
        with_bytes = rng.random() < 0.12
        obj = gen_obj(rng, rng.choice([1, 2, 2, 3, 3, 4]), rng.choice([2, 3, 4]), with_bytes, with_objs)
        if rng.random() < 0.4:        # one container object at two positions (succeeds for about a third of the objects)
            obj, shared = share_x(rng, obj)
            ctx.count("shared_subobject:" + ("yes" if shared else "no_pair"))
        locs = locations(obj)
        for _ in range(rng.choice([2, 3, 4])):
            cfg = gen_cfg(rng, locs)
            item = gen_item(rng, obj, locs, cfg["use_regexp"])
            do_case(ctx, obj, item, cfg, cases, tag)
            if made < 3:
                ctx.sample({"obj": repr(obj), "item": repr(item), "options": fmt_kw(cfg)})
            made += 1
    ctx.coq_cases(name, HEADER, cases, shard=250, label=tag)


def cyclic_cases(ctx, n):
    """objects that hold themselves / an ancestor (lists, dicts, instances), atom items"""
    rng = ctx.rng
    cases = []
    lst = [1, "x"]
    lst.append(lst)
    d = {"k": "x", "l": ["x"]}
    d["self"] = d
    d["l"].append(d)
    a = A(a=1, b=["a"])
    a.me = a
    a.b.append(a)
    t = {"t": (1, [2])}
    t["t"][1].append(t)
    for obj, item in [(lst, "x"), (lst, 1), (lst, "2"), (d, "x"), (d, "self"), (d, "l"), (a, "a"), (a, "me"), (a, 1), (t, 2), (t, "t")]:
        for part in ({}, {"verbose_level": 1}, {"exclude_types": ["list"]}, {"exclude_paths": ["root['l']", "root.b", "root[2]"]}):
            do_case(ctx, obj, item, full_cfg(part), cases, "cyclic-example")
    made = 0
    while made < n:
        obj = gen_obj(rng, rng.choice([2, 3, 3, 4]), rng.choice([2, 3]), False, rng.random() < 0.4)
        obj, ok = make_cyclic(rng, obj)
        if not ok:
            continue
        for _ in range(rng.choice([2, 3])):
            BACK.clear()
            BACK.update(find_back_edges(obj))
            try:
                locs = locations(obj)
                cfg = gen_cfg(rng, locs)
                item = gen_item(rng, obj, locs, cfg["use_regexp"])
            finally:
                BACK.clear()
            if isinstance(item, CONTAINERS):       # cyclic objects are modelled for atom items
                continue
            do_case(ctx, obj, item, cfg, cases, "random-cyclic")
            made += 1
    ctx.coq_cases("search_cyclic", HEADER, cases, shard=250, label="cyclic_objects")


def universe_cases(ctx, limit):
    """Exhaustive small universe x a fixed item list x the mode flags."""
    objs = V.small_universe(atoms=(True, 1.5, "a", "Ab") if ctx.thorough else (None, 1, "Ab"), maxlen=2, depth=2, kinds="LD")
    items = ["a", "A", "b", 1, "1", True, None, 1.5, "1.5", "root", "[0]"]
    rng = ctx.rng
    cases = []
    combos = []
    for obj in objs:
        for item in items:
            combos.append((obj, item))
    rng.shuffle(combos)
    for obj, item in combos[:limit]:
        locs = locations(obj)
        cfg = full_cfg({"verbose_level": rng.choice([1, 2]), "case_sensitive": rng.random() < 0.5,
                        "match_string": rng.random() < 0.3, "strict_checking": rng.random() < 0.5,
                        "use_regexp": False})
        if rng.random() < 0.2:
            cfg["exclude_types"] = [rng.choice(["str", "int", "float", "list", "dict", "bool"])]
        if rng.random() < 0.2 and len(locs) > 1:
            cfg["exclude_paths"] = [path_text(rng.choice(locs)[0])]
        do_case(ctx, copy.deepcopy(obj), item, cfg, cases, "universe")
    ctx.note("small_universe", {"objects": len(objs), "items": len(items), "sampled_pairs": min(limit, len(combos)),
                                "exhaustive": limit >= len(combos)})
    ctx.coq_cases("search_universe", HEADER, cases, shard=300, label="small_universe")


def witnesses(ctx):
    """Each open finding's witness must still fail on the implementation (else the model is stale)."""
    cases = []
    for key, (obj, item, part) in sorted(WITNESSES.items()) + [(k, (o, i, p_)) for k, o, i, p_ in EXTRA_WITNESSES]:
        cfg = full_cfg(part)
        kw = kwargs_of(cfg)
        res = run_impl(copy.deepcopy(obj), item, kw)
        diff = compare(ref_search(obj, item, kw), res, True)
        if key == "K16g":       # this one fails in extract(), not in the search result
            from deepdiff import extract
            try:
                diff = None if res[0] == "ok" and all(extract(obj, t) == v for t, v in res[2]) else "extract fails"
            except Exception:
                diff = "extract raises"
        open_ = any(f["key"] == key and f.get("status") == "open" for f in ctx.findings)
        if open_ and diff is None:
            ctx.break_("correspondence", {"name": "finding_witness", "key": key,
                                          "detail": "the witness of open finding %s no longer fails on the implementation" % key})
        do_case(ctx, obj, item, cfg, cases, "witness:" + key)
    # documented examples
    docs = [([b'abc', 'abc'], 'a', {}),                       # former K16d witnesses: must return a result now
            (['abc', b'abc'], b'a', {}),
            ([b'abc', 'abc', {'a': b'a'}], 'a', {"use_regexp": True}),
            ({b'a': 1, 'a': b'a'}, b'a', {"use_regexp": True}),
            ([1, b'1', '1', 1.0], b'1', {"use_regexp": True, "strict_checking": False}),     # former K16i witness
            ([1, b'1', '1', 21], '1', {"use_regexp": True, "strict_checking": False}),
            ([[1.0, 2], {'k': [[1, 2], (1, 2)]}, [[1, 2, 3]]], [1, 2], {}),
            ([{'a': 1}, {1, 2}, frozenset({1, 2}), {'x': {'a': 1}}], {'a': 1}, {}),
            ([{1, 2}, frozenset({1, 2}), [1, 2]], {1, 2}, {"exclude_types": ["set"]}),
            # non-ASCII case folding (str.lower(), not casefold(): sharp s, final sigma, dotted capital I)
            ({"Name": ["name", "Surname"], "Straße": 1, "addr": ["Straße", "x"], "ΟΔΟΣ": {"n": 2, "alt": ["ΟΔΟΣ"]}}, "Straße", {}),
            ({"Name": ["name", "Surname"], "Straße": 1, "addr": ["Straße", "x"], "ΟΔΟΣ": {"n": 2, "alt": ["ΟΔΟΣ"]}}, "ΟΔΟΣ", {}),
            ({"STRASSE": ["Straße", "STRAßE", "strasse"], "İb": ["i̇b", "ib", "İB"], "ſa": "SA"}, "straße", {"match_string": True}),
            ([{"İb": "İb"}, "i̇B", {"ﬁx": ["FIX", "ﬁX"]}, ("aΣ", "aσ", "aς", "AΣ b")], "İb", {}),
            ([{"İb": "İb"}, "i̇B", {"ﬁx": ["FIX", "ﬁX"]}, ("aΣ", "aσ", "aς", "AΣ b")], "aΣ", {}),
            ([{"İb": "İb"}, "i̇B", {"ﬁx": ["FIX", "ﬁX"]}, ("aΣ", "aσ", "aς", "AΣ b")], "ﬁX", {"case_sensitive": True}),
            ({"a']['b": 'x', 'a': {'b': 'xy'}}, 'x', {}),      # two locations, one text (Coq: result_dict_refuted)
            # numbers outside the half-integers, Decimals: == and (loose) the exact text str(obj)
            ([1e-7, 1e16, 0.1, Decimal("1.5"), Decimal("1E+3")], 1.5, {}),
            ([1e-7, 1e16, 0.1, Decimal("1.5"), Decimal("1E+3")], "1.5", {"strict_checking": False}),
            ([1e-7, 1e16, 0.1, Decimal("1.5"), Decimal("1E+3")], "e", {"strict_checking": False, "use_regexp": True}),
            ([1e-7, 1e16, 0.1, Decimal("1.5"), Decimal("1E+3")], 1000, {}), ([1e-7, 1e16, {"k": 1e16}], 10 ** 16, {}),
            ([1e-7, 1e16, 0.1], "1E-07", {"strict_checking": False, "case_sensitive": True}),
            ([1e-7, 1e16, 0.1], "1E-07", {"strict_checking": False}),
            ([Decimal("1.5"), 1.5, {"k": Decimal("1.5")}], 1.5, {"exclude_types": ["Decimal"]}),
            ([float("nan"), float("inf"), -0.0, 0.0], 0, {}), ([float("nan"), float("inf"), -0.0, 0.0], "nan", {"strict_checking": False}),
            ([float("nan"), float("inf"), -0.0, 0.0], "-0.0", {"strict_checking": False}), ([True, Decimal("1"), 1.0], True, {}),
            ((Decimal("0.10"), Decimal("1.50"), 0.1), "0.1", {"strict_checking": False}),
            (["long somewhere", "string", 0, "somewhere great!"], "somewhere", {}),
            (["something somewhere", {"long": "somewhere", "string": 2, 0: 0, "somewhere": "around"}], "somewhere", {}),
            ({"long": "somewhere", "num": 1123456, 0: 0, "somewhere": "around"}, "1234", {"use_regexp": True, "strict_checking": False}),
            (["a", "10", 10, 20], "20", {"strict_checking": False}),
            ([{'a': 1, 'b': "somewhere"}, {'c': 4, 'b': "somewhere"}], "somewhere", {"exclude_regex_paths": ["root\\[\\d+\\]"]})]
    for obj, item, part in docs:
        for vl in (1, 2):
            cfg = full_cfg(dict(part, verbose_level=vl))
            do_case(ctx, obj, item, cfg, cases, "doc-example")
    ctx.coq_cases("search_witness", HEADER, cases, shard=300, label="witnesses_and_doc_examples")


def object_docs():
    """fixed cases with class instances, named tuples and unreadable objects"""
    docs = [
            # class instances (__dict__, class attribute + method, __slots__), named tuples, unreadable objects
            ([datetime.date(2024, 1, 2), datetime.datetime(2024, 1, 2, 3, 4)], "2024-01-02", {"strict_checking": False}),
            ([datetime.date(2024, 1, 2), datetime.datetime(2024, 1, 2, 3, 4)], "2024", {"strict_checking": False, "use_regexp": True}),
            ([datetime.date(2024, 1, 2), {"k": datetime.timedelta(days=1, seconds=5)}], "2024-01-02", {}),
            ([datetime.timedelta(days=1, seconds=5), datetime.timedelta(0)], "0:00:00", {"strict_checking": False, "exclude_types": ["datetime"]}),
            (A(b="x1", a=["x", 2]), "x", {}), (A(b="x1", a=["x", 2]), "a", {}), ([A(b="x1", a=["x", 2])], "A", {}),
            (M(zz="ameth"), "meth", {}), (M(zz="ameth", cv=3), "cv", {}), (M(zz="ameth"), "cv1", {"match_string": True}),
            (S(a=1, b="a", c=None), "a", {}), (S(a=1), "a", {}), ([S(a="a"), "a", E(x="a")], "a", {}), ({"k": S(a=1)}, "a", {}),
            (P(1, "y"), "y", {}), ({"k": P(1, 2)}, (1, 2), {}), ([P(1, 2)], (1.0, 2), {}), ([P(1, 2), (1, 2)], [1, 2], {}),
            ({"k": P(1, 2)}, 1, {}), ([P(1, 2), {"k": P(1, 2)}], 1, {"exclude_types": ["tuple"]}),
            ([P(1, 2), A(a=1), B(a=1)], 1, {"exclude_types": ["A", "P"]}), ({"k": A(a=1)}, 1, {"exclude_types": ["A"]}),
            (A(a=7), 7, {"exclude_types": ["A"]}), (A(a=1, b={"a": 1}), 1, {"exclude_paths": ["root.a"]}),
            (A(a={"a": 1}), "A", {}), (A(a=None, b="s"), None, {}), (A(_p=1, __q=1, __d__=1), 1, {}),
            (A(**{"we ird": 1, "1": 2}), 1, {}), (A(a=3.5, b=R("3.5", 3.5, [3.5])), "3.5", {"strict_checking": False}),
            (P(1, "yY"), "Y", {"use_regexp": True}), ([E(a="val"), "val", S()], "val", {"exclude_regex_paths": ["\\[2\\]"]}),
            ([R("n", A(x=P(0, S(a=1))), M())], "x", {}), (A(ſa="Ss", İb=["i̇B"]), "ſA", {}), (A(ſa="Ss", İb=["i̇b"]), "İB", {})]
    return docs


def only_named(obj):
    return not any(is_inst(v) or is_opaque(v) or is_method(v) or isinstance(v, (datetime.date, datetime.timedelta))
                   for _, v, _ in locations(obj))


def object_examples(ctx):
    cases = []
    for obj, item, part in [d for d in object_docs() if not only_named(d[0])]:
        for vl in (1, 2):
            do_case(ctx, obj, item, full_cfg(dict(part, verbose_level=vl)), cases, "object-example")
    ctx.coq_cases("search_object_examples", HEADER, cases, shard=300, label="object_examples")


def named_examples(ctx):
    cases = []
    for obj, item, part in [d for d in object_docs() if only_named(d[0])]:
        for vl in (1, 2):
            do_case(ctx, obj, item, full_cfg(dict(part, verbose_level=vl)), cases, "namedtuple-example")
    ctx.coq_cases("search_named_examples", HEADER, cases, shard=300, label="namedtuple_examples")


def variant(rng, obj, with_bytes):
    """Another object for the same grep instance: a one-edit neighbour, or a fresh one."""
    if rng.random() < 0.5:
        return gen_obj(rng, rng.choice([2, 3]), 3, with_bytes)
    v = copy.deepcopy(obj)
    if isinstance(v, list):
        v.insert(rng.randint(0, len(v)), gen_leaf(rng, with_bytes))
    elif isinstance(v, dict):
        v[rng.choice(STRS)] = gen_obj(rng, 1, 2, with_bytes)
    else:
        v = [v, gen_leaf(rng, with_bytes)]
    return v


def grep_step(ctx, g, obj, item, cfg, cases, tag, seq):
    """One use `obj | g` of a (possibly already used) grep instance: its result must be the one of a
    direct DeepSearch(obj, item, **options) and the one of the model (a pure function of obj, item, options)."""
    obj = copy.deepcopy(obj)
    locs = locations(obj)
    verbose2 = cfg["verbose_level"] >= 2
    gres = run_call(lambda: obj | g)
    dres = run_impl(obj, item, kwargs_of(cfg))
    ctx.seen(("grep", tag, len(seq), repr(obj), repr(item), repr(sorted(cfg.items()))),
             nontrivial=gres[0] != "ok" or bool(gres[1]) or bool(gres[2]))
    ctx.count("grep_instance:use_%d" % min(len(seq) + 1, 3))
    seq.append(repr(obj))
    if expected_of(gres, verbose2) != expected_of(dres, verbose2):
        c = case_dict(obj, item, cfg, "use no. %d of one grep instance gives %r, DeepSearch(obj, item, **options) gives %r" % (
            len(seq), gres[1:3] if gres[0] == "ok" else gres, dres[1:3] if dres[0] == "ok" else dres))
        c["grep_sequence"] = list(seq)
        ctx.fail(c, "a grep(item, **options) instance used with | for the %s time: the result differs from DeepSearch(obj, item, "
                    "**options) (options lost or changed between uses)" % ("first" if len(seq) == 1 else "%d." % len(seq)))
    cases.append((model_case(obj, item, cfg, locs), expected_of(gres, verbose2),
                  {"tag": tag, "obj": repr(obj), "item": repr(item), "options": cfg, "grep_sequence": list(seq)}))


def grep_sequence(ctx, objs, item, cfg, cases, tag):
    from deepdiff import grep
    kw = kwargs_of(cfg)
    before = repr(sorted((k, repr(v)) for k, v in kw.items()))
    g = grep(item, **kw)
    seq = []
    for o in objs:
        grep_step(ctx, g, o, item, cfg, cases, tag, seq)
    if repr(sorted((k, repr(v)) for k, v in kw.items())) != before:
        ctx.fail(dict(case_dict(objs[0], item, cfg, "options after the searches: %r" % (kw,)), grep_sequence=seq),
                 "grep modified the option values it was given")


def grep_reuse(ctx, n, with_objs=False):
    """The grep front end: ONE grep(item, **options) instance (options biased towards exclusions), used with |
    two or three times on the same and on different objects."""
    rng = ctx.rng
    cases = []
    fixed = [([{'a': 1, 'b': "somewhere"}, {'c': 4, 'b': "somewhere"}], "somewhere", {"exclude_paths": ["root[0]['b']"]}),
             ({'k': ['x1', 'x2'], 'x': 'x'}, 'x', {"exclude_regex_paths": ["\\[1\\]"], "exclude_paths": ["root['x']"]}),
             ([1.5, 'x1.5', [1.5]], '1.5', {"exclude_types": ["float"], "strict_checking": False})]
    if with_objs:
        fixed = [([A(a=1, b="somewhere"), S(a="somewhere")], "somewhere", {"exclude_paths": ["root[0].b"]}),
                 (A(k=P('x1', 'x2'), x='x'), 'x', {"exclude_regex_paths": ["\\.y$"], "exclude_types": ["B"]})]
    for obj, item, part in fixed:
        grep_sequence(ctx, [obj, obj, copy.deepcopy(obj)], item, full_cfg(part), cases, "grep-fixed")
    made = 0
    while made < n:
        with_bytes = rng.random() < 0.08
        obj = gen_obj(rng, rng.choice([2, 2, 3]), rng.choice([2, 3, 4]), with_bytes, with_objs)
        locs = locations(obj)
        cfg = gen_cfg(rng, locs)
        texts = [path_text(s) for s, _, _ in locs]
        if rng.random() < 0.6 and not cfg["exclude_paths"]:
            cfg["exclude_paths"] = sorted(set(rng.choice(texts) for _ in range(rng.randint(1, 2))))
        if rng.random() < 0.3 and not cfg["exclude_regex_paths"]:
            cfg["exclude_regex_paths"] = [rng.choice(EXCL_RX)]
        item = gen_item(rng, obj, locs, cfg["use_regexp"])
        objs = [obj, variant(rng, obj, with_bytes), obj][:rng.choice([2, 3, 3])]
        grep_sequence(ctx, objs, item, cfg, cases, "grep-random")
        made += 1
    ctx.coq_cases("search_grep" + ("_objects" if with_objs else ""), HEADER, cases, shard=250, label="grep_instance_reuse")


# ---------------------------------------------------------------------------
# source tie (harness/translate/searchdispatch.py -> coq/srctie/SearchGen.v, proofs coq/srctie/SearchGenEquiv.v)
# ---------------------------------------------------------------------------

SOURCE_TIES = [{"name": "searchdispatch", "translator": "searchdispatch", "gen_module": "SearchGen", "equiv": ["SearchGenEquiv"],
                "needs": ["Search.SearchStmtFacts", "Search.SearchExtract", "Search.SearchShow"],
                "sources": ["deepdiff/search.py", "deepdiff/helper.py"],
                "fragment": "class DeepSearch: __init__ (normalisation of item, call of __search), __report, __skip_this, __search_str, "
                            "__search_numbers, __search_dict, __search_iterable, __search_obj, __search_tuple, __search (dispatcher)"}]

# the generated model rendered exactly like SearchShow.run_search renders the hand-written one
TIE_RUN = r"""
From DD Require Import Search.SearchStmt.
From DDGen Require Import SearchGen.
Definition g_reports (v2 : bool) (rk : pystr) (ops : list top) : sx :=
  if v2 then SL (map (fun kv => SL [sx_str (fst kv); sx_xvalue (snd kv)]) (ops_dict rk ops))
  else SL (map sx_str (ops_set rk ops)).
Definition g_run_search (vl : Z) (c : config)
           (re_ok : bool) (re_tbl excl_tbl : list (pystr * bool)) (b_tbl l_tbl : list (pystr * pystr)) (re_text : pystr)
           (str_attrs bytes_attrs : list pystr) (item : value) (obj : xvalue) : sx :=
  let o := mkOracles (tbl_lower l_tbl) (tbl_str b_tbl) (tbl_bool re_tbl) re_ok (tbl_bool excl_tbl) re_text str_attrs bytes_attrs in
  match g_init o c vl obj item with
  | GRaise => SA "raise"%string
  | GReErr => SA "reerror"%string
  | GOk ops => let v2 := (vl >=? 2)%Z in
               SL [SA "ok"%string; g_reports v2 rk_paths ops; g_reports v2 rk_values ops; SL (map sx_str (ops_list rk_unprocessed ops))]
  end.
"""


def _tie_pairs(ctx, name, pairs, shard=200, timeout=900):
    """pairs: [(generated_expr, hand_expr)], both of type sx; returns the indices on which they evaluate differently
    (None when the comparison itself could not be compiled)."""
    from concurrent.futures import ThreadPoolExecutor
    import os
    gen_dir = os.path.join(ctx.scratch, "srctie")
    files = []
    shards = [pairs[i:i + shard] for i in range(0, len(pairs), shard)]
    for k, sh_ in enumerate(shards):
        fn = os.path.join(ctx.scratch, "tiediff_%s_%d.v" % (name, k))
        with open(fn, "w") as f:
            f.write("From Coq Require Import List String ZArith NArith Bool.\nImport ListNotations.\nFrom DD Require Import Base.Sx.\n")
            f.write(HEADER + "\n" + TIE_RUN + "\nLocal Open Scope string_scope.\n")
            f.write("Definition cases : list (sx * sx) := [\n")
            f.write(";\n".join("(%s,\n %s)" % (g, h) for g, h in sh_))
            f.write("\n].\nEval vm_compute in run_cases cases.\n")
        files.append(fn)

    def one(fn):
        return core.sh(["coqc", "-Q", core.THEORIES, "DD", "-Q", gen_dir, "DDGen", fn], timeout=timeout, cwd=ctx.scratch)
    with ThreadPoolExecutor(max_workers=core.NCPU) as ex:
        results = list(ex.map(one, files))
    bad = []
    for k, (rc, out) in enumerate(results):
        m = re.search(r'"BEGIN\n(.*)END"', out, re.S)
        if rc != 0 or not m:
            return None, out[-800:]
        for line in m.group(1).replace('""', '"').splitlines():
            if line.strip():
                bad.append(k * shard + int(line.partition("\t")[0]))
    return bad, ""


def _tie_inputs(ctx):
    """(obj, item, cfg) triples for the generated-vs-hand differencing: the module's small exhaustive universe (values of
    depth <= 2) x the fixed item list x mode combinations, then random objects (plain, named tuples, number-like leaves),
    then class instances (judged as extension stream)."""
    rng = core.random.Random(ctx.seed + 16)
    out = []
    objs = V.small_universe(atoms=(None, 1, "Ab"), maxlen=2, depth=2, kinds="LD")
    objs += [("Ab", 1), (1, ["a", "Ab"]), {"a", 1}, frozenset(["Ab"]), [("a",), {"k": ("Ab", 1.5)}], {"Ab": ("a", {"b"})}, "Ab", 1, 1.5, None, b"ab",
             [b"ab", "ab"], {1.5: "1.5", "k": 2}, [P("a", 1)], {"k": P(1, "Ab")}, [True, 1.0, "1"]]
    items = ["a", "A", "b", "ab", "Ab", 1, "1", True, None, 1.5, "1.5", "root", "[0]", "'Ab'", b"a", b"ab", [1], ("a",), "k"]
    modes = [dict(verbose_level=vl, case_sensitive=cs_, match_string=ms, strict_checking=st, use_regexp=rx)
             for vl in (1, 2) for cs_ in (False, True) for ms in (False, True) for st in (True, False) for rx in (False, True)]
    combos = [(o_, i_) for o_ in objs for i_ in items]
    rng.shuffle(combos)
    for n, (o_, i_) in enumerate(combos[:2500]):
        cfg = full_cfg(modes[n % len(modes)] if n % 3 else rng.choice(modes))
        r = rng.random()
        if r < 0.15:
            cfg["exclude_types"] = [rng.choice(["str", "int", "float", "list", "dict", "bool", "tuple"])]
        elif r < 0.3:
            locs = locations(o_)
            if len(locs) > 1:
                cfg["exclude_paths"] = [path_text(rng.choice(locs)[0])]
        elif r < 0.36:
            cfg["exclude_regex_paths"] = [rng.choice(EXCL_RX)]
        if cfg["use_regexp"] and isinstance(i_, str):
            cfg = dict(cfg)
        out.append((copy.deepcopy(o_), i_, cfg, False))
    for with_objs, n, ext in (("named", 250, False), ("nums", 250, False), (False, 500, False), (True, 400, True)):
        made = 0
        while made < n:
            obj = gen_obj(rng, rng.choice([1, 2, 2, 3]), rng.choice([2, 3]), rng.random() < 0.15, with_objs)
            locs = locations(obj)
            cfg = gen_cfg(rng, locs)
            cfg.pop("shape", None)
            item = gen_item(rng, obj, locs, cfg["use_regexp"])
            if isinstance(item, re.Pattern):
                continue
            out.append((obj, item, cfg, ext))
            made += 1
    return out


def on_source_tie_break(ctx, name, rec):
    """core.source_tie_step calls this when the source tie is not intact.  When the generated model compiled (the
    equivalence proof is what broke), generated and hand-written model are evaluated inside Coq on the inputs of
    _tie_inputs; the smallest inputs on which they differ go through the ordinary case machinery (implementation run,
    direct oracle, correspondence with the hand model): a property failure -> ctx.fail, a model / implementation
    disagreement -> correspondence break.  Never a failure by itself."""
    info = {"status": rec.get("status")}
    if rec.get("status") not in ("equivalence-proof-broken", "not-closed", "hygiene"):
        info["searched"] = "nothing inside Coq (no generated model to evaluate); the streams of run() use thorough-size budgets"
        return info
    ctx.ensure_built(HEADER + "\nFrom DD Require Import Search.SearchStmt.")
    inputs = _tie_inputs(ctx)
    pairs, kept = [], []
    for obj, item, cfg, ext in inputs:
        BACK.clear()
        try:
            h = model_case(obj, item, cfg, locations(obj))
        except Exception:
            continue
        head, _v2, rest = h.split(" ", 2)
        pairs.append(("g_run_search (%d)%%Z %s" % (cfg["verbose_level"], rest), h))
        kept.append((obj, item, cfg, ext))
    bad, err = _tie_pairs(ctx, name, pairs)
    info["generated_vs_hand_model"] = {"inputs": len(pairs), "small_universe_and_random": True}
    if bad is None:
        info["searched"] = "the differencing file did not compile: " + err
        return info
    info["generated_vs_hand_model"]["differing"] = len(bad)
    if not bad:
        info["searched"] = "%d inputs evaluated in Coq, generated and hand-written model agree on all of them" % len(pairs)
        return info
    diff = sorted((kept[i] for i in bad), key=lambda t: (t[3], len(repr(t[0])) + len(repr(t[1])) + len(repr(sorted(t[2].items())))))
    first = diff[0]
    info["first_differing_input"] = {"obj": repr(first[0]), "item": repr(first[1]), "options": fmt_kw(first[2])}
    plain = [t for t in diff if not t[3]][:12]
    objs = [t for t in diff if t[3]][:6]
    f0, b0 = len(ctx.failures), len(ctx.breaks)
    cases = []
    for obj, item, cfg, _ in plain:
        do_case(ctx, obj, item, cfg, cases, "source-tie-diff")
    ctx.coq_cases("search_tiediff", HEADER, cases, label="source_tie_diff")
    if objs:
        with ctx.extension("Obj"):
            cases = []
            for obj, item, cfg, _ in objs:
                do_case(ctx, obj, item, cfg, cases, "source-tie-diff-objects")
            ctx.coq_cases("search_tiediff_objects", HEADER, cases, label="source_tie_diff_objects")
    info["replayed_on_implementation"] = {"plain": len(plain), "objects": len(objs),
                                          "new_oracle_failures": len(ctx.failures) - f0, "new_breaks": len(ctx.breaks) - b0}
    info["searched"] = "%d inputs evaluated in Coq, %d differ; the smallest were run on the implementation with the direct oracle" % (len(pairs), len(bad))
    return info


def run(ctx):
    # a source tie that is not intact: thorough-size budgets for the streams that exercise the translated fragment
    # (not when the tie hook has already produced a failing input: nothing more to look for)
    big = ctx.thorough or (ctx.tie_broken("searchdispatch") and not ctx.failures)
    witnesses(ctx)
    grep_reuse(ctx, 1500 if big else 250)
    random_cases(ctx, 12000 if big else 2300)
    # named tuples are tuples (the property's quantifier names tuples): part of the property's own streams
    random_cases(ctx, 2500 if big else 400, with_objs="named", name="search_named", tag="random-namedtuples")
    named_examples(ctx)
    # numbers outside the half-integers (0.1, 1e-07, 1e+16, nan, inf, -0.0) and Decimals: exact text through str(obj)
    random_cases(ctx, 2500 if big else 400, with_objs="nums", name="search_numbers", tag="random-numbers")
    universe_cases(ctx, 12000 if big else 600)
    # extension: class instances / named tuples / unreadable objects (`unprocessed`) inside the same model and theorems.
    # The property's quantifier speaks about dict / list / tuple / str / numbers / None only: what fails here is
    # recorded in the evidence file (EXTENSION-NOTE), never a violation (core.Ctx.extension)
    with ctx.extension("Obj"):
        object_examples(ctx)
        random_cases(ctx, 6000 if big else 1000, with_objs=True, name="search_objects", tag="random-objects")
        grep_reuse(ctx, 300 if big else 60, with_objs=True)
    # extension: cyclic objects (a container that holds itself or an ancestor: the parents_ids guard), atom items
    with ctx.extension("Cyclic"):
        cyclic_cases(ctx, 1500 if big else 250)


def _eval(text):
    return eval(text, {"__builtins__": {}}, dict({"frozenset": frozenset, "set": set, "re": re, "Decimal": Decimal, "datetime": datetime,
                                                 "nan": float("nan"), "inf": float("inf")}, **CLASSES, **NAMED))


def replay(ctx, data):
    case = data.get("case") or {}
    if "obj" not in case:
        for b in data.get("breaks", []):
            d = b.get("detail", {})
            if isinstance(d.get("case"), dict) and "obj" in d["case"]:
                case = d["case"]
                break
    if "obj" not in case:
        return run(ctx)
    obj, item, cfg = _eval(case["obj"]), _eval(case["item"]), full_cfg(case["options"])
    if "pickle" in case:
        obj = pickle.loads(base64.b64decode(case["pickle"]))
    cases = []
    if case.get("grep_sequence"):
        objs = [_eval(t) for t in case["grep_sequence"]]
        print("replay: one grep(%r, %s) instance used on %d objects" % (item, fmt_kw(cfg), len(objs)))
        grep_sequence(ctx, objs, item, cfg, cases, "replay-grep")
    do_case(ctx, obj, item, cfg, cases, "replay")
    kw = kwargs_of(cfg)
    print("replay: DeepSearch(%r, %r, %s)" % (obj, item, fmt_kw(cfg)))
    print("replay: implementation -> %r" % (run_impl(copy.deepcopy(obj), item, kw),))
    print("replay: reference      -> %r" % (ref_search(obj, item, kw),))
    ctx.coq_cases("search_replay", HEADER, cases, label="replay")

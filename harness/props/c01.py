"""C01 - t1 + Delta(DeepDiff(t1, t2)) == t2 (ordered comparison, every configuration).

proof:           Delta/*.v -> Properties/C01.v
correspondence:  Delta payload (every category, paths as Delta parses them) and the
                 result of applying it, implementation vs model, on generated pairs
direct oracle:   the statement itself: typed equality of t1 + delta with t2, inputs
                 unmodified, no error logged; chains of edits; ignore_order clause
streams:         harness/c01chain.py (chains on the running result, hypothesis okb as a Coq boolean),
                 harness/c01np.py (numpy arrays edited in place), harness/c01free.py (tuples of different
                 length + hand-built payloads against the faithful refinement Delta/DeltaFaithful.v);
                 extension streams (recorded, never a violation): IgnoreOrderBeyondText, SharedSubObjects, Obj
"""
import copy
import itertools

from harness import core, values as V, diffcommon as D, deltacommon as DC

THEOREM_FILE = "Properties/C01.v"
COQCHK = ["Properties.C01"]
COQ_NEEDS = []
RULE = ("pairs (t1,t2): exhaustive small universe (atoms {None,True,2,0.5,'a',''}, containers list/dict/set of length <= 2, depth <= 2; "
        "thorough: all ordered pairs, quick: seeded slice), random nested values with 1-3 edits, atom lists (length <= 12, 4-atom alphabet, "
        "insert/delete/replace/move/duplicate/rotate) planted under 0-2 container levels, edit chains of length <= 6; "
        "x zip_ordered_iterables x threshold {0,0.33,0.9} x verbose {0,1,2} x view {text,tree} x always_include_values x operand order "
        "(t1 + delta, delta + t1); same-shape numeric numpy arrays (1-3 dimensions, 4 dtypes, 3 memory layouts); chains of <= 4 steps on the "
        "running result from a reordered start; tuples of different length and hand-built payloads (c01free). "
        "Non-trivial = t1 != t2 (non-empty delta); distinct by (t1,t2,config).")
TRUSTED = ["difflib opcodes, unified-diff text, DeepHash of set members, Python's constructor calls new_type(old_value) (conv), the order of the "
           "sorted() passes of Delta and (ignore_order clause) the pairing of _get_most_in_common_pairs_in_iterables enter the model as oracles; "
           "the harness feeds the model what the implementation uses",
           "delta paths are strings re-parsed by Delta; the model works on the parsed key sequences (C09 relates the two for well-behaved keys)",
           "numpy arrays: NaN, dtype changes and shape changes are outside the model Delta/DeltaNp.v (probe counters only)"]
ASSUMPTIONS = ["tree-shaped inputs; floats are half-integers; tuples hold scalars only (findings F4/F6); no ==-equal atoms of different type (finding KA)"]

THRS = (0, 0.33, 0.9)


# ---- known findings ---------------------------------------------------------
# Matchers are counterfactual, hence narrow: a failing input is attributed to a
# finding only if the failure disappears when exactly the feature the finding is
# about is removed from the input (and the feature is present).

def _map(v, f):
    if isinstance(v, list):
        return [_map(x, f) for x in v]
    if isinstance(v, tuple):
        return f(tuple(_map(x, f) for x in v))
    if isinstance(v, dict):
        return {f(k): _map(x, f) for k, x in v.items()}
    if isinstance(v, frozenset):
        return frozenset(f(x) for x in v)
    if isinstance(v, set):
        return {f(x) for x in v}
    return f(v)


def dealias(v):
    """bools and integer-valued floats become tagged strings: no two atoms of different type are == any more"""
    def f(a):
        if isinstance(a, bool):
            return "\u00a7b%d" % a
        if isinstance(a, float) and a == int(a):
            return "\u00a7f%d" % int(a)
        return a
    return _map(v, f)


def detuple(v):
    if isinstance(v, (list, tuple)):
        return [detuple(x) for x in v]
    if isinstance(v, dict):
        return {k: detuple(x) for k, x in v.items()}
    return v


def holds(t1, t2, cfg, always=False):
    """the C01 statement on one input (overridden by C08 with the inversion statement)"""
    out = run_impl(t1, t2, {k: v for k, v in cfg.items() if k != "ignore_order"} if False else cfg, always)
    return "exc" not in out and V.typed_eq(out["result"], t2) and not out["errors"] and out["unmodified"]


def _inputs(case):
    t1, t2 = eval(case["t1"]), eval(case["t2"])
    return t1, t2, dict(case.get("cfg", {})), case.get("always_include_values", False)


INPUT_MODIFIED = "an input was modified"
# the clause of the statement a failing case violates (recorded in every case by `oracle`)
RAISED, DIFFERS, LOGGED = "raised", "result differs from t2", "an error was logged"


def _refuse(case):
    """a finding is never about modified inputs (seeded C01-7), about numpy arrays, about inputs with shared
    sub-objects (outside the quantifier), about the ignore-order clause, or about a chain step at which the
    constructor hypothesis okb was observed to hold (there F7's mechanism cannot be the cause)"""
    return (case.get("clause") == INPUT_MODIFIED or case.get("numpy") or case.get("shared")
            or dict(case.get("cfg", {})).get("ignore_order"))


def m_tuple_container(case, holds_fn=None):
    """F4: a container that is an item of a tuple has to be edited.  Predicted outcome: the write into the parent
    tuple fails - logged ('tuple' object does not support item assignment -> result differs / error logged) or
    RuntimeError / TypeError raised.  Attributed only if the case passes once tuples are lists."""
    if not case.get("container_in_tuple") or not case.get("tuple_item_replaced", True) or _refuse(case):
        return False
    if case.get("clause") == RAISED and case.get("exc_class") not in ("RuntimeError", "TypeError", "AttributeError", "DeltaError"):
        return False
    if case.get("clause") == DIFFERS and "errors" in case and not case["errors"]:
        # the failed write into a tuple is always logged; the only SILENT outcome of F4's mechanism is a coerced tuple
        # that is not restored (a tuple nested in a coerced tuple: the result is t2 with some tuple left as a list)
        t2 = eval(case["t2"])
        try:
            r = eval(case.get("observed", ""))
        except Exception:
            return False
        if V.typed_eq(r, t2) or not V.typed_eq(detuple(r), detuple(t2)):
            return False
    t1, t2, cfg, always = _inputs(case)
    return (holds_fn or holds)(detuple(t1), detuple(t2), cfg, always)


def m_alias(case, holds_fn=None):
    """KA: numerically equal atoms of different type co-occur.  Predicted outcome: a wrong RESULT (the alias is
    taken for the other atom: set union/difference, == in difflib / _do_item_removed), sometimes with an error logged or
    a KeyError / IndexError / ValueError raised when the aliased key is not found.  Attributed only if the
    case passes once the aliased atoms are made distinct."""
    if not case.get("alias") or _refuse(case):
        return False
    if case.get("clause") == RAISED and case.get("exc_class") not in ("KeyError", "IndexError", "ValueError", "TypeError", "DeltaError"):
        return False
    t1, t2, cfg, always = _inputs(case)
    return (holds_fn or holds)(dealias(t1), dealias(t2), cfg, always)


def has_retype(t1, t2):
    """some paired position (lists positionally, dicts by key) changes its container type, or a scalar becomes a
    container / vice versa: the only places where new_type(old_value) is called with the values omitted"""
    if type(t1) is type(t2):
        if isinstance(t1, (list, tuple)):
            return any(has_retype(x, y) for x, y in zip(t1, t2))
        if isinstance(t1, dict):
            return any(has_retype(t1[k], t2[k]) for k in t1 if k in t2)
        return False
    return isinstance(t1, (list, tuple, dict, set, frozenset)) or isinstance(t2, (list, tuple, dict, set, frozenset))


def f7_explains(t1, t2, r):
    """Does F7's mechanism explain the observed result r?  Walk the pairing of the ordered diff (lists / tuples
    positionally, dicts by key): away from type changes r must be t2 (typed); at a type change t1' -> t2' whose values
    the delta omits (new_type(t1') == t2' in Python's sense) r must hold what the constructor call builds,
    new_type(t1') (for a set / frozenset source: in any iteration order), and that must differ from t2' by its types
    or order.  Returns the number of such positions, or None when something else differs."""
    if V.typed_eq(r, t2):
        return 0
    if type(t1) is type(t2):
        if type(r) is not type(t2):
            return None
        if isinstance(t2, (list, tuple)):
            if len(r) != len(t2):
                return None
            hits = 0
            for i in range(len(t2)):
                h = f7_explains(t1[i], t2[i], r[i]) if i < len(t1) else (0 if V.typed_eq(r[i], t2[i]) else None)
                if h is None:
                    return None
                hits += h
            return hits
        if isinstance(t2, dict):
            if not V.typed_eq(sorted(map(repr, map(V.canon_atom, r))), sorted(map(repr, map(V.canon_atom, t2)))):
                return None
            hits = 0
            for k in t2:
                h = f7_explains(t1[k], t2[k], r[k]) if k in t1 else (0 if V.typed_eq(r[k], t2[k]) else None)
                if h is None:
                    return None
                hits += h
            return hits
        return None
    if not isinstance(t2, (list, tuple, dict, set, frozenset)):
        return None
    try:
        p = type(t2)(copy.deepcopy(t1))
    except Exception:
        return None
    if not (p == t2):
        return None                     # the values are stored in the delta: not F7's situation
    if V.typed_eq(r, p):
        return 1
    if isinstance(t1, (set, frozenset)) and type(r) is type(p) and isinstance(p, (list, tuple)) and len(r) == len(p) \
            and sorted(map(repr, map(V.canon, r))) == sorted(map(repr, map(V.canon, p))):
        return 1
    return None


def m_unordered_conv(case, holds_fn=None):
    """F7: a type change whose values were omitted although new_type(old_value) does not reproduce the new
    value with its types (set/frozenset -> list/tuple iteration order; nested set vs frozenset).  Predicted
    outcome: a wrong RESULT without any error, and exactly the one the constructor call builds: the observed result is
    t2 everywhere except at such type changes, where it holds new_type(old_value) (f7_explains replays the mechanism).
    Attributed only then, and if the case passes once the values are always included"""
    if case.get("always_include_values") or _refuse(case) or case.get("okb"):
        return False
    if case.get("clause") in (RAISED, LOGGED) or case.get("errors"):
        return False
    t1, t2, cfg, always = _inputs(case)
    if not has_retype(t1, t2):
        return False
    try:
        r = eval(case.get("observed", ""))
    except Exception:
        return False
    if not f7_explains(t1, t2, r):
        return False
    return (holds_fn or holds)(t1, t2, cfg, True)


MATCHERS = {"F4": m_tuple_container, "KA": m_alias, "F7": m_unordered_conv}


def has_set_to_seq(t1, t2):
    if isinstance(t1, (set, frozenset)) and isinstance(t2, (list, tuple)):
        return True
    if type(t1) is type(t2):
        if isinstance(t1, (list, tuple)):
            return any(has_set_to_seq(x, y) for x, y in zip(t1, t2))
        if isinstance(t1, dict):
            return any(has_set_to_seq(t1[k], t2[k]) for k in t1 if k in t2)
    return False


def tuple_item_replaced(t1, t2):
    """F4's exact feature: along the pairing of the ordered diff (lists / tuples positionally, dicts by key) some
    item of a TUPLE that is, or becomes, a container has to be replaced as an object - the paired items differ and are
    not both lists / both dicts (those are mutated in place and work), or the tuple changes its length while holding
    a container"""
    _C = (list, tuple, dict, set, frozenset)
    if type(t1) is not type(t2):
        return False
    if isinstance(t1, tuple):
        if len(t1) != len(t2):
            return any(isinstance(x, _C) for x in t1 + t2)
        for x, y in zip(t1, t2):
            if V.typed_eq(x, y):
                continue
            if (isinstance(x, list) and isinstance(y, list)) or (isinstance(x, dict) and isinstance(y, dict)):
                if tuple_item_replaced(x, y):
                    return True
            elif isinstance(x, _C) or isinstance(y, _C):
                return True
        return False
    if isinstance(t1, list):
        return any(tuple_item_replaced(x, y) for x, y in zip(t1, t2))
    if isinstance(t1, dict):
        return any(tuple_item_replaced(t1[k], t2[k]) for k in t1 if k in t2)
    return False


def describe(t1, t2):
    return dict(container_in_tuple=DC.has_container_in_tuple(t1) or DC.has_container_in_tuple(t2),
                tuple_item_replaced=tuple_item_replaced(t1, t2),
                alias=V.contains_alias(t1, t2), set_to_seq_type_change=has_set_to_seq(t1, t2))


def in_guard(t1, t2):
    d = describe(t1, t2)
    return not (d["container_in_tuple"] or d["alias"] or d["set_to_seq_type_change"]) and D.in_model_guard(t1, t2)


# ---- one (t1, t2, config) ---------------------------------------------------

def run_impl(t1, t2, cfg, always, bidir=False, radd=False):
    """returns dict(result|exc, errors_logged, inputs_unmodified, delta, tree); radd: delta + t1 (Delta.__radd__ is
    __add__: both operand orders are accepted shapes of the same call)"""
    from deepdiff import DeepDiff, Delta
    a, b = copy.deepcopy(t1), copy.deepcopy(t2)
    sa, sb = V.canon(a), V.canon(b)
    out = {}
    try:
        dd = DeepDiff(a, b, **cfg)
        d = Delta(dd, always_include_values=always, bidirectional=bidir, mutate=False)
        with DC.Counting() as cnt:
            r = (d + a) if radd else (a + d)
        out.update(result=r, errors=cnt.n, delta=d, dd=dd)
    except Exception as e:
        out.update(exc=e)
    out["unmodified"] = (V.canon(a) == sa and V.canon(b) == sb)
    return out


def oracle(ctx, t1, t2, cfg, always, out, extra=None):
    case = dict(t1=repr(t1), t2=repr(t2), cfg={k: v for k, v in cfg.items()}, always_include_values=always, **describe(t1, t2))
    case.update(extra or {})
    if "exc" in out:
        case["observed"] = "raised %s: %s" % (type(out["exc"]).__name__, str(out["exc"])[:200])
        ctx.fail(dict(case, clause=RAISED, exc_class=type(out["exc"]).__name__), "t1 + Delta(DeepDiff(t1,t2)) raised " + type(out["exc"]).__name__)
        if not out["unmodified"]:
            ctx.fail(dict(case, observed=INPUT_MODIFIED, clause=INPUT_MODIFIED), "DeepDiff/Delta modified an input (mutate=False)")
        return False
    ok = True
    if not V.typed_eq(out["result"], t2):
        ctx.fail(dict(case, observed=repr(out["result"]), clause=DIFFERS, errors=out["errors"]), "t1 + Delta(DeepDiff(t1,t2)) != t2")
        ok = False
    elif out["errors"]:
        ctx.fail(dict(case, observed="%d error(s) logged while applying" % out["errors"], clause=LOGGED), "applying the delta to its own t1 logged an error")
        ok = False
    if not out["unmodified"]:
        # no known finding is about modified inputs: the matchers refuse this clause (seeded C01-7)
        ctx.fail(dict(case, observed=INPUT_MODIFIED, clause=INPUT_MODIFIED), "DeepDiff/Delta modified an input (mutate=False)")
        ok = False
    return ok


def configs(rng, full):
    if full:
        for zip_, thr, verbose, view, always in itertools.product((False, True), THRS, (0, 1, 2), ("text", "tree"), (False, True)):
            yield zip_, thr, verbose, view, always
    else:
        for zip_ in (False, True):
            for thr in THRS:
                yield zip_, thr, rng.choice((0, 1, 2)), rng.choice(("text", "tree")), rng.random() < 0.4


def observe_guards(ctx, t1, t2, guard, always):
    """Python's in_guard vs the guards of the Coq theorem (mirror of DeltaChain.guardsb): counted, and
    every difference must have a known reason"""
    d0 = describe(t1, t2)
    g = DC.guardsb_py(t1, t2, False, always)
    ctx.count("hyp:guardsb_true" if g else "hyp:outside_guardsb")
    reasons = DC.guards_reasons(t1, t2, False, always)
    for r in reasons:
        ctx.count("hyp:outside_guardsb:" + r)
    if DC.alias_free_py(t1, t2) == d0["alias"]:
        ctx.break_("correspondence", {"name": "guards agreement", "detail": "alias_free (Coq guard) and contains_alias (Python in_guard) disagree",
                                      "t1": repr(t1), "t2": repr(t2)})
    if guard and not g:
        ctx.count("hyp:in_guard_but_outside_guardsb")
        if "alias" in reasons:
            ctx.break_("correspondence", {"name": "guards agreement", "detail": "in_guard holds but guardsb fails on aliasing", "t1": repr(t1), "t2": repr(t2)})
    if g and not guard:
        ctx.count("hyp:guardsb_but_outside_in_guard")
        why = [k for k in ("container_in_tuple", "set_to_seq_type_change") if d0[k]] + ([] if D.in_model_guard(t1, t2) else ["model_guard"])
        for k in why:
            ctx.count("hyp:guardsb_but_outside_in_guard:" + k)
        if not why or d0["alias"]:
            ctx.break_("correspondence", {"name": "guards agreement", "detail": "guardsb holds, in_guard fails for no known reason", "t1": repr(t1), "t2": repr(t2)})
    return g


def observe_hypotheses(ctx, t1, t2, zip_, thr, always, d, conv, rem, add, g, hyp_cases, tag):
    """the oracle hypotheses of C01_roundtrip_partial on what the implementation supplied: difflib opcodes are a
    valid alignment, the sorted passes visit integer keys descending / ascending.  Mirror value is expected
    from the model (agreement); inside the theorem's guards a False is a break."""
    table = D.opcode_table(t1, t2)
    ops_ok = DC.ops_table_ok_py(t1, t2, table)
    r6, r9, a7, fallback = DC.impl_orders_split(d)
    ord_ok = DC.desc_ok(r6) and DC.desc_ok(r9) and DC.asc_ok(a7)
    ctx.count("hyp:valid_ops_true" if ops_ok else "hyp:valid_ops_false")
    ctx.count("hyp:orders_ok_true" if ord_ok else "hyp:orders_ok_false")
    if table:
        ctx.count("hyp:cases_with_opcode_tables")
    if len(r6) > 1 or len(r9) > 1 or len(a7) > 1:
        ctx.count("hyp:cases_with_a_sorted_pass_of_2+_items")
    if fallback:
        ctx.count("hyp:sort_fallback_comparator_used")
    if g:
        ctx.count("hyp:all_hypotheses_hold" if (ops_ok and ord_ok) else "hyp:guards_hold_but_oracle_hypothesis_fails")
        if not ops_ok:
            ctx.break_("correspondence", {"name": "hypothesis valid_ops", "detail": "difflib opcodes are not a valid alignment (tiling / equal blocks / non-empty blocks)",
                                          "case": tag, "opcodes": repr(table)[:600]})
        if not ord_ok:
            ctx.break_("correspondence", {"name": "hypothesis orders_ok", "case": tag,
                                          "detail": "a sorted pass of Delta does not visit sibling indexes %s (fallback comparator used: %s)"
                                                    % ("descending" if not (DC.desc_ok(r6) and DC.desc_ok(r9)) else "ascending", fallback),
                                          "orders": repr((r6, r9, a7))[:600]})
    hyp_cases.append(tag)
    return [g, ops_ok, ord_ok]


def one_pair(ctx, t1, t2, cases, full=False, corr=True, hyp_cases=None):
    guard = in_guard(t1, t2)
    ctx.count("in_model_guard" if guard else "outside_model_guard")
    for zip_, thr, verbose, view, always in configs(ctx.rng, full):
        cfg = dict(zip_ordered_iterables=zip_, threshold_to_diff_deeper=thr, verbose_level=verbose, view=view)
        radd = ctx.rng.random() < 0.25
        if radd:
            ctx.count("operand_order:delta_plus_t1")
        out = run_impl(t1, t2, cfg, always, radd=radd)
        ctx.seen((repr(t1), repr(t2), zip_, thr, verbose, view, always), nontrivial=not V.typed_eq(t1, t2))
        oracle(ctx, t1, t2, cfg, always, out, extra=dict(radd=True) if radd else None)
        g = observe_guards(ctx, t1, t2, guard, always)
        if corr and guard and "exc" not in out:
            # the delta does not depend on verbose/view: one model case per (zip, thr, always)
            d, dd = out["delta"], out["dd"]
            tree = dd.tree if view == "text" else dd
            rem, add = DC.impl_orders(d)
            conv = DC.conv_table(DC.type_change_pairs(tree))
            exp = [DC.delta_obs(d.diff), [DC.canon_unordered(out["result"]), out["errors"] > 0]]
            tag = dict(t1=repr(t1), t2=repr(t2), zip=zip_, thr=thr, always=always, verbose=verbose, view=view)
            if hyp_cases is not None:
                # one Coq expression: payload + applied result + the theorem's hypotheses observed
                hyp = observe_hypotheses(ctx, t1, t2, zip_, thr, always, d, conv, rem, add, g, hyp_cases, tag)
                expr = DC.model_expr_hyp(t1, t2, zip_, thr, False, always, t1, conv, rem, add)
                cases.append((expr, exp + [hyp], tag))
            else:
                expr = DC.model_expr(t1, t2, zip_, thr, False, always, t1, conv, rem, add)
                cases.append((expr, exp + [None], tag))
            if d.diff.get("_iterable_opcodes"):
                ctx.count("delta_with_opcodes")


def gen_random(ctx, n):
    rng = ctx.rng
    out = []
    for _ in range(n):
        r = rng.random()
        if r < 0.35:
            a, b, kinds = V.gen_atom_list_pair(rng)
            if rng.random() < 0.25 and len(a) == len(b):   # tuples are only edited in place (same length)
                a, b = tuple(a), tuple(b)
            t1, t2 = V.plant(rng, rng.choice([0, 0, 1, 2]), (a, b))
            ctx.count("gen:atom_list_edit")
        elif r < 0.45:
            # exactly one container re-typed with identical items (set<->frozenset, list<->tuple): Python's == may not see it
            t1 = V.gen_value(rng, depth=rng.choice([2, 3]), width=4, kinds="LLDSF")
            t2, k = t1, None
            for _ in range(8):
                t2, k = V.edit(rng, t1, kinds=["retype_equal"])
                if k:
                    break
            ctx.count("gen:single_retype" if k else "gen:single_retype_failed")
        elif r < 0.85:
            t1 = V.gen_value(rng, depth=rng.choice([2, 3, 4]), width=4, alias=rng.random() < 0.1)
            vals, kinds = V.edit_script(rng, t1, rng.randint(1, 3), alias=False)
            t2 = vals[-1]
            ctx.count("gen:edit_script")
            for k in kinds:
                ctx.count("edit:" + k)
        else:
            t1, t2 = V.gen_value(rng, 3, 4), V.gen_value(rng, 3, 4)
            ctx.count("gen:independent")
        if rng.random() < 0.12:
            # multi-line strings (difflib-rendered leaves), incl. pairs that differ only in their line terminators
            t1, t2, done = V.plant_multiline(rng, t1, t2)
            if done:
                ctx.count("gen:multiline_string_pair")
        out.append((t1, t2))
    return out


def chains(ctx, n):
    """edit histories t0..tk (k <= 6): the deltas of consecutive pairs applied in turn"""
    from deepdiff import DeepDiff, Delta
    rng = ctx.rng
    for _ in range(n):
        t0 = V.gen_value(rng, depth=3, width=4)
        vals, kinds = V.edit_script(rng, t0, rng.randint(2, 6))
        if any(not in_guard(a, b) for a, b in zip(vals, vals[1:])):
            ctx.count("chain_outside_guard")
        zip_, thr = rng.random() < 0.5, rng.choice(THRS)
        base = copy.deepcopy(vals[0])
        ok = True
        for i, (a, b) in enumerate(zip(vals, vals[1:])):
            clause, exc_class, nerr = DIFFERS, None, 0
            try:
                with DC.Counting() as cnt:
                    base = base + Delta(DeepDiff(copy.deepcopy(a), copy.deepcopy(b), zip_ordered_iterables=zip_, threshold_to_diff_deeper=thr))
                good, nerr = V.typed_eq(base, b), cnt.n
            except Exception as e:
                good, base, clause, exc_class = False, "raised %s" % type(e).__name__, RAISED, type(e).__name__
            if not good:
                case = dict(chain=[repr(v) for v in vals], step=i, t1=repr(a), t2=repr(b), observed=repr(base), clause=clause, errors=nerr,
                            cfg=dict(zip_ordered_iterables=zip_, threshold_to_diff_deeper=thr), **describe(a, b))
                if exc_class:
                    case["exc_class"] = exc_class
                ctx.fail(case, "edit chain: step %d does not reproduce t%d" % (i, i + 1))
                ok = False
                break
        ctx.seen(("chain", repr(vals), zip_, thr), nontrivial=len(vals) > 1)
        ctx.count("chain_len_%d" % (len(vals) - 1))


def reordered(v):
    """the same value with the insertion order of every dict reversed: == v, equal to v up to dict order (veqb)"""
    if isinstance(v, list):
        return [reordered(x) for x in v]
    if isinstance(v, tuple):
        return tuple(reordered(x) for x in v)
    if isinstance(v, dict):
        return {k: reordered(x) for k, x in reversed(list(v.items()))}
    return v


VEQ_FIXED = [({'k': {'a': 1, 'b': 2}}, {'k': ['a', 'b']}),            # C01_chain_veq_refuted_rebuild
             ({'a': {1, 2}, 'b': {'x': 1, 'y': 2}}, {'a': {2, 3}, 'b': {'y': 7, 'z': 5}}),   # first step of the Coq example
             ({'p': [1, {'u': 1, 'v': [2, 3]}], 'q': 's'}, {'q': 't', 'p': [1, {'v': [2, 4, 3], 'w': None}]})]


def veq_base_clause(ctx, pairs, n):
    """C01_roundtrip_veq_base_partial / C01_chain_veq_partial: the delta of (t1, t2) applied to a REORDERED copy of t1
    (every dict's insertion order reversed).  Inside the guards and when every type change whose values are omitted
    sits on a value that the reordering leaves alone (okb), the result is t2 and nothing is logged (direct oracle);
    outside okb the outcome is recorded.  The model is run on the same reordered base (correspondence c01v)."""
    from deepdiff import DeepDiff, Delta
    rng = ctx.rng
    cases = []
    cand = [(a, b) for a, b in list(VEQ_FIXED) + list(pairs) if V.canon(reordered(a)) != V.canon(a) and in_guard(a, b)]
    for t1, t2 in cand[:n]:
        zip_, thr, always = rng.random() < 0.5, rng.choice(THRS), rng.random() < 0.3
        cfg = dict(zip_ordered_iterables=zip_, threshold_to_diff_deeper=thr)
        base = reordered(t1)
        try:
            dd = DeepDiff(copy.deepcopy(t1), copy.deepcopy(t2), **cfg)
            d = Delta(dd, always_include_values=always, mutate=False)
            with DC.Counting() as cnt:
                r = copy.deepcopy(base) + d
        except Exception as e:
            ctx.count("veq_base:raised_" + type(e).__name__)
            continue
        tcs = list(dd.tree.get("type_changes", []) or [])
        risky = (not always) and any(V.canon(reordered(lv.t1)) != V.canon(lv.t1) for lv in tcs)
        good = V.typed_eq(r, t2) and cnt.n == 0
        ctx.seen(("veq_base", repr(t1), repr(t2), zip_, thr, always), nontrivial=not V.typed_eq(t1, t2))
        if good:
            ctx.count("veq_base:result_equals_t2" + (":type_change_on_reordered_value" if risky else ""))
        elif risky:
            ctx.count("veq_base:outside_okb:constructor_call_on_the_reordered_value_differs")
        else:
            ctx.fail(dict(t1=repr(t1), t2=repr(t2), base=repr(base), observed=repr(r), errors=cnt.n, cfg=cfg,
                          clause=DIFFERS if not V.typed_eq(r, t2) else LOGGED, always_include_values=always, **describe(t1, t2)),
                     "reordered t1 + Delta(DeepDiff(t1,t2)) != t2")
        rem, add = DC.impl_orders(d)
        tp = DC.type_change_pairs(dd.tree)
        conv = DC.conv_table(tp + [(ty, reordered(old)) for ty, old in tp])
        exp = [DC.delta_obs(d.diff), [DC.canon_unordered(r), cnt.n > 0]]
        tag = dict(t1=repr(t1), t2=repr(t2), base=repr(base), zip=zip_, thr=thr, always=always)
        cases.append((DC.model_expr(t1, t2, zip_, thr, False, always, base, conv, rem, add), exp, tag))
    ctx.coq_cases("c01v", DC.HDR, cases, shard=60, label="payload+apply on a reordered base")


def plant_ld(rng, depth, pair, dict_only=False):
    """wrap (a, b) identically into `depth` levels of list / dict (no tuples); dict_only: dict levels only (the domain of
    C01_ignore_order_perm_at_path_partial)"""
    a, b = pair
    for _ in range(depth):
        if (not dict_only) and rng.random() < 0.5:
            pre = [V.gen_atom(rng) for _ in range(rng.randint(0, 2))]
            a, b = copy.deepcopy(pre) + [a], copy.deepcopy(pre) + [b]
        else:
            key = rng.choice(["k", "k2", 1, 2.5, None])
            if rng.random() < 0.5:
                a, b = {key: a, "z": 0}, {key: b, "z": 0}
            else:
                a, b = {"z": 0, key: a}, {"z": 0, key: b}
    return a, b


def io_run(t1, t2):
    """base + Delta(DeepDiff(ignore_order=True, report_repetition=True)) with the pairings recorded"""
    from deepdiff import DeepDiff, Delta
    from harness.props import c05 as C5
    a, b = copy.deepcopy(t1), copy.deepcopy(t2)
    with C5.Recording() as rec:
        dd = DeepDiff(a, b, ignore_order=True, report_repetition=True)
        tbl = C5.pairs_table(rec)
    d = Delta(dd)
    with DC.Counting() as cnt:
        r = copy.deepcopy(t1) + d
    return dd, d, r, cnt.n, tbl


def ignore_order_clause(ctx, n):
    """ignore_order=True, report_repetition=True on lists of distinct scalars: the result equals t2 up to the
    order of items.  Direct oracle on every pair; correspondence of the index-map payload and of the rebuilt
    result with Delta/DeltaIO.v (lists at the root and planted under list / dict levels)."""
    from harness.props import c05 as C5
    rng = ctx.rng
    pool = [None, True, 2, 3, 0.5, 1.5, "a", "b", "", "ab", b"x", 7, -1]
    cases = []
    lev_cases = []
    for k in range(n):
        a = rng.sample(pool, rng.randint(0, 7))
        if rng.random() < 0.4:       # an edit of a: shares most items, so that pairing and survivors occur
            b = [x for x in a if rng.random() < 0.7] + rng.sample(pool, rng.randint(0, 3))
            b = list(dict.fromkeys(b))
            rng.shuffle(b)
        else:
            b = rng.sample(pool, rng.randint(0, 7))
        if V.contains_alias(a, b):
            continue
        depth = rng.choice([0, 0, 1, 2, 3])
        dict_only = rng.random() < 0.5
        t1, t2 = plant_ld(rng, depth, (a, b), dict_only)
        if V.contains_alias(t1, t2) or not D.in_model_guard(t1, t2):
            t1, t2, depth = a, b, 0
        # C01_ignore_order_perm_partial covers the root, C01_ignore_order_perm_at_path_partial every path through dict levels
        # (keys not hidden: plant_ld never uses a '__' key); list levels are covered by correspondence + direct oracle only
        path = D_path_to(t1, a)
        dom = ("root_theorem" if not path else
               "at_path_theorem(dict_levels)" if all(isinstance(_at_prefix(t1, path, i), dict) for i in range(len(path))) else "list_level")
        try:
            dd, d, r, nerr, tbl = io_run(t1, t2)
            if dom == "list_level":
                # C01_ignore_order_perm_below_lists_partial asks that the pairing of every list level on the way pairs exactly the two
                # planted items (observed here on the recorded pairings); the separation of the siblings' item hashes is a hypothesis
                # about the hasher and is not observed
                dom = "below_lists_theorem(planted_items_paired)" if _levels_paired(t1, path, tbl) else "list_level_unpaired_or_equal(correspondence_only)"
            ctx.count("ignore_order_domain:" + dom)
            if path and (ctx.thorough or k % 2 == 0):
                # the hypothesis lev_ok of C01_ignore_order_perm_below_lists_partial / _at_path_partial as a Coq boolean (lev_okb, sound) on the
                # generated context with the recorded pairings and the correspondence's hasher; and the context really is t1 / t2
                expr = ("SL [sx_lev_ok hexhash %s (tbl_pairs %s) %s %s %s; sx_value_unordered (fill %s %s); sx_value_unordered (fill %s %s)]" % (
                    D.coq_cfg(False, 0.33), C5.coq_pairs_table(tbl), coq_levels(t1, path), V.to_coq(a), V.to_coq(b),
                    coq_levels(t1, path), V.to_coq(a), coq_levels(t1, path), V.to_coq(b)))
                lev_cases.append((expr, [dom != "list_level_unpaired_or_equal(correspondence_only)", DC.canon_unordered(t1), DC.canon_unordered(t2)],
                                  dict(t1=repr(t1), t2=repr(t2), hypothesis="lev_ok", pairs=repr([(p_, ji) for p_, ji, _x, _y in tbl]))))
            x = r
            for step in path:
                x = x[step]
            # the list at the path holds t2's items in some order, nothing else of the value differs from t2, nothing logged
            good = (isinstance(x, list) and sorted(map(repr, map(V.canon_atom, x))) == sorted(map(repr, map(V.canon_atom, b))) and nerr == 0
                    and V.typed_eq(_blank_at(r, path), _blank_at(t2, path)))
        except Exception as e:
            good, r, d = False, "raised %s: %s" % (type(e).__name__, e), None
        ctx.seen(("io", repr(t1), repr(t2)), nontrivial=a != b)
        ctx.count("ignore_order_pairs")
        ctx.count("ignore_order_depth_%d" % depth)
        if not good:
            ctx.fail(dict(t1=repr(t1), t2=repr(t2), cfg=dict(ignore_order=True, report_repetition=True), observed=repr(r),
                          **describe(t1, t2)), "ignore_order: t1 + delta is not t2 up to order")
        if d is not None and (ctx.thorough or k % 2 == 0):
            rem, add = DC.impl_orders(d)
            conv = DC.conv_table(DC.type_change_pairs(dd.tree))
            expr = DC.model_io_expr(t1, t2, 0.33, True, C5.coq_pairs_table(tbl), conv, rem, add, t1)
            exp = [DC.delta_io_obs(d.diff), [DC.canon_unordered(r), nerr > 0]]
            cases.append((expr, exp, dict(t1=repr(t1), t2=repr(t2), ignore_order=True, report_repetition=True)))
            if any(ji for _p, ji, _x, _y in tbl):
                ctx.count("ignore_order_cases_with_pairing")
            if d.diff.get("iterable_items_added_at_indexes") or d.diff.get("iterable_items_removed_at_indexes"):
                ctx.count("ignore_order_cases_with_index_maps")
    ctx.coq_cases("c01io", DC.IO_HDR, cases, shard=16, label="ignore_order payload+apply")
    ctx.coq_cases("c01iol", LEV_HDR, lev_cases, shard=40, label="ignore_order: hypothesis lev_ok of the at-path / below-lists theorems")


def _canon_nested_unordered(v):
    """nested lists up to the order of their items (at every level)"""
    if isinstance(v, list):
        return ["L", sorted((_canon_nested_unordered(x) for x in v), key=repr)]
    return V.canon_atom(v)


def ignore_order_beyond(ctx, n):
    """BEYOND the property's text (it speaks of lists of distinct scalars): lists WITH repetitions and NESTED
    ignore-order lists.  The statement is false there (C01_ignore_order_repetition_refuted / _nested_refuted, both
    observed on the implementation first); what is checked is that the model Delta/DeltaIO.v + DiffIO does what the
    implementation does (correspondence of payload + rebuilt result), and how often the result is t2 up to order is
    counted.  Runs inside ctx.extension: recorded in the evidence file, never a violation."""
    from harness.props import c05 as C5
    rng = ctx.rng
    cases = []
    fixed = [([3, 3], [1]), ([[], [8]], [[], [39, 24], [8, 16]]), ([1, 1, 2], [1, 2, 2]), ([[1, 2], [3]], [[3], [2, 1]])]
    for k in range(n):
        if k < len(fixed):
            a, b = copy.deepcopy(fixed[k])
            kind = "fixed"
        elif rng.random() < 0.5:
            pool = [1, 2, 3, "a", None]
            a = [rng.choice(pool) for _ in range(rng.randint(0, 5))]
            b = [rng.choice(pool) for _ in range(rng.randint(0, 5))]
            kind = "repetition"
        else:
            nums = rng.sample(range(1, 60), 40)
            it = iter(nums)
            a = [[next(it) for _ in range(rng.randint(0, 3))] if rng.random() < 0.6 else next(it) for _ in range(rng.randint(0, 4))]
            b = copy.deepcopy(a)
            for _ in range(rng.randint(1, 3)):
                r = rng.random()
                if r < 0.3:
                    rng.shuffle(b)
                elif r < 0.5 and b:
                    b.pop(rng.randrange(len(b)))
                elif r < 0.7:
                    b.insert(rng.randint(0, len(b)), next(it) if rng.random() < 0.5 else [next(it), next(it)])
                else:
                    ls = [x for x in b if isinstance(x, list)]
                    if ls:
                        l = rng.choice(ls)
                        rr = rng.random()
                        if rr < 0.4:
                            rng.shuffle(l)
                        elif rr < 0.7 and l:
                            l.pop()
                        else:
                            l.append(next(it))
            kind = "nested"
        if V.contains_alias(a, b) or not D.in_model_guard(a, b):
            continue
        ctx.seen(("io_beyond", repr(a), repr(b)), nontrivial=a != b)
        try:
            dd, d, r, nerr, tbl = io_run(a, b)
        except Exception as e:
            ctx.count("ignore_order_beyond:%s:raised_%s" % (kind, type(e).__name__))
            continue
        up_to_order = _canon_nested_unordered(r) == _canon_nested_unordered(b) and nerr == 0
        ctx.count("ignore_order_beyond:%s:%s" % (kind, "t2_up_to_order" if up_to_order else "NOT_t2_up_to_order"))
        rem, add = DC.impl_orders(d)
        conv = DC.conv_table(DC.type_change_pairs(dd.tree))
        expr = DC.model_io_expr(a, b, 0.33, True, C5.coq_pairs_table(tbl), conv, rem, add, a)
        exp = [DC.delta_io_obs(d.diff), [DC.canon_unordered(r), nerr > 0]]
        cases.append((expr, exp, dict(t1=repr(a), t2=repr(b), ignore_order=True, report_repetition=True, kind=kind)))
    ctx.coq_cases("c01iox", DC.IO_HDR, cases, shard=30, label="ignore_order beyond the text: repetitions / nested (extension)")


INPLACE_HDR = DC.HDR[:-1] + " Delta.DeltaInplace."


def has_tuple_in_tuple(v):
    if isinstance(v, tuple) and any(isinstance(x, tuple) for x in v):
        return True
    if isinstance(v, (list, tuple)):
        return any(has_tuple_in_tuple(x) for x in v)
    if isinstance(v, dict):
        return any(has_tuple_in_tuple(x) for x in v.values())
    return False


def inplace_tuple_stream(ctx, n):
    """list / dict (and set, tuple) items of TUPLES: the shared DeltaModel.upd refuses every write below a tuple, the code
    edits a list / dict item in place.  The refinement Delta/DeltaInplace.v (module T: DeltaModel's passes over an upd that puts
    a list / dict child of a tuple back) is compared with the implementation on pairs OUTSIDE in_guard because of a
    container inside a tuple: payload + applied result + error flag.  Direct oracle there: when no tuple item has to be
    replaced as an object (tuple_item_replaced false: F4's exact feature absent) the round trip must hold."""
    rng = ctx.rng
    cases, done = [], 0
    fixed = [(([1, 2], 3), ([9, 1, 2], 3)), (({'a': 1}, 3), ({'a': 1, 'b': 2}, 3)), ((1, {2}), (1, {3})),
             ({'k': ([1, {'x': (1, 2)}], 'u')}, {'k': ([1, {'x': (1, 5), 'y': None}], 'u')}), (([1, 2], 3), ([1], 3))]
    for it in range(12 * n):
        if done >= n:
            break
        if it < len(fixed):
            t1, t2 = copy.deepcopy(fixed[it])
        else:
            t1 = V.gen_value(rng, depth=rng.choice([2, 3]), width=3, kinds="TTLD" + rng.choice(["", "S", "A"]))
            vals, _k = V.edit_script(rng, t1, rng.randint(1, 2), alias=False)
            t2 = vals[-1]
        d0 = describe(t1, t2)
        if not d0["container_in_tuple"] or d0["alias"] or d0["set_to_seq_type_change"] or not D.in_model_guard(t1, t2):
            continue
        if not DC.guardsb_py(t1, t2, True, True) and not DC.alias_free_py(t1, t2):
            continue
        zip_, thr, always = rng.random() < 0.5, rng.choice(THRS), rng.random() < 0.5
        cfg = dict(zip_ordered_iterables=zip_, threshold_to_diff_deeper=thr)
        out = run_impl(t1, t2, cfg, always)
        ctx.seen(("inplace", repr(t1), repr(t2), zip_, thr, always), nontrivial=not V.typed_eq(t1, t2))
        if "exc" in out:
            ctx.count("inplace_tuple:raised_%s(%s)" % (type(out["exc"]).__name__, "F4_feature" if d0["tuple_item_replaced"] else "NO_F4_feature"))
            if not d0["tuple_item_replaced"]:
                oracle(ctx, t1, t2, cfg, always, out)
            continue
        done += 1
        good = V.typed_eq(out["result"], t2) and not out["errors"] and out["unmodified"]
        ctx.count("inplace_tuple:%s:%s" % ("tuple_item_replaced(F4)" if d0["tuple_item_replaced"] else "edited_in_place", "holds" if good else "fails"))
        if not good and not d0["tuple_item_replaced"]:
            oracle(ctx, t1, t2, cfg, always, out)
        if has_tuple_in_tuple(t1) or has_tuple_in_tuple(t2):
            # a tuple that is an item of a tuple: the coerced outer tuple can silently stay a list, post-processing can raise
            # RuntimeError - neither DeltaModel nor the refinement T follows the code there (F4's nested-tuple variant)
            ctx.count("inplace_tuple:nested_tuple(not_compared_with_the_model)")
            continue
        d, dd = out["delta"], out["dd"]
        rem, add = DC.impl_orders(d)
        conv = DC.conv_table(DC.type_change_pairs(dd.tree))
        expr = DC.model_expr(t1, t2, zip_, thr, False, always, t1, conv, rem, add).replace("sx_result (apply cv", "sx_result (T.apply cv")
        exp = [DC.delta_obs(d.diff), [DC.canon_unordered(out["result"]), out["errors"] > 0]]
        cases.append((expr, exp, dict(t1=repr(t1), t2=repr(t2), zip=zip_, thr=thr, always=always, stream="inplace_tuple")))
    ctx.coq_cases("c01t", INPLACE_HDR, cases, shard=60, label="container items of tuples: payload + in-place apply (DeltaInplace.T)")


def share_again(rng, v):
    """a copy of v in which ONE list / dict sub-object occurs a second time (the same object): appended to a list or
    stored under a fresh key of a dict that does not lie inside it; (copy, False) if v has no such pair"""
    v = copy.deepcopy(v)
    pos = [p for p in V.positions(v) if isinstance(V.get_at(v, p), (list, dict))]
    rng.shuffle(pos)
    for p in pos:
        if not p:
            continue
        c = V.get_at(v, p)
        hosts = [q for q in pos if q[:len(p)] != p]
        rng.shuffle(hosts)
        for q in hosts:
            h = V.get_at(v, q)
            if isinstance(h, list):
                h.insert(rng.randint(0, len(h)), c)
                return v, True
            if isinstance(h, dict) and "shared" not in h:
                h["shared"] = c
                return v, True
    return v, False


def shared_inputs_beyond(ctx, n):
    """BEYOND the property's quantifier (it ranges over tree-shaped values: 'no mutable object shared between two
    positions'): ONE container object occurring at two positions of t2 (the delta then carries the same object
    twice) or of t1 (deepcopy keeps the sharing: an edit of one position edits the other).  With the sharing in t2 only
    the statement is expected to hold; with sharing in t1 it holds when no edit touches the shared object.  Outcomes are
    counted; runs inside ctx.extension: recorded, never a violation."""
    import pickle
    rng = ctx.rng
    done = 0
    for _ in range(8 * n):
        if done >= n:
            break
        t1 = V.gen_value(rng, depth=rng.choice([3, 4]), width=4, kinds="LLDD")
        vals, _kinds = V.edit_script(rng, t1, rng.randint(1, 3), alias=False)
        t2 = vals[-1]
        side = rng.choice(["t2", "t2", "t1"])
        if side == "t2":
            t2s, ok = share_again(rng, t2)
            t1s = t1
        else:
            t1s, ok = share_again(rng, t1)
            t2s = t2
        if not ok or not in_guard(t1s, t2s):
            continue
        done += 1
        zip_, thr, always = rng.random() < 0.5, rng.choice(THRS), rng.random() < 0.3
        cfg = dict(zip_ordered_iterables=zip_, threshold_to_diff_deeper=thr)
        # inputs rebuilt by pickle so that the sharing survives the copies run_impl takes (copy.deepcopy keeps it as well)
        blob = pickle.dumps((t1s, t2s))
        a, b = pickle.loads(blob)
        out = run_impl(a, b, cfg, always)
        ctx.seen(("shared", side, repr(t1s), repr(t2s), zip_, thr, always), nontrivial=not V.typed_eq(t1s, t2s))
        good = "exc" not in out and V.typed_eq(out["result"], t2s) and not out["errors"] and out["unmodified"]
        ctx.count("shared_beyond:%s:%s" % (side, "holds" if good else "fails"))
        if not good and side == "t2":      # with the sharing in t1 an edit of one position edits the other: failures are expected, counted only
            oracle(ctx, t1s, t2s, cfg, always, out, extra=dict(shared=side, pickle=blob.hex()))


def _blank_at(v, path):
    """a copy of v with the sub-value at path replaced by None"""
    v = copy.deepcopy(v)
    if not path:
        return None
    x = v
    for st in path[:-1]:
        x = x[st]
    x[path[-1]] = None
    return v


LEV_HDR = DC.IO_HDR[:-1] + " Hash.HexHash Delta.DeltaIOLevelsB."


def coq_levels(t1, path):
    """the context of the planted list as a Coq `list level` (Delta/DeltaIOLevelsB.v)"""
    out = []
    for i, st in enumerate(path):
        cont = _at_prefix(t1, path, i)
        if isinstance(cont, dict):
            items = list(cont.items())
            j = [k for k, _ in items].index(st)
            pr = lambda its: core.coq_list("(%s, %s)" % (V.atom_to_coq(k), V.to_coq(x)) for k, x in its)
            out.append("LDict %s %s %s" % (pr(items[:j]), V.atom_to_coq(st), pr(items[j + 1:])))
        else:
            out.append("LList %s %s" % (core.coq_list(V.to_coq(x) for x in cont[:st]), core.coq_list(V.to_coq(x) for x in cont[st + 1:])))
    return core.coq_list(out)


def _levels_paired(t1, path, tbl):
    """at every LIST level on the way to the planted list the recorded pairing is exactly [(n, n)], n the planted index"""
    cpath = []
    for i, st in enumerate(path):
        cont = _at_prefix(t1, path, i)
        if isinstance(cont, list):
            ent = [e for e in tbl if list(map(list, e[0])) == cpath or e[0] == cpath]
            if not ent or [tuple(ji) for ji in ent[0][1]] != [(st, st)]:
                return False
            cpath = cpath + [["x", st]]
        else:
            cpath = cpath + [["k", V.canon_atom(st)]]
    return True


def _at_prefix(v, path, i):
    for st in path[:i]:
        v = v[st]
    return v


def D_path_to(t1, leaf):
    """keys from the root of a planted value down to the planted list (the last item of a list level, the first
    key of a dict level)"""
    out, v = [], t1
    while v is not leaf and not (isinstance(v, list) and v == leaf and not any(isinstance(x, (list, dict)) for x in v)):
        if isinstance(v, list):
            out.append(len(v) - 1)
            v = v[-1]
        elif isinstance(v, dict):
            k = next((kk for kk, x in v.items() if isinstance(x, (list, dict))), next(iter(v)))   # the planted key (the sibling 'z' holds 0)
            out.append(k)
            v = v[k]
        else:
            break
    return out


def small_universe_pairs(ctx, thorough):
    """depth-1 universe over 4 atoms (149 values): all ordered pairs in the thorough
    tier, a seeded slice in quick; plus depth-2 values composed from it at random"""
    rng = ctx.rng
    uni = V.small_universe(atoms=(None, True, 2, "a"), maxlen=2, depth=1, kinds="LDS")
    ctx.note("small_universe_size", len(uni))

    def deeper():
        k = rng.choice("LD")
        n = rng.randint(0, 2)
        kids = [copy.deepcopy(rng.choice(uni)) for _ in range(n)]
        return kids if k == "L" else dict(zip(rng.sample([None, True, 2, "a", 0.5], n), kids))
    if thorough:
        pairs = [(a, b) for a in uni for b in uni]
        ctx.note("small_universe_exhaustive_pairs", len(pairs))
        pairs += [(deeper(), deeper()) for _ in range(3000)]
    else:
        pairs = [(rng.choice(uni), rng.choice(uni)) for _ in range(250)] + [(deeper(), deeper()) for _ in range(100)]
    return pairs


def tuple_length_probe(ctx):
    """OUTSIDE the property's domain (tuples are only edited in place) and outside `guards`: what the implementation
    does when a tuple changes its length.  Recorded, never a failure.  DeltaModel.add_one is NOT faithful here:
    an insertion inside a tuple raises AttributeError ('tuple' object has no attribute 'insert') in the code,
    the model sets the item without inserting."""
    from deepdiff import DeepDiff, Delta
    rng = ctx.rng
    pairs = [((1, 2), (1, 7, 2)), ((1, 2, 3), (1, 3)), ((1, 2), (1, 2, 3)), ((1, 2, 3), (1, 2)), ((1, 2), (7, 1, 2)), ((), (1,))]
    for _ in range(40 if ctx.thorough else 12):
        a, b, _k = V.gen_atom_list_pair(rng)
        if len(a) != len(b) and not V.contains_alias(a, b):
            pairs.append((tuple(a), tuple(b)))
    for a, b in pairs:
        kind = "insert_or_delete_inside" if (a[:min(len(a), len(b))] != b[:min(len(a), len(b))]) else "trailing"
        try:
            r = copy.deepcopy(a) + Delta(DeepDiff(copy.deepcopy(a), copy.deepcopy(b)))
            res = "result_equals_t2" if V.typed_eq(r, b) else "result_differs"
        except Exception as e:
            res = "raised_" + type(e).__name__
        ctx.count("probe:tuple_length_change:%s:%s" % (kind, res))


# ---------------------------------------------------------------------------
# source tie (shared with C08, one translator): harness/translate/deltapasses.py regenerates Delta.__add__ / __radd__ (order of the
# passes, deepcopy unless mutate, try/finally + reset), the pass wrappers, __rsub__ / _get_reverse_diff / _do_verify_changes from the
# CURRENT deepdiff/delta.py (DDGen.DeltaGen); coq/srctie/DeltaGenEquiv.v proves them equal to Delta/DeltaModel.v for all arguments,
# coq/srctie/DeltaGenEquivC01.v restates C01's round-trip theorems about the generated __add__
# ---------------------------------------------------------------------------
SOURCE_TIES = [{"name": "deltapasses", "translator": "deltapasses", "gen_module": "DeltaGen", "equiv": ["DeltaGenEquiv", "DeltaGenEquivC01"],
                "needs": ["Delta.DeltaSrc", "Delta.DeltaShow", "Properties.C08", "Properties.C01"],
                "sources": ["deepdiff/delta.py"],
                "fragment": "class Delta: __add__ (order of the 14 passes, deepcopy unless mutate, try/finally, reset), __radd__, the pass wrappers "
                            "_do_* (not the workers they call), and - shared with C08 - __rsub__, _get_reverse_diff, _do_verify_changes, _raise_or_log"}]
TIE_STATE = {"decided": False}


def on_source_tie_break(ctx, name, rec):
    """the search for an input on which the regenerated and the hand-written model differ is C08's (harness/props/c08.py
    tie_search: generated vs hand model inside Coq on pairs from this module's generators); a differing pair is judged by THIS
    property's ordinary machinery: one_pair over the full configuration product (direct oracle) + correspondence"""
    from harness.props import c08
    res, differing = c08.tie_search(ctx, name, rec)
    if not differing:
        return res
    judged, cases = [], []
    f0, b0 = len(ctx.failures), len(ctx.breaks)
    for (t1, t2, zip_, thr) in differing[:5]:
        ctx.count("gen:source_tie_differing_pair")
        one_pair(ctx, t1, t2, cases, full=True)
        judged.append({"t1": repr(t1), "t2": repr(t2), "first_cfg(zip,thr)": [zip_, thr]})
    both = [(e, x, t) for (e, x, t) in cases if x[-1] is not None]
    plain = [(e, x[:-1], t) for (e, x, t) in cases if x[-1] is None]
    ctx.coq_cases("c01tie", DC.HYP_HDR, both, shard=60, label="source_tie_differing_pairs")
    ctx.coq_cases("c01tiep", DC.HDR, plain, shard=60, label="source_tie_differing_pairs_plain")
    res["first_differing"] = judged
    res["judged"] = {"new_oracle_failures": len(ctx.failures) - f0, "new_breaks": len(ctx.breaks) - b0}
    if len(ctx.failures) > f0 or len(ctx.breaks) > b0:
        TIE_STATE["decided"] = True
    return res


def run(ctx):
    import time
    marks = [("start", time.time())]

    def lap(name):
        marks.append((name, time.time()))
        ctx.note("wall_s:" + name, round(marks[-1][1] - marks[-2][1], 1))
    cases = []
    hyp_cases = []
    # a source tie that is not intact (and whose search found no concrete differing input) escalates the pair stream to thorough size
    big = ctx.thorough or (ctx.tie_broken("deltapasses") and not TIE_STATE["decided"])
    if big and not ctx.thorough:
        ctx.count("escalated_by_broken_source_tie")
    pairs = gen_random(ctx, 2500 if big else 330)
    for t1, t2 in pairs:
        one_pair(ctx, t1, t2, cases, full=False, hyp_cases=hyp_cases)
    su = small_universe_pairs(ctx, ctx.thorough)
    for t1, t2 in su:
        one_pair(ctx, t1, t2, cases, full=False, corr=(ctx.rng.random() < (0.05 if ctx.thorough else 0.5)), hyp_cases=hyp_cases)
    # full configuration product on a few pairs
    for t1, t2 in pairs[:40 if ctx.thorough else 8]:
        one_pair(ctx, t1, t2, cases, full=True, corr=False)
    lap("pairs:implementation+oracle")
    chains(ctx, 400 if ctx.thorough else 60)
    lap("chains")
    ignore_order_clause(ctx, 1500 if ctx.thorough else 250)
    lap("ignore_order_clause")
    veq_base_clause(ctx, pairs + su, 600 if ctx.thorough else 45)
    lap("veq_base_clause")
    for c in cases[:3]:
        ctx.sample(c[2])
    hdr = DC.HYP_HDR
    both = [(e, x, t) for (e, x, t) in cases if x[-1] is not None]
    plain = [(e, x[:-1], t) for (e, x, t) in cases if x[-1] is None]
    ctx.coq_cases("c01", hdr, both, shard=120, label="payload+apply+theorem-hypotheses")
    ctx.coq_cases("c01p", DC.HDR, plain, shard=120, label="payload+apply")
    ctx.note("hypothesis_cases", len(hyp_cases))
    lap("pairs:model")
    tuple_length_probe(ctx)
    witnesses(ctx)

    # chains on the RUNNING result: the hypothesis chain_okv_run of C01_chain_veq_run_partial evaluated as a Coq boolean
    # on every step and compared with its Python mirror (Delta/DeltaChainRun.v, harness/c01chain.py)
    from harness import c01chain
    c01chain.stream(ctx)
    lap("chains_on_running_result")

    # numpy arrays "edited in place" (same shape, same numeric dtype): direct oracle + correspondence with Delta/DeltaNp.v
    from harness import c01np
    c01np.stream(ctx)
    lap("numpy")

    # the faithful refinement of _do_item_added (tuple insert raises, negative indexes) on tuples of different length and
    # on hand-built payloads (iterable_item_moved, negative / out-of-range indexes, ...): Delta/DeltaFaithful.v, harness/c01free.py
    from harness import c01free
    c01free.stream(ctx)
    lap("free_payloads")

    # list / dict items of tuples are edited in place: the refinement Delta/DeltaInplace.v against the implementation
    inplace_tuple_stream(ctx, 400 if ctx.thorough else 60)
    lap("inplace_tuple_items")

    # beyond the property's text / quantifier: recorded, never a violation
    with ctx.extension("IgnoreOrderBeyondText"):
        ignore_order_beyond(ctx, 300 if ctx.thorough else 40)
    with ctx.extension("SharedSubObjects"):
        shared_inputs_beyond(ctx, 400 if ctx.thorough else 60)
    lap("extensions:ignore_order_beyond+shared")

    # extension: class instances (attributes) inside the same models - beyond the property's stated domain,
    # recorded in the evidence file, never a violation (core.Ctx.extension; coq/theories/Obj)
    with ctx.extension("Obj"):
        from harness import objcommon as O
        O.stream_c01(ctx)
    lap("extension:Obj")


def witnesses(ctx):
    """open findings must still reproduce (else the model/finding list is out of date)"""
    from deepdiff import DeepDiff, Delta
    W = {"F4": (([1, {2}],), ([1, {3}],)) if False else ((1, {2}), (1, {3})),
         "KA": ({False, "a"}, {0, "a"})}
    for key, (a, b) in W.items():
        if not any(f["key"] == key and f.get("status") == "open" for f in ctx.findings):
            continue
        try:
            r = copy.deepcopy(a) + Delta(DeepDiff(copy.deepcopy(a), copy.deepcopy(b)))
            good = V.typed_eq(r, b)
        except Exception:
            good = False
        if good:
            ctx.break_("correspondence", {"name": key + " witness", "detail": "open finding no longer reproduces on the implementation"})
        else:
            ctx.fail(dict(t1=repr(a), t2=repr(b), cfg={}, **describe(a, b)), "witness of " + key)


def replay(ctx, data):
    case = data.get("case", {})
    if case.get("numpy"):
        from harness import c01np
        c01np.replay(ctx, case)
    elif "t1" in case and "chain" not in case:
        t1, t2 = eval(case["t1"]), eval(case["t2"])
        cfg = dict(case.get("cfg", {}))
        if cfg.get("ignore_order"):
            from deepdiff import DeepDiff, Delta
            r = copy.deepcopy(t1) + Delta(DeepDiff(copy.deepcopy(t1), copy.deepcopy(t2), **cfg))
            print("replay:", r)
        else:
            out = run_impl(t1, t2, cfg, case.get("always_include_values", False))
            print("replay:", out.get("result", out.get("exc")))
            oracle(ctx, t1, t2, cfg, case.get("always_include_values", False), out)
            ctx.evaluations += 1
    else:
        run(ctx)

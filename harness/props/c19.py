"""C19 - deep_distance and the pairing distances lie in [0, 1] / [0, max_].

proof:           coq/theories/Dist/{DistModel,DistProofs}.v, Properties/C19.v
correspondence:  (a) _get_numbers_distance on a grid of special values x max_ and
                 random doubles, bit-exact (IEEE bits decoded to sign/mantissa/
                 exponent on both sides); (b) get_numeric_types_distance on
                 numbers / Decimals / dates / datetimes (naive + aware) /
                 timedeltas / times incl. mixed kinds; (c) the numpy variant
                 used when pairing number sequences; (d) every call of
                 _get_rough_distance made while diffing generated pairs (the
                 root call that produces deep_distance and the calls made for
                 pairing in ignore_order mode): the delta-view dict actually
                 consumed is converted generically to the model's `dv`, the
                 model computes operations / (len1 + len2) and the float is
                 compared bit for bit; (e) the same dict re-expressed as positions
                 in t1 / t2 (sdelta): rebuilt in Coq, compared with the real one,
                 validity and the type-change guard evaluated (hypotheses of
                 C19_rough_range_partial); (f) zero_guard of
                 C19_numbers_zero_partial evaluated in Coq and restated in Python;
                 (g) deep_distance computed by the model from the inputs alone
                 (Diff/DiffModel.v diff + Dist/DistDiffModel.v delta view) in
                 default and zip_ordered_iterables mode, with the hypotheses of
                 C19_deep_distance_range_ordered (opcode tiling, type-change guard);
                 (i) ignore_order=True (with and without report_repetition, several
                 pairing knobs): deep_distance, the operation count and the item
                 lengths computed by the model from the inputs and the pairings the
                 run used (recorded with C05's recorder) alone
                 (DiffIO/DiffIOModel.v diff_io + Dist/DistIOModel.v), the type-change
                 guard and io_guard of C19_deep_distance_range_ignore_order recomputed
                 independently; inside the guards the implementation is in range.
                 Inputs: a fixed fraction holds ONE container object at several
                 positions ([row] * k, values.share); the model gets the unfolded tree,
                 failing cases travel as expressions that rebuild the sharing; every
                 pair is also run under a random combination of 2-4 options.
direct oracle:   the statement itself on the public API (range, 0/absent for
                 equal inputs, positive for a non-empty default diff, never
                 raises) and on the number/date/time distance functions (range,
                 0 only for equal values), independent of the model.
"""
import calendar
import copy
import datetime
import logging
import math
import os
import pickle
import struct
import time
from collections.abc import Iterable, Mapping
from decimal import Decimal
from fractions import Fraction

from harness import core, values

os.environ["TZ"] = "UTC"
time.tzset()

THEOREM_FILE = "Properties/C19.v"
COQCHK = ["Properties.C19"]
RULE = ("numbers: all ordered pairs of a grid of special ints/bools/floats/Decimals (0, -0.0, subnormals, 2**53(+1), "
        "1e308, 1.7e308, max double, overflow boundary of float(int), 10**400, inf, nan) x max_ in a grid, plus random "
        "doubles from random bit patterns; scalars: dates, datetimes (naive/aware, far future), timedeltas, times; "
        "rough distance: pairs from harness.values (random nested values + 1..3 edits, small exhaustive universe, "
        "scalar vs container, different scalar types, one container object referenced k times ([row] * k) and random "
        "re-use of a container at a second position) x ignore_order x view x cutoff_distance_for_pairs, plus a random "
        "combination of 2-4 options per pair (report_repetition, zip_ordered_iterables, cutoff_intersection_for_pairs, "
        "max_passes, verbose_level, threshold_to_diff_deeper, ignore_numeric/string_type_changes, cache_size, int vs float cutoff); "
        "ignore-order model stream: C05's ignore-order pairs, lists with an item repeated k times, x report_repetition x pairing knobs; "
        "a case is non-trivial when the two inputs differ; distinct = distinct (inputs, configuration)")
TRUSTED = [
    "the delta-view dict is derived from the diff models (ordered: Diff/DiffModel.v; ignore_order: DiffIO/DiffIOModel.v with the "
    "pairings the run used as oracle values); in addition every dict the implementation actually consumed (root and pairing calls) "
    "is converted generically into the model's `dv` tree and the rough-distance model is compared on it",
    "use_log_scale=True (math.log) is not modelled; numpy arrays only through the scalar formula of _get_numpy_array_distance",
    "Coq's primitive floats implement IEEE binary64 as CPython's float does (PrimFloat / FloatAxioms specification axioms)",
    "source tie `distance` (in addition to the correspondence, for the scalar kernels and _get_rough_distance only): the fail-closed "
    "translator harness/translate/distance.py (14 listed rules, typed signatures) and the typed embedding coq/theories/Dist/DistSrcPrims.v; "
    "the regenerated definitions are proved equal to the hand model on every run (coq/srctie/DistGenEquiv.v)",
]
ASSUMPTIONS = [
    "acyclic inputs: the id()-based parents check of _get_item_length never fires (objects shared between positions are generated; "
    "the model is fed the unfolded tree)",
    "default DeepHash parameters for item lengths (ignore_private_variables=True; no exclude/include filters)",
    "naive datetimes are interpreted in UTC (the check sets TZ=UTC)",
]

logging.disable(logging.CRITICAL)

# ---------------------------------------------------------------------------
# floats <-> Coq
# ---------------------------------------------------------------------------


def fdecode(x):
    """binary64 -> ('nan',) | ('inf', s) | ('z', s) | ('f', s, m, e) with x = (-1)^s m 2^e canonical."""
    bits = struct.unpack("<Q", struct.pack("<d", x))[0]
    s = bool(bits >> 63)
    ex = (bits >> 52) & 0x7FF
    fr = bits & ((1 << 52) - 1)
    if ex == 0x7FF:
        return ("inf", s) if fr == 0 else ("nan",)
    if ex == 0:
        return ("z", s) if fr == 0 else ("f", s, fr, -1074)
    return ("f", s, fr | (1 << 52), ex - 1075)


def coq_float(x):
    d = fdecode(x)
    if d[0] == "nan":
        return "nan"
    if d[0] == "inf":
        return "(finf %s)" % core.coq_bool(d[1])
    if d[0] == "z":
        return "(mkf %s 0%%Z 0%%Z)" % core.coq_bool(d[1])
    return "(mkf %s %s %s)" % (core.coq_bool(d[1]), core.coq_Z(d[2]), core.coq_Z(d[3]))


def obs_float(x):
    d = fdecode(x)
    if d[0] == "nan":
        return "nan"
    return list(d)


def coq_pynum(a):
    if isinstance(a, bool):
        return "(PBool %s)" % core.coq_bool(a)
    if isinstance(a, int):
        return "(PInt %s)" % core.coq_Z(a)
    if isinstance(a, float):
        return "(PFloat %s)" % coq_float(a)
    if isinstance(a, Decimal):
        sg, digits, ex = a.as_tuple()
        assert isinstance(ex, int), "finite Decimals only"
        coef = int("".join(map(str, digits)) or "0")
        return "(PDec %s %d%%N %s)" % (core.coq_bool(bool(sg)), coef, core.coq_Z(ex))
    raise TypeError(a)


EPOCH_AWARE = datetime.datetime(1970, 1, 1, tzinfo=datetime.timezone.utc)


def coq_scalar(x):
    if isinstance(x, (bool, int, float, Decimal)):
        return "(SNum %s)" % coq_pynum(x)
    if isinstance(x, datetime.datetime):
        if x.tzinfo is not None and x.tzinfo.utcoffset(x) is not None:
            us = (x - EPOCH_AWARE) // datetime.timedelta(microseconds=1)
            ts = "(TsAware %s)" % core.coq_Z(us)
        else:
            ts = "(TsNaive %s %s)" % (core.coq_Z(calendar.timegm(x.timetuple())), core.coq_Z(x.microsecond))
        return "(SDateTime %s %s)" % (core.coq_Z(x.toordinal()), ts)
    if isinstance(x, datetime.date):
        return "(SDate %s)" % core.coq_Z(x.toordinal())
    if isinstance(x, datetime.timedelta):
        return "(STimedelta %s)" % core.coq_Z(x // datetime.timedelta(microseconds=1))
    if isinstance(x, datetime.time):
        return "(STime %s %s %s %s)" % tuple(core.coq_Z(q) for q in (x.hour, x.minute, x.second, x.microsecond))
    raise TypeError(x)


SCALAR_TYPES = (bool, int, float, Decimal, datetime.datetime, datetime.date, datetime.timedelta, datetime.time)


def in_universe(v):
    """Is v representable in Base/Value.v (floats: half-integers only)?"""
    if v is None or isinstance(v, (bool, str, bytes)):
        return True
    if isinstance(v, int):
        return True
    if isinstance(v, float):
        return math.isfinite(v) and abs(v) < 1e15 and v * 2 == int(v * 2)
    if isinstance(v, (list, tuple)):
        return all(in_universe(x) for x in v)
    if isinstance(v, dict):
        return all(in_universe(k) and not isinstance(k, (list, tuple, dict, set, frozenset)) and in_universe(x) for k, x in v.items())
    if isinstance(v, (set, frozenset)):
        return all(in_universe(x) for x in v)
    return False


def _akey(a):
    return repr(values.canon_atom(a))


def to_coq19(v):
    """values.to_coq with set members in a canonical order (the distance does not depend on iteration order; the
    positions of set members used by the structured delta are indices into this order)"""
    if isinstance(v, list):
        return "(VList [%s])" % "; ".join(to_coq19(x) for x in v)
    if isinstance(v, tuple):
        return "(VTuple [%s])" % "; ".join(to_coq19(x) for x in v)
    if isinstance(v, dict):
        return "(VDict [%s])" % "; ".join("(%s, %s)" % (values.atom_to_coq(k), to_coq19(x)) for k, x in v.items())
    if isinstance(v, frozenset):
        return "(VFrozen [%s])" % "; ".join(values.atom_to_coq(x) for x in sorted(v, key=_akey))
    if isinstance(v, set):
        return "(VSet [%s])" % "; ".join(values.atom_to_coq(x) for x in sorted(v, key=_akey))
    return "(VAtom %s)" % values.atom_to_coq(v)


def coq_root(v):
    if isinstance(v, SCALAR_TYPES) and not (isinstance(v, (bool, int)) or (isinstance(v, float) and in_universe(v))):
        return "(RScalar %s)" % coq_scalar(v)
    return "(RVal %s)" % to_coq19(v)


def root_ok(v):
    return isinstance(v, SCALAR_TYPES) and not isinstance(v, float) or isinstance(v, float) and not math.isnan(v) or in_universe(v)


# ---------------------------------------------------------------------------
# the delta-view dict -> dv
# ---------------------------------------------------------------------------

NUMBERS = (int, float, complex, Decimal, datetime.datetime, datetime.date, datetime.timedelta, datetime.time)


class _Ids:
    def __init__(self):
        self.m = {}

    def tag(self, o):
        return self.m.setdefault(id(o), len(self.m) + 1)


def coq_dkey(k):
    if isinstance(k, str):
        return "(KStr %s)" % core.coq_pystr(k)
    if isinstance(k, bytes):
        return "(KBytes %s)" % core.coq_pystr(k)
    return "KOther"


def coq_dv(item, ids):
    """Generic conversion following only the Python type of each node."""
    if isinstance(item, Mapping):
        return "(DMap [%s])" % "; ".join("(%s, %d%%nat, %s)" % (coq_dkey(k), ids.tag(v), coq_dv(v, ids)) for k, v in item.items())
    if isinstance(item, NUMBERS):
        return "DNum"
    if isinstance(item, (str, bytes)):
        return "DStr"
    if isinstance(item, (set, frozenset)):
        try:
            item = sorted(item, key=_akey)
        except Exception:
            pass
    if isinstance(item, Iterable):
        return "(DSeq [%s])" % "; ".join(coq_dv(x, ids) for x in item)
    if isinstance(item, type):
        return "DType"
    if hasattr(item, "__dict__"):
        raise TypeError("object with __dict__ in a delta dict: outside the model")
    return "DNone"


# ---------------------------------------------------------------------------
# the delta-view dict as positions in t1 / t2 (sdelta of DistModel.v)
# ---------------------------------------------------------------------------

class NotStructured(Exception):
    pass


def _walk(t, elems):
    """key/index elements (deepdiff.parse_path) -> (child-index path, sub-value)"""
    ip = []
    for el in elems:
        if isinstance(t, (list, tuple)):
            if isinstance(el, bool) or not isinstance(el, int) or not (0 <= el < len(t)):
                raise NotStructured("index %r" % (el,))
            ip.append(el)
            t = t[el]
        elif isinstance(t, dict):
            keys = list(t.keys())
            js = [j for j, k in enumerate(keys) if type(k) is type(el) and k == el] or [j for j, k in enumerate(keys) if k == el]
            if not js:
                raise NotStructured("key %r" % (el,))
            ip.append(js[0])
            t = t[keys[js[0]]]
        else:
            raise NotStructured("path goes through %r" % (type(t).__name__,))
    return ip, t


def _ipath(path, t):
    from deepdiff.path import parse_path
    try:
        elems = parse_path(path)
    except Exception as e:  # noqa
        raise NotStructured("parse_path(%r): %r" % (path, e))
    return _walk(t, elems)


def coq_ipath(ip):
    return "[" + "; ".join("%d%%nat" % i for i in ip) + "]"


def t2_parent_paths(dd):
    """In ignore_order mode the delta names added things by the t1 path of the paired parent, while they live in t2.
    From the result tree (as it is when the distance is computed): where each added item / set / index sits in t2."""
    m = {}
    try:
        for lv in dd.tree.get("iterable_item_added", []):
            path, param, _ = lv.path(force="fake", get_parent_too=True)
            m[("idx", path, param)] = lv.up.path(use_t2=True, force="fake")
            m[("item", "iterable_item_added", lv.path(force="fake"))] = lv.path(use_t2=True, force="fake")
        for lv in dd.tree.get("dictionary_item_added", []):
            m[("item", "dictionary_item_added", lv.path(force="fake"))] = lv.path(use_t2=True, force="fake")
        for lv in dd.tree.get("set_item_added", []):
            m[("set", lv.up.path(force="fake"))] = lv.up.path(use_t2=True, force="fake")
    except Exception:
        pass
    return m


def sdelta_of(delta, t1, t2, ids, t2paths=None):
    """-> (Coq term of type sdelta, guard as computed independently in Python).  Raises NotStructured for a delta
    with a report kind / entry shape the structured form does not cover."""
    blocks = []
    guard = True
    for cat, body in delta.items():
        if not isinstance(cat, str):
            raise NotStructured("category %r" % (cat,))
        if cat.startswith("_"):
            blocks.append("BSkipped %s %s" % (core.coq_pystr(cat), coq_dv(body, ids)))
            continue
        if not isinstance(body, Mapping):
            raise NotStructured("body of %s" % cat)
        if cat in ("iterable_items_added_at_indexes", "iterable_items_removed_at_indexes"):
            side2 = cat == "iterable_items_added_at_indexes"
            es = []
            for path, items in body.items():
                if not isinstance(items, Mapping):
                    raise NotStructured("indexes of a non-sequence")
                where = path
                if side2 and t2paths:
                    alt = set(t2paths.get(("idx", path, i), path) for i in items)
                    if len(alt) != 1:
                        raise NotStructured("items added under one t1 path come from different t2 lists")
                    where = alt.pop()
                ip, sub = _ipath(where, t2 if side2 else t1)
                if not isinstance(sub, (list, tuple)):
                    raise NotStructured("indexes of a non-sequence")
                es.append("(%s, %s, [%s])" % (core.coq_pystr(path), coq_ipath(ip),
                                             "; ".join("(%d%%nat, %d%%nat)" % (i, ids.tag(v)) for i, v in items.items())))
            blocks.append("BIdx %s [%s]" % (core.coq_bool(side2), "; ".join(es)))
            continue
        es = []
        for path, e in body.items():
            if not isinstance(path, str):
                raise NotStructured("path key %r" % (path,))
            if cat == "type_changes":
                ks = list(e.keys())
                wnp, wv = "new_path" in ks, "new_value" in ks
                if ks != ["old_type", "new_type"] + (["new_path"] if wnp else []) + (["new_value"] if wv else []):
                    raise NotStructured("type_changes entry keys %r" % (ks,))
                p1, old = _ipath(path, t1)
                p2, new = _ipath(e["new_path"] if wnp else path, t2)
                es.append("ETc %s %s %s %s %s" % (core.coq_pystr(path), coq_ipath(p1), coq_ipath(p2), core.coq_bool(wnp), core.coq_bool(wv)))
                try:
                    guard = guard and (2 + (ilen(new) if wv else 0) <= icount(old) + icount(new))
                except TypeError:
                    pass
            elif cat == "values_changed":
                ks = list(e.keys())
                wnp = "new_path" in ks
                if ks != ["new_value"] + (["new_path"] if wnp else []):
                    raise NotStructured("values_changed entry keys %r" % (ks,))
                p1, _o = _ipath(path, t1)
                p2, _n = _ipath(e["new_path"] if wnp else path, t2)
                es.append("EVc %s %s %s %s" % (core.coq_pystr(path), coq_ipath(p1), coq_ipath(p2), core.coq_bool(wnp)))
            elif cat in ("dictionary_item_added", "iterable_item_added", "dictionary_item_removed", "iterable_item_removed"):
                side2 = cat.endswith("added")
                where = (t2paths or {}).get(("item", cat, path), path) if side2 else path
                ip, _v = _ipath(where, t2 if side2 else t1)
                es.append("EAt %s %s %s" % (core.coq_bool(side2), core.coq_pystr(path), coq_ipath(ip)))
            elif cat in ("set_item_added", "set_item_removed"):
                side2 = cat.endswith("added")
                where = (t2paths or {}).get(("set", path), path) if side2 else path
                ip, st = _ipath(where, t2 if side2 else t1)
                if not isinstance(st, (set, frozenset)) or not isinstance(e, (set, frozenset)):
                    raise NotStructured("set items of a non-set")
                order = sorted(st, key=_akey)
                ms = []
                for x in sorted(e, key=_akey):
                    js = [j for j, y in enumerate(order) if type(y) is type(x) and y == x]
                    if not js:
                        raise NotStructured("set member %r" % (x,))
                    ms.append(js[0])
                es.append("ESet %s %s %s [%s]" % (core.coq_bool(side2), core.coq_pystr(path), coq_ipath(ip), "; ".join("%d%%nat" % j for j in ms)))
            else:
                raise NotStructured("report kind %s" % cat)
        blocks.append("BPlain %s [%s]" % (core.coq_pystr(cat), "; ".join(es)))
    return "[" + "; ".join(blocks) + "]", guard


# ---------------------------------------------------------------------------
# observables
# ---------------------------------------------------------------------------

ERRS = (OverflowError, ZeroDivisionError, AttributeError)


def obs_exc(e):
    return ["err", type(e).__name__]


def obs_dres(r):
    """result of _get_numbers_distance / get_numeric_types_distance"""
    if isinstance(r, bool) or not isinstance(r, (int, float)):
        return ["unexpected", repr(r)]
    if isinstance(r, int):
        return "int0" if r == 0 else obs_float(float(r))
    return obs_float(r)


def obs_rough(r):
    """a distance where every kind of zero (int 0, 0.0, absent) is one observable"""
    if r is None:
        return "zero"
    if isinstance(r, bool) or not isinstance(r, (int, float)):
        return ["unexpected", repr(r)]
    if r == 0:
        return "zero"
    return obs_float(float(r))


HEADER = ("From Coq Require Import PrimFloat.\nFrom DD Require Import Base.PyStr Base.Value Dist.DistModel Dist.DistShow Dist.DistSubShow.\n"
          "Local Open Scope Z_scope.")

# ---------------------------------------------------------------------------
# (a) numbers
# ---------------------------------------------------------------------------

MAXD = 1.7976931348623157e308
F_SPECIAL = [0.0, -0.0, 5e-324, -5e-324, 2.2250738585072014e-308, 1e-300, 0.1, 0.3, 0.5, 1.0, -1.0, 1.5, 2.0, 3.0, -3.0,
             1e16, 9007199254740992.0, 1e308, 1.7e308, -1.7e308, -1e308, MAXD, -MAXD, float("inf"), float("-inf"), float("nan")]
I_SPECIAL = [0, 1, -1, 2, 3, 10, -7, 13, 2 ** 53, 2 ** 53 + 1, 2 ** 64, 10 ** 308, 2 ** 1024 - 2 ** 970 - 1, 2 ** 1024 - 2 ** 970,
             10 ** 400, -10 ** 400]
D_SPECIAL = [Decimal("0"), Decimal("-0"), Decimal("0.1"), Decimal("1"), Decimal("1.5"), Decimal("-2.50"), Decimal("3.3E+2"),
             Decimal("1E-400"), Decimal("1E+400"), Decimal("123456789.123456789123456789"), Decimal("0.3"),
             Decimal("9007199254740993"), Decimal("5E-324"), Decimal("2.4703282292062328E-324")]
MAX_SPECIAL = [1.0, 0.3, 0.5, 0.1, 0.0, -0.0, 1e-300, 5e-324, 1e308, 2.0]


def rand_double(rng):
    r = rng.random()
    if r < 0.5:
        while True:
            x = struct.unpack("<d", struct.pack("<Q", rng.getrandbits(64)))[0]
            if not math.isnan(x):
                return x
    if r < 0.8:
        return rng.uniform(-100, 100)
    return float(rng.randint(-50, 50))


def call(f, *a):
    try:
        return ("ok", f(*a))
    except Exception as e:  # noqa
        return ("exc", e)


def num_eq(a, b):
    """Python equality of two numbers (exact for int/float/Decimal)."""
    return a == b


def check_number_result(ctx, fn, a, b, mx, res, equal):
    """direct oracle for one call of a number/date/time distance: range and zero only for equal."""
    case = {"kind": "numbers", "fn": fn, "a": repr(a), "b": repr(b), "max_": repr(mx)}
    if res[0] == "exc":
        case["exception"] = type(res[1]).__name__
        ctx.fail(case, "%s(%s, %s, max_=%s) raises %s: %s" % (fn, case["a"], case["b"], case["max_"], type(res[1]).__name__, res[1]))
        return
    r = res[1]
    case["result"] = repr(r)
    if isinstance(r, bool) or not isinstance(r, (int, float)) or (isinstance(r, float) and math.isnan(r)):
        ctx.fail(case, "%s returns %r, not a number" % (fn, r))
        return
    if not (0 <= r <= mx):
        ctx.fail(case, "%s(%s, %s, max_=%s) = %r is outside [0, max_]" % (fn, case["a"], case["b"], case["max_"], r))
    if equal and r != 0:
        ctx.fail(case, "%s(%s, %s) = %r for equal values" % (fn, case["a"], case["b"], r))
    if not equal and r == 0:
        ctx.fail(case, "%s(%s, %s, max_=%s) = 0 although the values differ" % (fn, case["a"], case["b"], case["max_"]))


def zero_guard_py(a, b, mx):
    """zero_guard of DistModel.v restated on Python floats; None when float() overflows"""
    try:
        x = a if isinstance(a, float) else float(a)
        y = b if isinstance(b, float) else float(b)
    except OverflowError:
        return None
    if mx == 0:
        d = math.nan if (x + y == 0 or math.isnan(x + y)) else math.copysign(math.inf, x + y) * math.copysign(1.0, mx)
    else:
        d = (x + y) / mx
    u = x - y
    if not (math.isfinite(u) and u != 0 and math.isfinite(d) and d != 0):
        return False
    return math.frexp(u)[1] - math.frexp(d)[1] >= -1074 + 2


def zero_guard_in_py(a, b, mx):
    """zero_guard_in of DistSubProofs.v restated on Python floats: x, y finite and different (instead of: x - y is a
    finite non-zero float), the difference does not overflow, the divisor is finite and non-zero, no underflow"""
    try:
        x = a if isinstance(a, float) else float(a)
        y = b if isinstance(b, float) else float(b)
    except OverflowError:
        return None
    if not (math.isfinite(x) and math.isfinite(y)) or x == y:
        return False
    if mx == 0:
        d = math.nan if (x + y == 0 or math.isnan(x + y)) else math.copysign(math.inf, x + y) * math.copysign(1.0, mx)
    else:
        d = (x + y) / mx
    u = x - y
    if math.isinf(u) or not (math.isfinite(d) and d != 0):
        return False
    return math.frexp(u)[1] - math.frexp(d)[1] >= -1074 + 2


def numbers_part(ctx):
    from deepdiff.distance import _get_numbers_distance
    rng = ctx.rng
    grid = F_SPECIAL + I_SPECIAL + [True, False] + D_SPECIAL
    # grid values are defined once in the header of every shard (type checking the literals dominates the Coq time)
    defs, names = [], {}

    def ref(x, is_max=False):
        key = ("m" if is_max else "g", repr(x), type(x).__name__)
        if key not in names:
            names[key] = "%s%d" % (key[0], len(names))
            defs.append("Definition %s := %s." % (names[key], coq_float(x) if is_max else coq_pynum(x)))
        return names[key]
    for x in grid:
        ref(x)
    for x in MAX_SPECIAL:
        ref(x, True)
    triples = []
    for a in grid:
        for b in grid:
            if ctx.thorough:
                triples.append((a, b, 1.0))
                triples.append((a, b, 0.3))
            else:
                triples.append((a, b, rng.choice([1.0, 1.0, 0.3])))
    # the witnesses of the _refuted theorems and of the known findings
    triples += [(1e308, 1.7e308, 1.0), (2 ** 53, 2 ** 53 + 1, 1.0), (5e-324, 1e-323, 5e-324), (10 ** 400, 1, 1.0), (1, 2, 0.0),
                (2, 0.5, 1.0), (1e-320, 3e-320, 1e-300), (Decimal("9007199254740993"), 2 ** 53, 1.0), (10 ** 20, 10 ** 20 + 1, 1.0)]
    nextra = 12000 if ctx.thorough else 700
    for _ in range(nextra):
        a = rng.choice(grid) if rng.random() < 0.5 else rand_double(rng)
        b = rng.choice(grid) if rng.random() < 0.4 else (a if rng.random() < 0.1 else rand_double(rng))
        mx = rng.choice(MAX_SPECIAL) if rng.random() < 0.7 else abs(rand_double(rng))
        triples.append((a, b, mx))
    # near-by doubles: the quotient is small, the subtraction exact
    for _ in range(1500 if ctx.thorough else 250):
        a = rand_double(rng)
        if math.isinf(a):
            continue
        b = a
        for _k in range(rng.randint(1, 40)):
            b = math.nextafter(b, math.inf)
        triples.append((a, b, rng.choice([1.0, 0.3, 0.5])))
    ingrid = set(id(x) for x in grid)
    import random
    grng = random.Random(ctx.seed ^ 0x60)
    cases = []
    gcases = []
    for (a, b, mx) in triples:
        res = call(_get_numbers_distance, a, b, mx)
        exp = obs_exc(res[1]) if res[0] == "exc" else obs_dres(res[1])
        ta = ref(a) if id(a) in ingrid else coq_pynum(a)
        tb = ref(b) if id(b) in ingrid else coq_pynum(b)
        tm = ref(mx, True) if any(mx is q for q in MAX_SPECIAL) else coq_float(mx)
        cases.append(("sx_dres (numbers_distance %s %s %s)" % (ta, tb, tm), exp,
                      {"a": repr(a), "b": repr(b), "max_": repr(mx)}))
        if not (a == b) and not any(isinstance(q, float) and math.isnan(q) for q in (a, b, mx)) and (ctx.thorough or rng.random() < 0.4):
            g = zero_guard_py(a, b, mx)
            gcases.append(("sx_zero_guard %s %s %s" % (ta, tb, tm), g, {"guard_of": [repr(a), repr(b), repr(mx)]}))
            # the same guard with its first clause on the inputs (two different finite floats; C19_numbers_zero_partial_inputs)
            gi = zero_guard_in_py(a, b, mx)
            if ctx.thorough or grng.random() < 0.5:
                gcases.append(("sx_zero_guard_in %s %s %s" % (ta, tb, tm), gi, {"guard_in_of": [repr(a), repr(b), repr(mx)]}))
            if gi is not None and bool(gi) != bool(g):
                ctx.break_("correspondence", {"name": "zero_guard_in_sound", "a": repr(a), "b": repr(b), "max_": repr(mx),
                                              "meaning": "the input-level guard (%r) and the guard on the computed difference (%r) disagree" % (gi, g)})
            ctx.count("zero_guard:" + ("conversion_overflows" if g is None else "inside" if g else "outside"))
            if g and mx != 0 and not (res[0] == "ok" and isinstance(res[1], (int, float)) and res[1] != 0):
                ctx.break_("correspondence", {"name": "numbers_zero_partial", "a": repr(a), "b": repr(b), "max_": repr(mx),
                                              "meaning": "inside the guard of C19_numbers_zero_partial but the implementation returns %r" % (res[1],)})
        nt = not (a == b)
        ctx.seen(("num", repr(a), repr(b), mx), nontrivial=nt)
        ctx.count("numbers:" + ("equal" if not nt else "exception" if res[0] == "exc" else
                                "zero" if res[1] == 0 else "max" if res[1] == mx else "inside"))
        # the direct oracle: meaningful range only for max_ >= 0; nan inputs are outside the quantifier
        if mx >= 0 and not any(isinstance(q, float) and math.isnan(q) for q in (a, b)):
            check_number_result(ctx, "_get_numbers_distance", a, b, mx, res, a == b)
    ctx.sample({"numbers_example": {"a": "1e308", "b": "1.7e308", "max_": 1.0, "impl": repr(_get_numbers_distance(1e308, 1.7e308, 1.0))}})
    ctx.coq_cases("numbers", HEADER + "\n" + "\n".join(defs), cases, shard=300, label="numbers_distance")
    ctx.coq_cases("zero_guard", HEADER + "\n" + "\n".join(defs), gcases, shard=400, label="zero_guard")
    # max_ passed as the int 1 (the function's default) - oracle only
    for a in grid:
        for b in (0, 1, 2.5, -1, True):
            if isinstance(a, float) and math.isnan(a):
                continue
            check_number_result(ctx, "_get_numbers_distance", a, b, 1, call(_get_numbers_distance, a, b, 1), a == b)
            ctx.seen(("num1", repr(a), repr(b)), nontrivial=not (a == b))


# ---------------------------------------------------------------------------
# (b) dates / times, (c) numpy variant
# ---------------------------------------------------------------------------

def gen_scalars(rng, n):
    D, DT, TD, T = datetime.date, datetime.datetime, datetime.timedelta, datetime.time
    tz1 = datetime.timezone(datetime.timedelta(hours=5, minutes=30))
    utc = datetime.timezone.utc
    out = [D(1, 1, 1), D(1970, 1, 1), D(2020, 2, 29), D(2020, 3, 1), D(9999, 12, 31),
           DT(1970, 1, 1), DT(1970, 1, 1, tzinfo=utc), DT(2020, 1, 1, 5), DT(2020, 1, 1, 5, tzinfo=tz1), DT(2020, 1, 1, tzinfo=utc),
           DT(2020, 1, 1, 0, 0, 0, 1), DT(3000, 1, 1, 0, 0, 0, 1), DT(3000, 1, 1), DT(3000, 1, 1, 0, 0, 0, 1, tzinfo=utc), DT(3000, 1, 1, tzinfo=utc),
           DT(1969, 12, 31, 23, 59, 59, 999999), DT(9999, 12, 31, 23, 59, 59, 999999), DT(1, 1, 1, tzinfo=utc), DT(1, 1, 2),
           TD(0), TD(1), TD(-1), TD(microseconds=1), TD(microseconds=-1), TD(days=999999999), TD(days=999999999, microseconds=1),
           TD(days=-999999999), TD(seconds=1, microseconds=500000), TD(days=110000, microseconds=1), TD(days=110000),
           T(0), T(0, 0, 0, 1), T(0, 0, 0, 2), T(1, 1, 1), T(23, 59, 59, 999999), T(12, tzinfo=utc), T(12, tzinfo=tz1), T(12, 30),
           0, 1, True, 2.5, Decimal("1.5"), 737425, 1577836800.0]
    for _ in range(n):
        k = rng.randrange(5)
        if k == 0:
            out.append(D.fromordinal(rng.randint(1, 3652059)))
        elif k == 1:
            d = DT(rng.randint(1, 9999), rng.randint(1, 12), rng.randint(1, 28), rng.randrange(24), rng.randrange(60), rng.randrange(60),
                   rng.choice([0, 1, 999999, rng.randrange(10 ** 6)]))
            if rng.random() < 0.5 and 2 <= d.year <= 9998:
                d = d.replace(tzinfo=rng.choice([utc, tz1, datetime.timezone(datetime.timedelta(hours=-8))]))
            out.append(d)
        elif k == 2:
            out.append(TD(days=rng.randint(-10 ** 6, 10 ** 6) if rng.random() < 0.5 else rng.randint(-3, 3), seconds=rng.randrange(86400),
                          microseconds=rng.choice([0, 1, rng.randrange(10 ** 6)])))
        elif k == 3:
            out.append(T(rng.randrange(24), rng.randrange(60), rng.randrange(60), rng.choice([0, 1, rng.randrange(10 ** 6)])))
        else:
            out.append(rng.choice([rng.randint(-5, 5), rng.uniform(-3, 3), Decimal(rng.randint(-50, 50)) / 10]))
    return out


def scalar_equal(a, b):
    try:
        return bool(a == b)
    except Exception:
        return False


def scalars_part(ctx):
    from deepdiff.distance import get_numeric_types_distance
    from deepdiff.helper import not_found
    rng = ctx.rng
    pool = gen_scalars(rng, 400 if ctx.thorough else 60)
    pairs = []
    fixed = pool[:45]
    for a in fixed:
        for b in fixed:
            if type(a) is type(b) or (isinstance(a, datetime.date) and isinstance(b, datetime.date)) or rng.random() < 0.08:
                pairs.append((a, b))
    for _ in range(4000 if ctx.thorough else 500):
        a = rng.choice(pool)
        same = [q for q in pool if type(q) is type(a)]
        b = rng.choice(same) if rng.random() < 0.85 else rng.choice(pool)
        pairs.append((a, b))
    cases = []
    for a, b in pairs:
        mx = rng.choice([1.0, 0.3, 0.5])
        res = call(get_numeric_types_distance, a, b, mx)
        if res[0] == "ok" and res[1] is not_found:
            exp = "not_found"
        else:
            exp = obs_exc(res[1]) if res[0] == "exc" else obs_dres(res[1])
        cases.append(("sx_odres (numeric_types_distance %s %s %s)" % (coq_scalar(a), coq_scalar(b), coq_float(mx)), exp,
                      {"a": repr(a), "b": repr(b), "max_": mx}))
        eq = scalar_equal(a, b)
        ctx.seen(("scalar", repr(a), repr(b), mx), nontrivial=not eq)
        ctx.count("scalars:" + ("not_found" if exp == "not_found" else type(a).__name__))
        if exp != "not_found":
            check_number_result(ctx, "get_numeric_types_distance", a, b, mx, res, eq)
    ctx.coq_cases("scalars", HEADER, cases, shard=250, label="numeric_types_distance")


def numpy_part(ctx):
    try:
        import numpy as np
        from deepdiff.distance import _get_numpy_array_distance
    except Exception as e:  # numpy is optional for deepdiff
        ctx.note("numpy_variant", "skipped: %r" % (e,))
        return
    rng = ctx.rng
    fl = [x for x in F_SPECIAL if not math.isnan(x)] + [5.0, 20.0, 13.0, -7.0, 7.0]
    trip = [(a, b, mx) for a in fl for b in fl for mx in (1.0, 0.3)]
    for _ in range(3000 if ctx.thorough else 400):
        a = rand_double(rng)
        b = a if rng.random() < 0.05 else rand_double(rng)
        trip.append((a, b, rng.choice([1.0, 0.3, 0.5, 0.1])))
    cases = []
    old = np.seterr(all="ignore")
    try:
        for mx in sorted(set(t[2] for t in trip)):
            sel = [t for t in trip if t[2] == mx]
            A = np.array([t[0] for t in sel], dtype=np.float64)
            B = np.array([t[1] for t in sel], dtype=np.float64)
            res = call(_get_numpy_array_distance, A, B, mx)
            if res[0] == "exc":
                ctx.fail({"kind": "numpy", "max_": mx, "exception": type(res[1]).__name__}, "_get_numpy_array_distance raises %r" % (res[1],))
                continue
            for (a, b, _m), r in zip(sel, res[1].tolist()):
                cases.append(("sx_float (numbers_distance_np %s %s %s)" % (coq_float(a), coq_float(b), coq_float(mx)), obs_float(r),
                              {"a": repr(a), "b": repr(b), "max_": mx}))
                ctx.seen(("np", a, b, mx), nontrivial=a != b)
                ctx.count("numpy:" + ("equal" if a == b else "zero" if r == 0 else "max" if r == mx else "inside"))
                case = {"kind": "numpy", "a": repr(a), "b": repr(b), "max_": repr(mx), "result": repr(r)}
                if math.isinf(a) or math.isinf(b):
                    continue        # inf is outside the quantifier (nan results)
                if math.isnan(r) or not (0 <= r <= mx):
                    ctx.fail(case, "_get_numpy_array_distance(%r, %r, max_=%r) = %r is outside [0, max_]" % (a, b, mx, r))
                elif (r == 0) != (a == b):
                    ctx.fail(case, "_get_numpy_array_distance(%r, %r, max_=%r) = %r: zero exactly for equal values fails" % (a, b, mx, r))
    finally:
        np.seterr(**old)
    ctx.coq_cases("numpy", HEADER, cases, shard=250, label="numpy_array_distance")


# ---------------------------------------------------------------------------
# (d) rough distance
# ---------------------------------------------------------------------------

def ilen(v):
    """independent re-statement of the operation count of a reported value (used by matchers only)"""
    if isinstance(v, Mapping):
        n = 0
        for k, x in v.items():
            if isinstance(k, str) and (k.startswith("_") or k in ("deep_distance", "new_path")):
                continue
            n += ilen(x)
        return n
    if isinstance(v, NUMBERS) or isinstance(v, (str, bytes)):
        return 1
    if isinstance(v, Iterable):
        return sum(ilen(x) for x in v)
    return 0


def icount(v):
    """independent re-statement of the item length (DeepHash count), default parameters"""
    if isinstance(v, dict):
        return 1 + sum(1 if (isinstance(k, str) and k.startswith("__")) else 1 + icount(x) for k, x in v.items())
    if isinstance(v, (list, tuple, set, frozenset)):
        return 1 + sum(icount(x) for x in v)
    return 1


class Recorder:
    """Wraps DistanceMixin._get_rough_distance (in this process only, nothing under /repo is touched) to see every
    distance the diff computes: the root one and those used for pairing.  If the private method is renamed the
    recorder is simply not installed and only the public result is used."""

    def __init__(self):
        self.records = []
        self.installed = False
        self.orig = None

    def install(self):
        try:
            from deepdiff.distance import DistanceMixin
            orig = DistanceMixin._get_rough_distance
        except Exception:
            return
        rec = self

        def wrapper(self_):
            r = {"t1": self_.t1, "t2": self_.t2, "cutoff": getattr(self_, "cutoff_distance_for_pairs", None),
                 "view": getattr(self_, "view", None), "root": bool(getattr(self_, "is_root", False)), "inst": id(self_),
                 "ignore_order": bool(getattr(self_, "ignore_order", False)), "rep": bool(getattr(self_, "report_repetition", False)),
                 # the instance stays alive as long as its record: "inst" is the key under which InstancePairs files the
                 # pairings of THIS instance, and CPython re-uses the id of a collected nested instance for a later one
                 # (whose pairings were then handed to the model as this run's oracle: false alarm under VERIF_SEED=1)
                 "keep": self_}
            try:
                r["tcs"] = [(lv.t1, lv.t2) for lv in (self_.tree.get("type_changes") or [])]
            except Exception:  # noqa
                r["tcs"] = None
            try:
                out = orig(self_)
                r["result"] = ("ok", out)
            except Exception as e:
                r["result"] = ("exc", e)
                rec.records.append(r)
                raise
            try:
                item = dict(self_) if self_.view == "delta" else self_._to_delta_dict(report_repetition_required=False)
                r["delta"] = item
                r["t2paths"] = t2_parent_paths(self_)     # now: the tree is rewritten later (add + remove -> value change)
            except Exception as e:  # noqa
                r["delta_error"] = repr(e)
            rec.records.append(r)
            return out
        self.orig = orig
        self.cls = DistanceMixin
        DistanceMixin._get_rough_distance = wrapper
        self.installed = True

    def uninstall(self):
        if self.installed:
            self.cls._get_rough_distance = self.orig
            self.installed = False


class InstancePairs:
    """The pairings used by EVERY DeepDiff instance of a run - the root and the nested ones created for pairing distances
    (C05's recorder, which this wraps and leaves in place, looks at the root only) - in the record shape of C05
    (c05.pairs_table / c05.pairs_valid apply).  Installed in this process only."""

    def __init__(self):
        self.by_inst = {}
        self.keep = []
        self.installed = False

    def install(self):
        try:
            from deepdiff.diff import DeepDiff
            o_iter, o_pairs = DeepDiff._diff_iterable_with_deephash, DeepDiff._get_most_in_common_pairs_in_iterables
        except Exception:
            return
        me = self
        stacks = {}

        def w_iter(self_, level, parents_ids, _original_type=None, local_tree=None):
            st = stacks.setdefault(id(self_), [])
            st.append(level)
            try:
                return o_iter(self_, level, parents_ids, _original_type=_original_type, local_tree=local_tree)
            finally:
                st.pop()

        def w_pairs(self_, hashes_added, hashes_removed, t1_hashtable, t2_hashtable, parents_ids, _original_type):
            added, removed = list(hashes_added), list(hashes_removed)
            out = o_pairs(self_, hashes_added, hashes_removed, t1_hashtable, t2_hashtable, parents_ids, _original_type)
            st = stacks.get(id(self_))
            if st:
                me.keep.append(self_)             # the instance stays alive: its id is not reused within the run
                me.by_inst.setdefault(id(self_), []).append(
                    {"level": st[-1], "added": added, "removed": removed, "pairs": dict(out),
                     "t1_first": {h: t1_hashtable[h].indexes[0] for h in removed if h in t1_hashtable},
                     "t2_first": {h: t2_hashtable[h].indexes[0] for h in added if h in t2_hashtable}})
            return out
        self.cls, self.o_iter, self.o_pairs = DeepDiff, o_iter, o_pairs
        DeepDiff._diff_iterable_with_deephash, DeepDiff._get_most_in_common_pairs_in_iterables = w_iter, w_pairs
        self.installed = True

    def clear(self):
        self.by_inst.clear()
        del self.keep[:]

    def uninstall(self):
        if self.installed:
            self.cls._diff_iterable_with_deephash, self.cls._get_most_in_common_pairs_in_iterables = self.o_iter, self.o_pairs
            self.installed = False


NESTED_MODEL_KEYS = {"ignore_order", "view", "cutoff_distance_for_pairs", "report_repetition", "cutoff_intersection_for_pairs",
                     "max_passes", "verbose_level", "cache_size", "threshold_to_diff_deeper"}


def nested_model_case(r, cfg, ip):
    """a pairing distance - the nested DeepDiff(removed item, added item, view='delta')._get_rough_distance() recorded in r -
    recomputed by the model from the two items and the nested run's own pairings (Dist/DistIOModel.v pair_distance:
    diff_io, the add/remove rewrite when repetitions are not reported, the ignore-order delta view)"""
    from harness import diffcommon as D
    from harness.props import c05
    x, y = r["t1"], r["t2"]
    recs = ip.by_inst.get(r["inst"], [])
    tbl = c05.pairs_table(recs)
    inc, guard = [], True
    for a, b in r["tcs"]:
        try:
            include = bool(type(b)(a) != b)
        except Exception:
            include = True
        inc.append("(%s, %s, %s)" % (values.to_coq(a), values.to_coq(b), core.coq_bool(include)))
        guard = guard and (2 + (ilen(b) if include else 0) <= icount(a) + icount(b))
    thr = cfg.get("threshold_to_diff_deeper", 0.33)
    expr = "dist_io_case true %s %s %s [%s] %s %s %s" % (
        D.coq_cfg(False, thr, True), core.coq_bool(r["rep"]), c05.coq_pairs_table(tbl), "; ".join(inc), coq_float(float(r["cutoff"])),
        values.to_coq(x), values.to_coq(y))
    # last component: mutual_ok, the hypothesis of C19_pair_distance_range_default, observed on the nested run's levels
    unrep = pairs_unrepeated(recs, r["rep"])
    exp = [obs_rough(r["result"][1]), delta_ops(r["delta"]), icount(x), icount(y), bool(guard), bool(items_unrepeated(x, r["rep"])), True, bool(unrep)]
    return expr, exp, all(c05.pairs_valid(q) for q in recs), sum(len(ji) for _p, ji, _a, _b in tbl)


def gen_pairs(ctx):
    """(t1, t2, how) - nested values, edits, scalars of different types, containers vs scalars."""
    rng = ctx.rng
    out = []
    # hand-picked
    D, DT, TD, T = datetime.date, datetime.datetime, datetime.timedelta, datetime.time
    hand = [(1, ""), (1, 2), (1, -1), (0, 0.0), (True, 1), (1, 1.0), (None, 1), (None, ""), ([], ""), ({}, ""), (1, []), ([1, 2], (1, 3)),
            ([1, 2, 3], [1, 2, 3, 4]), ([1], [1, None]), ([1], [1, []]), ({"a": 1}, {"a": 1, "b": None}), ([None, None, None], ["", "", ""]),
            ("abc", "abd"), ("a", b"a"), ([1, 2, 3], [3, 2, 5]), ({1, 2}, {2, 3}), ({1, 2}, frozenset({1, 2})), ((1, 2), (1, 3, 4)),
            ([1, 1, 2], [1, 3]), ({}, {"x": {"_a": 5, "new_path": 3, "b": 1}}), ({}, {"x": {"_a": 5}}), ([[1, 2], [3, 4]], [[4, 3], [2, 1, 0]]),
            ([{"a": 1, "b": [1, 2]}, {"a": 2, "b": [3]}], [{"a": 2, "b": [3, 4]}, {"a": 1, "b": [2, 1]}]),
            (Decimal("1.5"), 1.5), (Decimal("1.5"), Decimal("2.5")), (Decimal("1"), "1"), (D(2020, 1, 1), D(2020, 1, 2)), (D(2020, 1, 1), "x"),
            (DT(2020, 1, 1, 5), D(2020, 1, 1)), (DT(2020, 1, 1), DT(2021, 1, 1)), (T(1, 1, 1), T(2, 1, 1)), (T(0, 0, 0, 1), T(0, 0, 0, 2)),
            (TD(1), TD(2)), (TD(1), TD(-1)), (TD(1), 86400), (1e308, 1.7e308), (2 ** 53, 2 ** 53 + 1), (10 ** 400, 1), (0.1, 0.3), (5, 0),
            ([1, 2, 3, 4], {1, 2, 3, 4}), ("a", ["a"]), ([1.5, 2], [1.5, 3.5]), ([1, [2, [3, [4]]]], [1, [2, [3, [5]]]]),
            ({}, {"x": {"iterable_items_added_at_indexes": 5}}), ({}, {"x": {b"k": 1}}), ({}, {"x": {b"_k": 1, b"": [2]}}),
            ({}, {"a": {"old_value": 1, "x": 2}}), ({"a": {"old_value": 1}}, {"a": {"old_value": 2, "new_value": None}}),
            ([D(2020, 1, 1), 1], [D(2020, 1, 2), 1]), ([Decimal("1.1")], [Decimal("1.2"), None])]
    for a, b in hand:
        out.append((a, b, "hand"))
        out.append((b, a, "hand"))
    n_rand = 4500 if ctx.thorough else 330
    for _ in range(n_rand):
        v = values.gen_value(rng, depth=rng.choice([1, 2, 3]), width=rng.choice([2, 3, 4]), alias=rng.random() < 0.2)
        r = rng.random()
        if r < 0.1:
            out.append((v, copy.deepcopy(v), "equal"))
        elif r < 0.75:
            vals, kinds = values.edit_script(rng, v, rng.randint(1, 3), alias=rng.random() < 0.2)
            out.append((v, vals[-1], "edit:" + "+".join(kinds[:2])))
        elif r < 0.9:
            out.append((v, values.gen_value(rng, depth=2, width=3), "unrelated"))
        else:
            s = values.gen_atom(rng, alias=True)
            out.append(((v, s) if rng.random() < 0.5 else (s, v)) + ("scalar_vs_any",))
    # several insertions / deletions in one list (difflib opcodes), and lists of containers re-ordered and edited
    # (pairing in ignore_order mode)
    for _ in range(1100 if ctx.thorough else 90):
        base = [values.gen_value(rng, depth=rng.choice([0, 0, 1]), width=3) for _ in range(rng.randint(3, 8))]
        new = copy.deepcopy(base)
        for _k in range(rng.randint(2, 4)):
            if new and rng.random() < 0.4:
                del new[rng.randrange(len(new))]
            else:
                new.insert(rng.randint(0, len(new)), values.gen_value(rng, depth=rng.choice([0, 0, 1]), width=2))
        if rng.random() < 0.3:
            base, new = {"k": base, "z": 1}, {"k": new, "z": 1}
        out.append((base, new, "multi_edit_list"))
    for _ in range(1100 if ctx.thorough else 90):
        base = [values.gen_value(rng, depth=2, width=3, kinds="LDT") for _ in range(rng.randint(2, 5))]
        new = copy.deepcopy(base)
        rng.shuffle(new)
        for i in range(len(new)):
            if rng.random() < 0.6:
                new[i], _kind = values.edit(rng, new[i])
        if rng.random() < 0.3 and new:
            new.append(copy.deepcopy(rng.choice(new)))
        out.append((base, new, "shuffled_containers"))
    # same-type containers that are == for Python but differ in the numeric TYPE of some leaf (1 vs 1.0 vs True):
    # the default diff reports type_changes below dict values / nested containers, so the distance must be positive
    retype = {0: [0.0, False], 1: [1.0, True], 2: [2.0], 3: [3.0], 10: [10.0], -1: [-1.0]}

    def numeric_positions(v):
        return [q for q in values.positions(v) if q and type(values.get_at(v, q)) is int and values.get_at(v, q) in retype]
    hand_eq = [({"k": {"n": 10}}, {"k": {"n": 10.0}}), ({"a": 1}, {"a": True}), ([{"a": 1, "b": [2, 3]}], [{"a": 1.0, "b": [2, 3]}]),
               ({"a": (1, 2)}, {"a": (1, 2.0)}), ([[1, "x"], {"k": 0}], [[1, "x"], {"k": False}]), ({"a": {"b": {"c": 3}}}, {"a": {"b": {"c": 3.0}}})]
    for a, b in hand_eq:
        out.append((a, b, "numeric_type_only"))
        out.append((b, a, "numeric_type_only"))
    for _ in range(800 if ctx.thorough else 70):
        v = values.gen_value(rng, depth=rng.choice([2, 3]), width=3, kinds="DLDT", keygen=lambda r: r.choice(["a", "b", "k1", "k2", 5, None]))
        if not isinstance(v, (dict, list, tuple)):
            v = {"k": v, "n": rng.choice([0, 1, 2, 10])}
        if isinstance(v, dict):
            v = dict(v)
            v.setdefault("n", rng.choice([0, 1, 2, 10]))
        pos = numeric_positions(v)
        if not pos:
            continue
        w = copy.deepcopy(v)
        for q in rng.sample(pos, min(len(pos), rng.randint(1, 2))):
            w = values.set_at(w, q, rng.choice(retype[values.get_at(v, q)]))
        out.append((v, w, "numeric_type_only"))
    atoms = [None, True, False, 0, 1, -1, 2.5, 0.5, "", "a", b"", b"a", Decimal("1"), D(2020, 1, 1), DT(2020, 1, 1), TD(1), T(1), [], {}, (), set(), [None], [""], {"a": None}]
    for a in atoms:
        for b in atoms:
            if ctx.thorough or rng.random() < 0.45:
                out.append((copy.deepcopy(a), copy.deepcopy(b), "atoms"))
    uni = values.small_universe(atoms=(None, True, 2, 0.5, "a", ""), maxlen=2, depth=1, kinds="LDS")
    k = 2200 if ctx.thorough else 160
    for _ in range(k):
        out.append((copy.deepcopy(rng.choice(uni)), copy.deepcopy(rng.choice(uni)), "universe"))
    out.extend(shared_row_pairs(rng, 400 if ctx.thorough else 60))
    # a fixed fraction of the random pairs carries ONE container object at two positions of t1 and / or t2
    import random
    srng = random.Random(rng.random())
    for i, (t1, t2, how) in enumerate(out):
        if how.split(":")[0] in ("edit", "unrelated", "multi_edit_list", "shuffled_containers", "equal"):
            a, sa = maybe_share(srng, t1, 0.3)
            b, sb = maybe_share(srng, t2, 0.3)
            if sa or sb:
                out[i] = (a, b, how)
    return out


# inputs that reference ONE container object from several positions ([row] * k): DeepHash serves the repeated object
# from its table, and the item lengths that divide the operation count must be those of the unfolded tree (what
# values.to_coq feeds the model).  repr() would unfold the sharing, so these inputs travel as expressions.
SHARED_EXPR = {}
SHARED_SHAPES = {
    "list": "(lambda r: [r] * %(k)d)(%(row)r)",
    "tuple": "(lambda r: (r,) * %(k)d)(%(row)r)",
    "list_extra": "(lambda r: [r] * %(k)d + [%(extra)r])(%(row)r)",
    "dict_of_list": "(lambda r: {'g': [r] * %(k)d, 'n': %(extra)r})(%(row)r)",
    "nested": "(lambda r: [[r] * %(k)d, [r, %(extra)r]])(%(row)r)",
    "two_rows": "(lambda r, q: [r, q] * %(k)d)(%(row)r, [%(extra)r])",
}


def has_sharing(v):
    """some list / dict / set object is reachable through two different positions of v"""
    seen = set()

    def walk(x):
        if isinstance(x, (list, dict, set)):
            if id(x) in seen:
                return True
            seen.add(id(x))
        if isinstance(x, dict):
            return any(walk(y) for y in x.values())
        if isinstance(x, (list, tuple)):
            return any(walk(y) for y in x)
        return False
    return walk(v)


def text_of(v):
    """a Python expression that rebuilds v including its sharing (for failing-case records and replays)"""
    e = SHARED_EXPR.get(id(v))
    if e and e[0] is v:                      # the entry keeps the object alive, so its id is not reused
        return e[1]
    if has_sharing(v):
        return "unpickle(%r)" % pickle.dumps(v, protocol=2).hex()
    return repr(v)


def maybe_share(rng, v, p=0.12):
    """with probability p: the same value with one container occurring (as the same object) at a second position"""
    if rng.random() < p:
        w, ok = values.share(rng, v)
        if ok:
            return w, True
    return v, False


def shared_row_pairs(rng, n):
    out = []
    hand = [("(lambda r: [r] * 4)([0, 0, 0, 0, 0, 0, 0, 0])", "(lambda r: [r] * 4)([1, 1, 1, 1, 1, 1, 1, 1])"),
            ("(lambda r: [r] * 8)({'a': 1, 'b': 2, 'c': 3, 'd': 4})", "(lambda r: [r] * 8)({'a': 5, 'b': 6, 'c': 7, 'd': 8})"),
            ("(lambda r: [r] * 3)([0, 0, 0, 0])", "(lambda r: [r] * 3)([0, 0, 0, 0])"),
            ("(lambda r: {'g': [r] * 5})([1, 2, 3])", "(lambda r: {'g': [r] * 5})([4, 5, 6])")]
    exprs = list(hand)
    for _ in range(n):
        k = rng.randint(2, 6)
        width = rng.randint(3, 8)
        if rng.random() < 0.7:
            row1 = [rng.choice([0, 1, 2, "a", None, 2.5]) for _ in range(width)]
            row2 = [(x if rng.random() < 0.15 else rng.choice([5, 6, 7, "b", "c", 1.5])) for x in row1]
            if rng.random() < 0.2:
                row2 = row2[:-1] if rng.random() < 0.5 else row2 + [9]
        else:
            row1 = {"k%d" % i: rng.choice([0, 1, 2, "a"]) for i in range(width)}
            row2 = {kk: (v if rng.random() < 0.15 else rng.choice([5, 6, 7, "b"])) for kk, v in row1.items()}
        shape = SHARED_SHAPES[rng.choice(sorted(SHARED_SHAPES))]
        extra = rng.choice([0, "x", None, 3])
        exprs.append((shape % {"k": k, "row": row1, "extra": extra}, shape % {"k": k, "row": row2, "extra": extra}))
    for e1, e2 in exprs:
        t1, t2 = _ev(e1), _ev(e2)
        SHARED_EXPR[id(t1)], SHARED_EXPR[id(t2)] = (t1, e1), (t2, e2)
        out.append((t1, t2, "shared_rows"))
    return out


def has_crash_key(v):
    """a dict key named like one of the two delta keys whose values _get_item_length dedupes (bytes keys crashed too
    until 3adbf05)"""
    if isinstance(v, dict):
        return any((isinstance(k, str) and k in ("iterable_items_added_at_indexes", "iterable_items_removed_at_indexes")) or has_crash_key(x)
                   for k, x in v.items())
    if isinstance(v, (list, tuple)):
        return any(has_crash_key(x) for x in v)
    return False


def reported_values(diff):
    """(category, old, new) of every entry of a text-view result (old/new absent -> Ellipsis)."""
    out = []
    for cat, body in diff.items():
        if cat == "deep_distance":
            continue
        if isinstance(body, Mapping):
            for p, e in body.items():
                if cat in ("type_changes", "values_changed") and isinstance(e, Mapping):
                    out.append((cat, e.get("old_value", ...), e.get("new_value", ...)))
                elif cat.endswith("removed"):
                    out.append((cat, e, ...))
                else:
                    out.append((cat, ..., e))
        else:
            for p in body:
                out.append((cat, ..., ...))
    return out


def same_typed(a, b):
    try:
        return values.typed_eq(a, b)
    except Exception:
        return type(a) is type(b) and a == b


def oracle_pair(ctx, t1, t2, cfg, how, texts=None):
    """The statement of C19 on the public API, independent of the model.  `texts`: Python expressions that rebuild the
    inputs (needed when an object is referenced from several positions: repr() would unfold it)."""
    from deepdiff import DeepDiff
    case = {"kind": "deep_distance", "t1": texts[0] if texts else repr(t1), "t2": texts[1] if texts else repr(t2), "config": cfg, "how": how}
    try:
        d = DeepDiff(t1, t2, get_deep_distance=True, **cfg)
    except Exception as e:
        # C19 speaks about the distance: a call that raises the same exception without get_deep_distance
        # is not a failure of the distance computation (side observations are counted, see the notes)
        try:
            DeepDiff(copy.deepcopy(t1), copy.deepcopy(t2), **cfg)
            same = False
        except Exception as e2:
            same = type(e2) is type(e)
        if same:
            ctx.count("oracle:raises_also_without_get_deep_distance:" + type(e).__name__)
            ctx.note("raises_without_distance_example", "DeepDiff(%s, %s, **%r) raises %s: %s" % (case["t1"][:80], case["t2"][:80], cfg, type(e).__name__, str(e)[:100]))
            return None
        case["exception"] = type(e).__name__
        ctx.fail(case, "DeepDiff(%s, %s, get_deep_distance=True, %r) raises %s: %s" % (case["t1"], case["t2"], cfg, type(e).__name__, e))
        return None
    dist = d.get("deep_distance", None) if isinstance(d, Mapping) else None
    case["deep_distance"] = repr(dist)
    equal = same_typed(t1, t2)
    if dist is not None:
        if isinstance(dist, bool) or not isinstance(dist, (int, float)) or (isinstance(dist, float) and math.isnan(dist)):
            ctx.fail(case, "deep_distance = %r is not a number" % (dist,))
            return d
        if not (0 <= dist <= 1):
            ctx.fail(case, "DeepDiff(%s, %s, get_deep_distance=True, %r)['deep_distance'] = %r is outside [0, 1]" % (case["t1"], case["t2"], cfg, dist))
        if equal and dist != 0:
            ctx.fail(case, "deep_distance = %r for equal inputs" % (dist,))
    default_cfg = set(cfg) <= {"view", "cutoff_distance_for_pairs"} and cfg.get("cutoff_distance_for_pairs", 0.3) == 0.3
    nonempty = any(k != "deep_distance" for k in d.keys())
    if default_cfg and cfg.get("view", "text") == "text" and nonempty and not (dist is not None and dist > 0):
        case["diff"] = repr({k: v for k, v in d.items() if k != "deep_distance"})[:400]
        ctx.fail(case, "default-configuration diff of %s and %s is non-empty but deep_distance is %r" % (case["t1"], case["t2"], dist))
    return d


def diff_model_case(t1, t2, cfg, dist):
    """The distance computed by the model from the inputs alone (Diff/DiffModel.v [diff] + the delta view of its
    levels, Dist/DistDiffModel.v), the tiling hypothesis on the real difflib opcodes, and the type-change guard -
    the hypotheses of C19_deep_distance_range_ordered.  Ordered mode only."""
    from deepdiff import DeepDiff
    from harness import diffcommon as D
    zip_ = bool(cfg.get("zip_ordered_iterables", False))
    kw = {k: v for k, v in cfg.items() if k not in ("view",)}
    tree = DeepDiff(t1, t2, view="tree", **kw)     # the same objects: set iteration order must be the one emitted for t1 / t2
    inc, guard = [], True
    for lv in tree.get("type_changes", []):
        a, b = lv.t1, lv.t2
        try:
            include = bool(type(b)(a) != b)
        except Exception:
            include = True
        inc.append("(%s, %s, %s)" % (values.to_coq(a), values.to_coq(b), core.coq_bool(include)))
        try:
            guard = guard and (2 + (ilen(b) if include else 0) <= icount(a) + icount(b))
        except Exception:
            pass
    ops = D.coq_ops_table(D.opcode_table(t1, t2))
    cut = coq_float(float(cfg.get("cutoff_distance_for_pairs", 0.3)))
    cfgc = D.coq_cfg(zip_, 0.33, True)
    a, b = values.to_coq(t1), values.to_coq(t2)
    expr = ("(let ops := tbl_ops %s in let inc := tbl_incl [%s] in "
            "SL [sx_rough (deep_distance_of_diff hatom_deep (fun _ _ => nil) ops no_paths no_paths %s inc %s %s %s); "
            "sx_bool (forallb (fun x : path * list opcode => ops_tile 0 0 (snd x)) %s); "
            "sx_bool (tcs_ok inc (fst (diff hatom_deep (fun _ _ => nil) ops no_paths no_paths %s %s %s nil nil)))])") % (
        ops, "; ".join(inc), cfgc, cut, a, b, ops, cfgc, a, b)
    return expr, [obs_rough(dist), True, bool(guard)], guard


CONFIGS = [{}, {"ignore_order": True}, {"zip_ordered_iterables": True}, {"view": "tree"}, {"ignore_order": True, "view": "tree"},
           {"cutoff_distance_for_pairs": 1.0}, {"ignore_order": True, "cutoff_distance_for_pairs": 1.0},
           {"ignore_order": True, "cutoff_distance_for_pairs": 0.1}, {"cutoff_distance_for_pairs": 0.5, "view": "tree"},
           {"ignore_order": True, "cutoff_distance_for_pairs": 0.6}]


def combo_config(rng):
    """a random combination of the options that reach the distance code (pairs / triples of options, both accepted
    shapes of cutoff_distance_for_pairs: float and int)"""
    cfg = {}
    io = rng.random() < 0.5
    if io:
        cfg["ignore_order"] = True
    pool = [("view", ["tree", "text"]), ("cutoff_distance_for_pairs", [0.1, 0.5, 0.6, 1.0, 1, 0.3]), ("verbose_level", [0, 2]),
            ("threshold_to_diff_deeper", [0, 0.5, 1]), ("ignore_numeric_type_changes", [True]), ("ignore_string_type_changes", [True]),
            ("cache_size", [0, 500])]
    pool += [("report_repetition", [True]), ("cutoff_intersection_for_pairs", [1, 0.2]), ("max_passes", [0, 1, 3])] if io \
        else [("zip_ordered_iterables", [True]), ("ignore_order", [False])]
    for name, vals in rng.sample(pool, rng.randint(2, 4)):
        cfg[name] = rng.choice(vals)
    return cfg


MODEL_CFG_KEYS = {"view", "zip_ordered_iterables", "cutoff_distance_for_pairs", "verbose_level", "cache_size"}


def rough_part(ctx):
    rng = ctx.rng
    import random
    crng = random.Random(ctx.seed ^ 0xC0B0)          # own stream for the option combinations
    rec = Recorder()
    rec.install()
    ctx.note("recorder_installed", rec.installed)
    ip = InstancePairs()
    ip.install()
    cases = []
    sd_cases = []
    dm_cases = []
    np_cases = []
    np_cap = 2000 if ctx.thorough else 260
    seen_keys = set()
    try:
        for (t1, t2, how) in gen_pairs(ctx):
            cfgs = [CONFIGS[0], CONFIGS[1]] + ([CONFIGS[2]] if (ctx.thorough or rng.random() < 0.5) else []) \
                + rng.sample(CONFIGS[3:], 2 if ctx.thorough else 1) + [combo_config(crng)]
            for cfg in cfgs:
                rec.records.clear()
                ip.clear()
                a, b = copy.deepcopy(t1), copy.deepcopy(t2)        # deepcopy keeps objects shared inside t1 / t2 shared
                d = oracle_pair(ctx, a, b, cfg, how, texts=(text_of(t1), text_of(t2)))
                nt = not same_typed(t1, t2)
                ctx.seen(("rough", text_of(t1), text_of(t2), repr(sorted(cfg.items()))), nontrivial=nt)
                ctx.count("rough:" + how.split(":")[0])
                ctx.count("rough_cfg:" + ("ignore_order" if cfg.get("ignore_order") else "ordered") + "/" + cfg.get("view", "text"))
                if len(cfg) > 2:
                    ctx.count("rough_cfg:combination_of_%d_options" % len(cfg))
                if has_sharing(t1) or has_sharing(t2):
                    ctx.count("rough_inputs:with_shared_object")
                recs = list(rec.records)
                if not rec.installed and d is not None:
                    # fall back to the public observable and the semi-public delta dict
                    try:
                        recs = [{"t1": a, "t2": b, "cutoff": float(cfg.get("cutoff_distance_for_pairs", 0.3)), "root": True,
                                 "result": ("ok", d.get("deep_distance", None)),
                                 "delta": d._to_delta_dict(report_repetition_required=False)}]
                    except Exception:
                        recs = []
                for r in recs:
                    if not (root_ok(r["t1"]) and root_ok(r["t2"])) or r.get("cutoff") is None:
                        ctx.count("rough_records:outside_universe")
                        continue
                    res = r["result"]
                    if res[0] == "exc" and not isinstance(res[1], ERRS):
                        ctx.count("rough_records:other_exception")
                        continue
                    if "delta" not in r:
                        if res[0] == "exc":
                            # the delta view can still be computed for a root call that failed inside the distance code
                            try:
                                from deepdiff import DeepDiff
                                r["delta"] = DeepDiff(copy.deepcopy(r["t1"]), copy.deepcopy(r["t2"]),
                                                      **{k: v for k, v in cfg.items() if k != "view"})._to_delta_dict(report_repetition_required=False) \
                                    if r["root"] else None
                            except Exception:
                                r["delta"] = None
                        if r.get("delta") is None:
                            ctx.count("rough_records:no_delta")
                            continue
                    try:
                        term = "sx_rough (rough_distance %s %s %s %s)" % (coq_root(r["t1"]), coq_root(r["t2"]), coq_float(r["cutoff"]),
                                                                          coq_dv(r["delta"], _Ids()))
                    except (TypeError, AssertionError):
                        ctx.count("rough_records:outside_universe")
                        continue
                    key = hash(term)
                    if key in seen_keys:
                        continue
                    seen_keys.add(key)
                    if in_universe(r["t1"]) and in_universe(r["t2"]) and res[0] == "ok" and not cfg.get("report_repetition") \
                            and (ctx.thorough or (cfg in CONFIGS and how != "shared_rows")):
                        # (with report_repetition a paired item is reported once per repetition: K28 - such deltas are
                        # not position-disjoint; they are covered by the ignore-order model stream)
                        try:
                            ids2 = _Ids()
                            gen = coq_dv(r["delta"], ids2)
                            sdt, guard = sdelta_of(r["delta"], r["t1"], r["t2"], ids2, r.get("t2paths"))
                            sd_cases.append(("sd_check %s %s %s %s" % (to_coq19(r["t1"]), to_coq19(r["t2"]), sdt, gen), [True, True, bool(guard)],
                                             {"t1": repr(r["t1"]), "t2": repr(r["t2"]), "config": cfg, "delta": repr(r["delta"])[:600]}))
                            ctx.count("structured_delta:" + ("inside_guard" if guard else "outside_guard"))
                            x = res[1]
                            if guard and isinstance(x, (int, float)) and not isinstance(x, bool) and x > 1:
                                ctx.break_("correspondence", {"name": "rough_range_partial", "t1": repr(r["t1"]), "t2": repr(r["t2"]),
                                                              "meaning": "inside the guard of C19_rough_range_partial but the implementation reports %r" % (x,)})
                        except NotStructured as e:
                            ctx.count("structured_delta:not_structured")
                            ctx.note("not_structured_example", str(e)[:200])
                    exp = obs_exc(res[1]) if res[0] == "exc" else obs_rough(res[1])
                    cases.append((term, exp, {"t1": repr(r["t1"]), "t2": repr(r["t2"]), "config": cfg, "root_call": r["root"],
                                              "impl": repr(res[1]), "delta": repr(r["delta"])[:600]}))
                    ctx.count("rough_records:" + ("root" if r["root"] else "pairing"))
                    if not r["root"] and res[0] == "ok" and r.get("ignore_order") and r.get("tcs") is not None and ip.installed \
                            and len(np_cases) < np_cap and set(cfg) <= NESTED_MODEL_KEYS:
                        from harness import diffcommon as D
                        from harness.props import c05
                        x, y = r["t1"], r["t2"]
                        try:
                            okm = in_universe(x) and in_universe(y) and D.in_model_guard(x, y) and not values.contains_alias(x, y) \
                                and not c05.has_tag_like(x, y) and not has_crash_key(x) and not has_crash_key(y) \
                                and not (isinstance(x, SCALAR_TYPES) and isinstance(y, SCALAR_TYPES))
                            if okm:
                                expr, expn, valid, paired = nested_model_case(r, cfg, ip)
                                np_cases.append((expr, expn, {"t1": repr(x), "t2": repr(y), "config": cfg, "impl": repr(res[1]), "nested": True}))
                                ctx.count("pair_distance_model:" + ("rep" if r["rep"] else "norep") + ("/with_pairs" if paired else "/no_pairs"))
                                if not valid:
                                    ctx.break_("correspondence", {"name": "nested pairing", "t1": repr(x), "t2": repr(y), "config": cfg,
                                                                  "what": "recorded nested pairing is not a symmetric partial injection"})
                                inside = expn[4] and (not r["rep"] or expn[7])
                                if inside and isinstance(res[1], (int, float)) and res[1] > 1:
                                    ctx.break_("correspondence", {"name": "pair_distance_range", "t1": repr(x), "t2": repr(y), "config": cfg,
                                                                  "meaning": "inside io_guard and the type-change guard but the pairing distance is %r" % (res[1],)})
                        except (TypeError, AssertionError, KeyError):
                            ctx.count("pair_distance_model:not_expressible")
                    if not r["root"] and res[0] == "ok":
                        # the pairing distances themselves: range
                        x = res[1]
                        if isinstance(x, bool) or not isinstance(x, (int, float)) or not (0 <= x <= 1):
                            ctx.fail({"kind": "pairing_distance", "t1": repr(r["t1"]), "t2": repr(r["t2"]), "config": cfg, "result": repr(x)},
                                     "distance %r used for pairing %s with %s is outside [0, 1]" % (x, repr(r["t1"]), repr(r["t2"])))
                if d is not None and not cfg.get("ignore_order") and set(cfg) <= MODEL_CFG_KEYS and in_universe(t1) and in_universe(t2):
                    from harness import diffcommon as D
                    try:
                        if D.in_model_guard(t1, t2) and not has_crash_key(t1) and not has_crash_key(t2):
                            expr, exp, g = diff_model_case(a, b, cfg, d.get("deep_distance", None))   # the very objects of the real run (set iteration order)
                            dm_cases.append((expr, exp, {"t1": repr(t1), "t2": repr(t2), "config": cfg, "impl": repr(d.get("deep_distance", None))}))
                            ctx.count("diff_model:" + ("zip" if cfg.get("zip_ordered_iterables") else "default") + ("/inside_guard" if g else "/outside_guard"))
                            x = d.get("deep_distance", None)
                            if g and x is not None and x > 1:
                                ctx.break_("correspondence", {"name": "deep_distance_range_ordered", "t1": repr(t1), "t2": repr(t2),
                                                              "meaning": "inside the type-change guard but deep_distance = %r" % (x,)})
                        else:
                            ctx.count("diff_model:outside_model_guard")
                    except (TypeError, AssertionError, KeyError):
                        ctx.count("diff_model:not_expressible")
                if len(ctx.samples) < 4 and d is not None and nt and how.startswith("edit"):
                    ctx.sample({"t1": repr(t1)[:200], "t2": repr(t2)[:200], "config": cfg, "deep_distance": repr(d.get("deep_distance"))})
    finally:
        ip.uninstall()
        rec.uninstall()
    ctx.coq_cases("pairdist", IO_HEADER, np_cases, shard=40, label="pairing_distance_from_ignore_order_diff_model")
    ctx.coq_cases("rough", HEADER, cases, shard=150, label="rough_distance")
    ctx.coq_cases("sdelta", HEADER, sd_cases, shard=150, label="delta_as_positions")
    ctx.coq_cases("diffmodel", HEADER + "\nFrom DD Require Import Diff.Tree Diff.DiffModel Diff.DiffShow Dist.DistDiffModel.",
                  dm_cases, shard=120, label="distance_from_diff_model")


# ---------------------------------------------------------------------------
# (i) ignore_order=True: deep_distance from the inputs and the recorded pairings alone
#     (DiffIO/DiffIOModel.v diff_io + Dist/DistIOModel.v delta view), the hypotheses of
#     C19_deep_distance_range_ignore_order observed on the real runs
# ---------------------------------------------------------------------------

IO_HEADER = ("From Coq Require Import PrimFloat.\nFrom DD Require Import Base.PyStr Base.Value Diff.Tree Diff.DiffModel Diff.DiffShow "
             "Hash.HashModel DiffIO.DiffIOModel DiffIO.DiffIOShow Dist.DistModel Dist.DistShow Dist.DistIOModel Dist.DistIOShow.\n"
             "Local Open Scope Z_scope.")

IO_CONFIGS = [dict(), dict(cutoff_distance_for_pairs=0.6), dict(cutoff_distance_for_pairs=1.0, cutoff_intersection_for_pairs=1),
              dict(cutoff_intersection_for_pairs=1), dict(max_passes=0), dict(cutoff_distance_for_pairs=0.1)]


def dlen(v):
    """ilen for a delta-view entry: additionally a class (old_type / new_type) counts 1"""
    if isinstance(v, Mapping):
        return sum(dlen(x) for k, x in v.items() if not (isinstance(k, str) and (k.startswith("_") or k in ("deep_distance", "new_path"))))
    if isinstance(v, NUMBERS) or isinstance(v, (str, bytes)):
        return 1
    if isinstance(v, Iterable):
        return sum(dlen(x) for x in v)
    return 1 if isinstance(v, type) else 0


def delta_ops(delta):
    """independent re-statement of _get_item_length on a delta-view dict: the two {path: {index: item}} reports are
    counted once per object (id) and path, keys starting with '_' are skipped"""
    n = 0
    for key, sub in delta.items():
        if key in ("iterable_items_added_at_indexes", "iterable_items_removed_at_indexes"):
            for _path, m in sub.items():
                seen = set()
                for _k, v in m.items():
                    if id(v) not in seen:
                        seen.add(id(v))
                        n += dlen(v)
        elif isinstance(key, str) and (key.startswith("_") or key in ("deep_distance", "new_path")):
            continue
        else:
            n += dlen(sub)
    return n


def items_unrepeated(v, rep):
    """no list / tuple inside v holds two items that DeepHash (with the run's ignore_repetition) identifies:
    the third disjunct of io_guard, restated on the canonical nested set / multiset form of C05"""
    from harness.props import c05
    if isinstance(v, (list, tuple)):
        cs = [c05.spec_canon(x, rep) for x in v]
        return len(set(cs)) == len(cs) and all(items_unrepeated(x, rep) for x in v)
    if isinstance(v, dict):
        return all(items_unrepeated(x, rep) for x in v.values())
    return True


def pairs_unrepeated(recs, rep):
    """pairs_unrep restated on the recorded levels: every pair points at a removed item that DeepHash identifies with no
    other item of that level's t1 side"""
    from harness.props import c05
    for r in recs:
        items = list(r["level"].t1)
        canon = [c05.spec_canon(x, rep) for x in items]
        for a in r["added"]:
            if a in r["pairs"]:
                i = r["t1_first"][r["pairs"][a]]
                if canon.count(canon[i]) != 1:
                    return False
    return True


def has_repeated_items(v):
    return not items_unrepeated(v, True)


def type_change_table(tree):
    """(Coq table of new_type(old) != new per type change, the type-change guard recomputed in Python)"""
    inc, guard = [], True
    for lv in tree.get("type_changes", []) or []:
        a, b = lv.t1, lv.t2
        try:
            include = bool(type(b)(a) != b)
        except Exception:
            include = True
        inc.append("(%s, %s, %s)" % (values.to_coq(a), values.to_coq(b), core.coq_bool(include)))
        guard = guard and (2 + (ilen(b) if include else 0) <= icount(a) + icount(b))
    return inc, guard


def io_model_case(a, b, cfg, rec19):
    """one run of DeepDiff(a, b, ignore_order=True, get_deep_distance=True, **cfg) with the pairings recorded by the
    C05 recorder -> (coq expr, expected, info).  None when the run is outside the model."""
    from deepdiff import DeepDiff
    from harness import diffcommon as D
    from harness.props import c05
    rep = bool(cfg.get("report_repetition", False))
    rec19.records.clear()
    with c05.Recording() as rec:
        tree = DeepDiff(a, b, view="tree", get_deep_distance=True, **cfg)
        tbl = c05.pairs_table(rec)
        valid = all(c05.pairs_valid(x) for x in rec)
        unrep = pairs_unrepeated(rec, rep)
    dist = tree.get("deep_distance", None)
    m = icount(a) + icount(b)
    roots = [r for r in rec19.records if r.get("root") and "delta" in r]
    if roots:
        n_impl = delta_ops(roots[-1]["delta"])
    else:
        n_impl = 0 if not dist else int(round(dist * m))
    scalar_root = isinstance(a, SCALAR_TYPES) and isinstance(b, SCALAR_TYPES)
    inc, tguard = type_change_table(tree)
    uniq = items_unrepeated(a, rep)
    paired = sum(len(ji) for _p, ji, _x, _y in tbl)
    cut = coq_float(float(cfg.get("cutoff_distance_for_pairs", 0.3)))
    expr = "dist_io_case false %s %s %s [%s] %s %s %s" % (
        D.coq_cfg(False, 0.33, True), core.coq_bool(rep), c05.coq_pairs_table(tbl), "; ".join(inc), cut, values.to_coq(a), values.to_coq(b))
    exp = [obs_rough(dist), n_impl, icount(a), icount(b), bool(tguard), bool(uniq), True, bool(unrep)]
    inside = bool(tguard) and (not rep or unrep)       # C19_deep_distance_range_ignore_order_default / _pairs
    return expr, exp, {"dist": dist, "paired": paired, "levels": len(tbl), "valid": valid, "inside": inside, "rep": rep, "unrep": unrep, "uniq": uniq, "implied": not ((uniq or not paired) and not unrep),
                       "scalar_root": scalar_root, "n": n_impl, "m": m}


def io_pairs(ctx):
    """pairs for the ignore-order stream: C19's own pairs, the ignore-order pairs of C05 (near-duplicates, re-ordered
    and edited containers, repetition), and families with an item repeated k times on one side (K28 and its neighbours)"""
    from harness.props import c05
    rng = ctx.rng
    out = []
    hand = [([[1]] * 8, [[1, 2, 3, 4]]), ([[1, 2], 7], [[1, 2, 3], 7, 7]), ([[1, 2], 7, 7], [[1, 2, 3], 7]), ([[1, 2], [5], [5], 7, 7, 7], [[1, 2, 3], 7, 8]), ([[1]] * 3, [[1, 2]]), ([[1, 2]] * 2, [[1, 2, 3]] * 3),
            ([1, 1, 2], [1, 3]), ([1, 2, 2, 3], [2, 3, 3, 4]), ([[1, 2], [1, 2], [3]], [[3, 4], [1, 2]]), ([{"a": 1}] * 3, [{"a": 1, "b": 2}]),
            ([(1, 2)] * 4, [(1, 2, 3), (1, 2)]), ([[], [], [1]], [[1, 1]]), ([["a", "b"]] * 5, [["a", "b", "c", "d"], "x"]),
            ({"k": [[1]] * 6}, {"k": [[1, 2, 3]]}), ([[[1]] * 4, 5], [[[1, 2, 3]], 5, 5])]
    for a, b in hand:
        out.append((copy.deepcopy(a), copy.deepcopy(b), "io_hand"))
        out.append((copy.deepcopy(b), copy.deepcopy(a), "io_hand"))
    for a, b in c05.FIXED_PAIRS[:(None if ctx.thorough else 12)]:
        out.append((copy.deepcopy(a), copy.deepcopy(b), "c05_fixed"))
    for _ in range(500 if ctx.thorough else 60):
        a, b, _kinds = c05.gen_pair(rng, alias=False, depth=rng.choice([2, 3]))
        out.append((a, b, "c05_gen"))
    for _ in range(250 if ctx.thorough else 40):
        x = values.gen_value(rng, depth=rng.choice([1, 1, 2]), width=rng.choice([1, 2, 3]), kinds="LTD")
        y, _k = values.edit(rng, copy.deepcopy(x))
        k = rng.randint(2, 9)
        a = ([x] * k if rng.random() < 0.5 else [copy.deepcopy(x) for _i in range(k)]) + ([values.gen_atom(rng)] if rng.random() < 0.3 else [])
        b = [y] * rng.randint(1, 2) + ([values.gen_atom(rng)] if rng.random() < 0.3 else [])
        if rng.random() < 0.5:
            a, b = b, a
        out.append((a, b, "repeated_item"))
    return out


def io_model_part(ctx):
    import random
    import types
    from harness import diffcommon as D
    from harness.props import c05
    rng = random.Random(ctx.seed ^ 0x1019)           # own stream: the other parts keep their inputs
    sub = types.SimpleNamespace(rng=rng, thorough=ctx.thorough)
    rec19 = Recorder()
    rec19.install()
    cases = []
    try:
        pairs = [(t1, t2, how) for (t1, t2, how) in gen_pairs(sub) if how.split(":")[0] in
                 ("hand", "edit", "multi_edit_list", "shuffled_containers", "universe", "unrelated")]
        rng.shuffle(pairs)
        pairs = io_pairs(sub) + pairs[:(1500 if ctx.thorough else 110)]
        for i, (t1, t2, how) in enumerate(pairs):
            if how in ("c05_gen", "c05_fixed", "edit", "multi_edit_list", "shuffled_containers") or how.startswith("edit"):
                a, _sa = maybe_share(rng, t1, 0.25)
                b, _sb = maybe_share(rng, t2, 0.25)
                pairs[i] = (a, b, how)
        for (t1, t2, how) in pairs:
            try:
                ok = in_universe(t1) and in_universe(t2) and D.in_model_guard(t1, t2) and not values.contains_alias(t1, t2) \
                    and not c05.has_tag_like(t1, t2) and not has_crash_key(t1) and not has_crash_key(t2)
            except Exception:
                ok = False
            if not ok:
                ctx.count("io_model:outside_model_guard")
                continue
            base = rng.sample(IO_CONFIGS, 2 if ctx.thorough else 1) if how not in ("io_hand", "repeated_item") else [IO_CONFIGS[1], IO_CONFIGS[2]]
            for kn in base:
                for rep in (False, True):
                    cfg = dict(kn, ignore_order=True, report_repetition=rep)
                    a, b = copy.deepcopy(t1), copy.deepcopy(t2)
                    d = oracle_pair(ctx, a, b, cfg, how, texts=(text_of(t1), text_of(t2)))
                    ctx.seen(("io_model", text_of(t1), text_of(t2), repr(sorted(cfg.items()))), nontrivial=not same_typed(t1, t2))
                    if has_sharing(t1) or has_sharing(t2):
                        ctx.count("io_model_inputs:with_shared_object")
                    if d is None:
                        continue
                    try:
                        a, b = copy.deepcopy(t1), copy.deepcopy(t2)
                        expr, exp, info = io_model_case(a, b, cfg, rec19)
                    except (TypeError, AssertionError, KeyError):
                        ctx.count("io_model:not_expressible")
                        continue
                    tag = {"t1": repr(t1), "t2": repr(t2), "config": cfg, "impl": repr(info["dist"]), "how": how}
                    if not info["valid"]:
                        ctx.break_("correspondence", dict(tag, what="recorded pairing is not a symmetric partial injection between added and removed hashes"))
                    cases.append((expr, exp, tag))
                    ctx.count("io_model:" + ("rep" if rep else "norep") + ("/with_pairs" if info["paired"] else "/no_pairs")
                              + ("/inside_guard" if info["inside"] else "/outside_guard"))
                    if not info["implied"]:
                        ctx.break_("correspondence", dict(tag, what="io_guard holds (no repeated items / nothing paired) but pairs_unrep does not"))
                    if rep and info["paired"] and info["unrep"] and not info["uniq"]:
                        ctx.count("io_model:rep/pairs_unrep_holds_where_uniq_items_fails")
                    ctx.count("io_model_how:" + how)
                    x = info["dist"]
                    if info["inside"] and not info["scalar_root"] and x is not None and x > 1:
                        ctx.break_("correspondence", dict(tag, name="deep_distance_io_range",
                                                          meaning="inside io_guard and the type-change guard but deep_distance = %r" % (x,)))
                    if len(ctx.samples) < 6 and info["paired"] and rep:
                        ctx.sample({"t1": repr(t1)[:200], "t2": repr(t2)[:200], "config": cfg, "deep_distance": repr(x), "ops": info["n"], "lengths": info["m"]})
    finally:
        rec19.uninstall()
    ctx.coq_cases("iomodel", IO_HEADER, cases, shard=40, label="distance_from_ignore_order_diff_model")


# ---------------------------------------------------------------------------
# (h) outside the model, oracle only: use_log_scale, complex numbers, group_by
# ---------------------------------------------------------------------------

def check_log_result(ctx, a, b, mx, res):
    case = {"kind": "numbers_log", "a": repr(a), "b": repr(b), "max_": repr(mx)}
    if res[0] == "exc":
        case["exception"] = type(res[1]).__name__
        ctx.fail(case, "_get_numbers_distance(%r, %r, max_=%r, use_log_scale=True) raises %r" % (a, b, mx, res[1]))
        return
    r = res[1]
    case["result"] = repr(r)
    if isinstance(r, bool) or not isinstance(r, (int, float)) or (isinstance(r, float) and math.isnan(r)) or not (0 <= r <= mx):
        ctx.fail(case, "_get_numbers_distance(%r, %r, max_=%r, use_log_scale=True) = %r is outside [0, max_]" % (a, b, mx, r))
    elif (r == 0) != (a == b):
        ctx.fail(case, "_get_numbers_distance(%r, %r, max_=%r, use_log_scale=True) = %r: zero exactly for equal values fails" % (a, b, mx, r))


def extras_part(ctx):
    from deepdiff.distance import _get_numbers_distance
    grid = [0, 1, -1, 2, 3, 1000, -1000, 0.5, 1.5, 1e6, True, Decimal("3")]
    for a in grid:
        for b in grid:
            for mx in (1.0, 0.3):
                check_log_result(ctx, a, b, mx, call(lambda: _get_numbers_distance(a, b, mx, use_log_scale=True)))
                ctx.seen(("log", repr(a), repr(b), mx), nontrivial=a != b)
            if ctx.thorough or (a, b) in ((1, 1000), (1, 2), (2, 3), (0, 1), (1, 1), (1.5, 1.5), (1000, -1000), (0.5, 1.5)):
                oracle_pair(ctx, a, b, {"use_log_scale": True}, "log_scale")
                ctx.seen(("log_dd", repr(a), repr(b)), nontrivial=a != b)
    ctx.count("extras:log_scale_pairs", len(grid) ** 2 * 2)
    for a, b in [(1 + 2j, 2), (2j, 2j), (2j, 1 + 2j), (3, 1j)]:
        check_number_result(ctx, "_get_numbers_distance", a, b, 1.0, call(_get_numbers_distance, a, b, 1.0), a == b)
        oracle_pair(ctx, a, b, {}, "complex")
        ctx.seen(("complex", repr(a), repr(b)), nontrivial=a != b)
    ctx.count("extras:complex_pairs", 4)
    for a, b in [([{"id": 1, "v": 1}], [{"id": 1, "v": 2}]), ([{"id": 1, "v": 1}, {"id": 2, "v": [1]}], [{"id": 1, "v": 1}, {"id": 2, "v": [2]}])]:
        oracle_pair(ctx, a, b, {"group_by": "id"}, "group_by")
        ctx.seen(("group_by", repr(a), repr(b)), nontrivial=True)
    ctx.count("extras:group_by_pairs", 2)


# ---------------------------------------------------------------------------
# known findings: narrow matchers
# ---------------------------------------------------------------------------

def _ev(s):
    ns = {"datetime": datetime, "Decimal": Decimal, "inf": math.inf, "nan": math.nan,
          "unpickle": lambda h: pickle.loads(bytes.fromhex(h))}
    return eval(s, ns)


def _f(x):
    return float(x)


def _reference_run(case):
    """Re-run the failing call and recompute its distance independently of distance.py / DeepHash:
    (delta-view dict the distance was computed from, operations by delta_ops, len1 + len2 by icount, the tree-view
    result).  A root call (deep_distance) counts the delta before the add/remove rewrite (captured when the distance is
    computed), a pairing call (pairing_distance) that of a nested DeepDiff(view='delta')."""
    from deepdiff import DeepDiff
    t1, t2 = _ev(case["t1"]), _ev(case["t2"])
    cfg = {k: v for k, v in case.get("config", {}).items() if k != "view"}
    exact = True
    if case.get("kind") == "pairing_distance":
        delta = DeepDiff(copy.deepcopy(t1), copy.deepcopy(t2), **cfg)._to_delta_dict(report_repetition_required=False)
    else:
        rec = Recorder()
        rec.install()
        try:
            tree = DeepDiff(copy.deepcopy(t1), copy.deepcopy(t2), get_deep_distance=True, view="tree", **cfg)
        finally:
            rec.uninstall()
        roots = [r for r in rec.records if r.get("root") and "delta" in r]
        if roots:
            delta = roots[-1]["delta"]
        else:
            delta, exact = DeepDiff(copy.deepcopy(t1), copy.deepcopy(t2), **cfg)._to_delta_dict(report_repetition_required=False), False
        return delta, delta_ops(delta), icount(t1) + icount(t2), tree, exact
    tree = DeepDiff(copy.deepcopy(t1), copy.deepcopy(t2), view="tree", **cfg)
    return delta, delta_ops(delta), icount(t1) + icount(t2), tree, exact


def m_type_change_excess(case):
    """the failing clause is the RANGE (deep_distance > 1), the reported value is exactly operations / (len1 + len2) as
    recomputed independently (so a regression of the operation count or of the item lengths is not attributed here),
    and the excess over 1 is paid for by type_changes entries whose two values are too small for the
    2 (old_type, new_type) + len(new_value) operations they are charged."""
    if case.get("kind") not in ("deep_distance", "pairing_distance") or "exception" in case:
        return False
    dist = _ev(case.get("deep_distance", case.get("result")))
    if dist is None or isinstance(dist, bool) or not isinstance(dist, (int, float)) or not dist > 1:
        return False
    delta, ops, m, tree, exact = _reference_run(case)
    if exact and dist != ops / m:
        return False
    surplus, bad = 0, 0
    for lv in tree.get("type_changes", []) or []:
        e = delta.get("type_changes", {}).get(lv.path(force="fake"))
        if e is None:
            continue
        over = dlen(e) - (icount(lv.t1) + icount(lv.t2))
        if over > 0:
            surplus += over
            bad += 1
    # without the surplus of those entries the ratio is within range
    return bad > 0 and ops - surplus <= m


def _num_case(case):
    """the case as a call of a number distance: either it is one, or it is DeepDiff(x, y, get_deep_distance=True)
    on two scalars (the root short cut calls get_numeric_types_distance with max_ = cutoff_distance_for_pairs)"""
    if case.get("kind") == "numbers":
        return case
    if case.get("kind") != "deep_distance":
        return None
    try:
        t1, t2 = _ev(case["t1"]), _ev(case["t2"])
    except Exception:
        return None
    if not (isinstance(t1, SCALAR_TYPES) and isinstance(t2, SCALAR_TYPES)):
        return None
    mx = float(case.get("config", {}).get("cutoff_distance_for_pairs", 0.3))
    sub = {"kind": "numbers", "a": case["t1"], "b": case["t2"], "max_": repr(mx)}
    if "exception" in case:
        sub["exception"] = case["exception"]
    else:
        dist = _ev(case.get("deep_distance", "None"))
        sub["result"] = "0" if dist is None else repr(dist)
    return sub


def _as_floats(a, b):
    def cv(x):
        if isinstance(x, datetime.datetime):
            return x.timestamp()
        if isinstance(x, datetime.date):
            return float(x.toordinal())
        if isinstance(x, datetime.timedelta):
            return x.total_seconds()
        if isinstance(x, datetime.time):
            return float((x.hour * 60 + x.minute) * 60 + x.second + (x.microsecond / 1000000 if x.microsecond else 0))
        return float(x)
    return cv(a), cv(b)


def _zero_case(case):
    c = _num_case(case)
    if c is None or "exception" in c or _ev(c["result"]) != 0:
        return None
    return c


def m_zero_overflow(case):
    """distance 0 for different values because num1 + num2 (or the divisor) overflows to inf"""
    c = _zero_case(case)
    if c is None:
        return False
    a, b, mx = _ev(c["a"]), _ev(c["b"]), _ev(c["max_"])
    if isinstance(a, datetime.datetime) != isinstance(b, datetime.datetime):
        return False
    try:
        x, y = _as_floats(a, b)
    except Exception:
        return False
    return x != y and mx != 0 and math.isinf((x + y) / mx) and not math.isinf(x) and not math.isinf(y)


def m_zero_collapse(case):
    """distance 0 for different values because both convert to the same float (float(int), float(Decimal),
    datetime.timestamp(), timedelta.total_seconds())"""
    c = _zero_case(case)
    if c is None:
        return False
    a, b = _ev(c["a"]), _ev(c["b"])
    if isinstance(a, datetime.time) or isinstance(b, datetime.time):
        return False
    if isinstance(a, datetime.date) and isinstance(b, datetime.date) and isinstance(a, datetime.datetime) != isinstance(b, datetime.datetime):
        return False
    try:
        x, y = _as_floats(a, b)
    except Exception:
        return False
    return a != b and x == y


def m_zero_underflow(case):
    """distance 0 for different finite values because the quotient (x - y) / ((x + y) / max_) underflows"""
    c = _zero_case(case)
    if c is None:
        return False
    a, b, mx = _ev(c["a"]), _ev(c["b"]), _ev(c["max_"])
    try:
        x, y = _as_floats(a, b)
    except Exception:
        return False
    if mx == 0 or any(math.isinf(q) or math.isnan(q) for q in (x, y)):
        return False
    div = (x + y) / mx
    if x == y or math.isinf(div) or div == 0 or x - y == 0 or math.isinf(x - y):
        return False
    q = Fraction(x - y) / Fraction(div)
    return abs(q) <= Fraction(1, 2 ** 1075)


def m_time_tzinfo(case):
    """two datetime.time values with the same hour/minute/second/microsecond that are not equal (different tzinfo, or
    naive vs aware): time_to_seconds ignores tzinfo"""
    c = _zero_case(case)
    if c is None:
        return False
    a, b = _ev(c["a"]), _ev(c["b"])
    return isinstance(a, datetime.time) and isinstance(b, datetime.time) and not scalar_equal(a, b) and \
        (a.hour, a.minute, a.second, a.microsecond) == (b.hour, b.minute, b.second, b.microsecond)


def m_date_vs_datetime(case):
    c = _zero_case(case)
    if c is None:
        return False
    a, b = _ev(c["a"]), _ev(c["b"])
    return isinstance(a, datetime.date) and isinstance(b, datetime.date) and \
        isinstance(a, datetime.datetime) != isinstance(b, datetime.datetime) and a.toordinal() == b.toordinal()


def m_overflow_error(case):
    c = _num_case(case)
    if c is None or c.get("exception") != "OverflowError":
        return False
    lim = 2 ** 1024 - 2 ** 970
    return any(isinstance(q, int) and abs(q) >= lim for q in (_ev(c["a"]), _ev(c["b"])))


def m_zero_division(case):
    c = _num_case(case)
    if c is None or c.get("exception") != "ZeroDivisionError":
        return False
    return _ev(c["max_"]) == 0


def m_zero_for_nonempty(case):
    """non-empty default diff, distance 0/absent: every reported value has operation count 0 (None, empty container,
    container of such, dict whose keys are all skipped)"""
    if case.get("kind") != "deep_distance" or "exception" in case or "diff" not in case:
        return False
    from deepdiff import DeepDiff
    t1, t2 = _ev(case["t1"]), _ev(case["t2"])
    if isinstance(t1, SCALAR_TYPES) and isinstance(t2, SCALAR_TYPES):
        return False
    d = DeepDiff(t1, t2)
    rv = reported_values(d)
    if not rv or any(cat == "type_changes" for cat, _o, _n in rv):
        return False
    # text view lists added dict keys / set items without values: take them from the tree
    tree = DeepDiff(t1, t2, view="tree")
    vals = []
    for cat, levels in tree.items():
        if cat == "deep_distance":
            continue
        for lv in levels:
            from deepdiff.helper import notpresent
            if cat.endswith("removed"):
                vals.append(lv.t1)
            else:
                vals.append(lv.t2)
    return all(ilen(v) == 0 for v in vals)


def m_equal_numbers_of_different_type(case):
    """root values that are == but of different number types: the diff reports type_changes, the numeric short cut says 0"""
    if case.get("kind") != "deep_distance" or "exception" in case or "diff" not in case:
        return False
    t1, t2 = _ev(case["t1"]), _ev(case["t2"])
    num = (bool, int, float, Decimal)
    return isinstance(t1, num) and isinstance(t2, num) and type(t1) is not type(t2) and t1 == t2


def m_opcodes_hide_operations(case):
    """ordered lists with more than one difflib change: the delta carries the insertions / deletions in
    '_iterable_opcodes', a key the operation count skips, so they cost nothing"""
    if case.get("kind") != "deep_distance" or "exception" in case or "diff" not in case:
        return False
    from deepdiff import DeepDiff
    t1, t2 = _ev(case["t1"]), _ev(case["t2"])
    rec = Recorder()
    rec.install()
    try:
        d = DeepDiff(t1, t2, get_deep_distance=True)
    finally:
        rec.uninstall()
    roots = [r for r in rec.records if r.get("root") and "delta" in r]
    # the delta as the distance saw it (the result tree is rewritten afterwards: add + remove -> value change)
    delta = roots[-1]["delta"] if roots else d._to_delta_dict(report_repetition_required=False)
    if not delta.get("_iterable_opcodes"):
        return False
    return ilen({k: v for k, v in delta.items() if not k.startswith("_")}) == 0


def _log_distance(a, b):
    """the raw logarithmic distance (K25 predicts exactly this value, unclamped)"""
    fa, fb = float(a), float(b)
    return abs(math.copysign(math.log(abs(fa) + 1e-10), fa) - math.copysign(math.log(abs(fb) + 1e-10), fb))


def m_log_scale_unclamped(case):
    """use_log_scale=True: the logarithmic distance is returned as it is, not clamped to max_"""
    if case.get("kind") == "numbers_log":
        if "exception" in case:
            return False
        r, mx = _ev(case["result"]), _ev(case["max_"])
        try:
            pred = _log_distance(_ev(case["a"]), _ev(case["b"]))
        except Exception:
            return False
        return isinstance(r, float) and r > mx and r == pred
    if case.get("kind") == "deep_distance" and case.get("config", {}).get("use_log_scale") and "exception" not in case:
        t1, t2 = _ev(case["t1"]), _ev(case["t2"])
        dist = _ev(case.get("deep_distance", "None"))
        num = (bool, int, float, Decimal)
        if not (isinstance(t1, num) and isinstance(t2, num) and dist is not None and dist > 1):
            return False
        try:
            return dist == _log_distance(t1, t2)
        except Exception:
            return False
    return False


def m_complex(case):
    if case.get("exception") != "TypeError":
        return False
    if case.get("kind") == "numbers":
        return any(isinstance(_ev(case[k]), complex) for k in ("a", "b"))
    if case.get("kind") == "deep_distance":
        return any(isinstance(_ev(case[k]), complex) for k in ("t1", "t2"))
    return False


def m_group_by(case):
    return case.get("kind") == "deep_distance" and case.get("exception") == "ValueError" and \
        case.get("config", {}).get("group_by") is not None


def m_item_length_crash(case):
    if case.get("kind") != "deep_distance" or case.get("exception") != "AttributeError":
        return False
    return has_crash_key(_ev(case["t1"])) or has_crash_key(_ev(case["t2"]))


def m_numpy_zero(case):
    """numpy variant: result[a == b] = 0 compares numerator with divisor: distance 0 whenever x - y == (x + y) / max_;
    overflow of x + y, x - y or of the divisor gives 0 or nan"""
    if case.get("kind") != "numpy":
        return False
    a, b, mx, r = _f(_ev(case["a"])), _f(_ev(case["b"])), _f(_ev(case["max_"])), _ev(case["result"])
    if a == b or math.isinf(a) or math.isinf(b):
        return False
    import numpy as np
    with np.errstate(all="ignore"):
        x, y = np.float64(a), np.float64(b)
        div = (x + y) / np.float64(mx)
        num = x - y
        if math.isnan(r):
            return bool(np.isinf(div) or np.isinf(num))
        if r != 0:
            return False
        return bool(num == div) or bool(np.isinf(div)) or \
            (div != 0 and not np.isinf(num) and abs(Fraction(float(num)) / Fraction(float(div))) <= Fraction(1, 2 ** 1075))


def m_repeated_pair_replicated(case):
    """deep_distance > 1 with ignore_order + report_repetition on a t1 that holds a repeated item, while the same inputs
    are in range (up to K13) without report_repetition and when nothing is paired: the excess comes from diffing a
    paired item once per occurrence of the removed item (C19_deep_distance_ignore_order_rep_refuted)."""
    if case.get("kind") not in ("deep_distance", "pairing_distance") or "exception" in case:
        return False
    cfg = {k: v for k, v in case.get("config", {}).items() if k != "view"}
    if not (cfg.get("ignore_order") and cfg.get("report_repetition")):
        return False
    from deepdiff import DeepDiff
    dist = _ev(case.get("deep_distance", case.get("result")))
    if dist is None or not dist > 1:
        return False
    t1, t2 = _ev(case["t1"]), _ev(case["t2"])
    if not has_repeated_items(t1):
        return False
    _delta, ops, m, _tree, exact = _reference_run(case)
    if exact and dist != ops / m:          # the value is the one the mechanism predicts: replicated operations over the true lengths
        return False
    for other in (dict(cfg, report_repetition=False), dict(cfg, max_passes=0)):
        d2 = DeepDiff(copy.deepcopy(t1), copy.deepcopy(t2), get_deep_distance=True, **other).get("deep_distance", 0)
        if d2 > 1 and not m_type_change_excess({"kind": "deep_distance", "t1": case["t1"], "t2": case["t2"], "config": other,
                                                "deep_distance": repr(d2)}):
            return False
    return True


def _contains_instance(v, cls):
    if isinstance(v, cls):
        return True
    if isinstance(v, dict):
        return any(_contains_instance(k, cls) or _contains_instance(x, cls) for k, x in v.items())
    if isinstance(v, (list, tuple, set, frozenset)):
        return any(_contains_instance(x, cls) for x in v)
    return False


def m_timedelta_hash_type_error(case):
    """the failing clause is 'raises' with TypeError, the diff itself does not raise (checked by the oracle before it
    reports), a timedelta occurs in the inputs, a number-normalising option is on, and DeepHash of a timedelta under
    that option raises the TypeError (the item-length lookup of the distance hashes t1 / t2)"""
    if case.get("kind") != "deep_distance" or case.get("exception") != "TypeError":
        return False
    cfg = case.get("config", {})
    opts = {k: cfg[k] for k in ("ignore_numeric_type_changes", "significant_digits") if cfg.get(k) not in (None, False)}
    if not opts:
        return False
    t1, t2 = _ev(case["t1"]), _ev(case["t2"])
    if not (_contains_instance(t1, datetime.timedelta) or _contains_instance(t2, datetime.timedelta)):
        return False
    from deepdiff import DeepHash
    try:
        DeepHash(datetime.timedelta(days=1), **opts)
    except TypeError:
        return True
    return False


MATCHERS = {
    "C19-K13-type-change-excess": m_type_change_excess,
    "C19-K14-zero-by-overflow": m_zero_overflow,
    "C19-K14b-zero-by-float-collapse": m_zero_collapse,
    "C19-K14c-zero-by-underflow": m_zero_underflow,
    "C19-K15-overflow-error": m_overflow_error,
    "C19-K17-zero-division-max-0": m_zero_division,
    "C19-K18-zero-for-nonempty-diff": m_zero_for_nonempty,
    "C19-K19b-time-tzinfo-ignored": m_time_tzinfo,
    "C19-K20-date-vs-datetime": m_date_vs_datetime,
    "C19-K21-item-length-crash-on-dedupe-key-name": m_item_length_crash,
    "C19-K22-numpy-zero": m_numpy_zero,
    "C19-K23-zero-for-equal-numbers-of-different-type": m_equal_numbers_of_different_type,
    "C19-K24-opcodes-hide-operations": m_opcodes_hide_operations,
    "C19-K25-log-scale-unclamped": m_log_scale_unclamped,
    "C19-K26-complex-type-error": m_complex,
    "C19-K27-group-by-value-error": m_group_by,
    "C19-K28-repeated-pair-replicated": m_repeated_pair_replicated,
    "C19-K29-timedelta-hash-type-error": m_timedelta_hash_type_error,
}


# ---------------------------------------------------------------------------
# refuted witnesses of Properties/C19.v replayed on the implementation
# ---------------------------------------------------------------------------

def _np_witness():
    import numpy as np
    from deepdiff.distance import _get_numpy_array_distance
    with np.errstate(all="ignore"):
        z = float(_get_numpy_array_distance(np.array([5.0]), np.array([0.0]), 1.0)[0])
        n = float(_get_numpy_array_distance(np.array([float.fromhex("0x1.fffffffffffffp+1022")]),
                                            np.array([-float.fromhex("0x1.fffffffffffffp+1023")]), 0.25)[0])
    return z == 0 and math.isnan(n)


def witnesses(ctx):
    from deepdiff import DeepDiff
    from deepdiff.distance import _get_numbers_distance, get_numeric_types_distance
    W = [
        ("C19_rough_range_refuted", lambda: DeepDiff(1, "", get_deep_distance=True).get("deep_distance") == 1.5),
        ("C19_rough_range_refuted (nested)", lambda: DeepDiff([None, None, None], ["", "", ""], get_deep_distance=True).get("deep_distance") == 1.125),
        ("C19_numbers_zero_iff_refuted (overflow)", lambda: _get_numbers_distance(1e308, 1.7e308, 1) == 0),
        ("C19_numbers_zero_iff_refuted (float collapse)", lambda: _get_numbers_distance(2 ** 53, 2 ** 53 + 1, 1) == 0
         and _get_numbers_distance(10 ** 20, 10 ** 20 + 1, 1) == 0),
        ("K25 (log scale not clamped)", lambda: DeepDiff(1, 1000, use_log_scale=True, get_deep_distance=True).get("deep_distance") > 1),
        ("K26 (complex)", lambda: isinstance(call(_get_numbers_distance, 1 + 2j, 2, 1)[1], TypeError)),
        ("K27 (group_by)", lambda: isinstance(call(lambda: DeepDiff([{"id": 1, "v": 1}], [{"id": 1, "v": 2}], group_by="id",
                                                                  get_deep_distance=True))[1], ValueError)),
        ("C19_numbers_total_refuted (OverflowError)", lambda: isinstance(call(_get_numbers_distance, 10 ** 400, 1, 1)[1], OverflowError)),
        ("C19_numbers_total_refuted (ZeroDivisionError)", lambda: isinstance(call(_get_numbers_distance, 1, 2, 0.0)[1], ZeroDivisionError)),
        ("C19_positive_if_nonempty_refuted", lambda: DeepDiff([1], [1, None], get_deep_distance=True).get("deep_distance", 0) == 0
         and "iterable_item_added" in DeepDiff([1], [1, None])),
        ("K24 (operations hidden in _iterable_opcodes)", lambda: DeepDiff([1, 2, 3, 5, 6], [1, 2, 4, 3, 5, 6, 7], get_deep_distance=True).get("deep_distance", 0) == 0),
        ("K21 (AttributeError on a user key named like a delta key)",
         lambda: isinstance(call(lambda: DeepDiff({}, {"x": {"iterable_items_added_at_indexes": 5}}, get_deep_distance=True))[1], AttributeError)),
        ("C19_deep_distance_ignore_order_rep_refuted (K28)", lambda: DeepDiff([[1] for _ in range(8)], [[1, 2, 3, 4]], ignore_order=True,
            report_repetition=True, cutoff_distance_for_pairs=0.6, get_deep_distance=True).get("deep_distance") == 24 / 23
         and DeepDiff([[1] for _ in range(8)], [[1, 2, 3, 4]], ignore_order=True, cutoff_distance_for_pairs=0.6,
                      get_deep_distance=True).get("deep_distance") == 3 / 23),
        ("pairs_unrep_examples", lambda: DeepDiff([[1, 2], 7, 7], [[1, 2, 3], 7], ignore_order=True, report_repetition=True,
            cutoff_distance_for_pairs=0.6, get_deep_distance=True).get("deep_distance") == 2 / 12),
        ("deep_distance_io_guard_satisfiable", lambda: DeepDiff([[1, 2], 7], [[1, 2, 3], 7, 7], ignore_order=True, cutoff_distance_for_pairs=0.6,
            get_deep_distance=True).get("deep_distance") == 1 / 12
         and DeepDiff([[1, 2], 7], [[1, 2, 3], 7, 7], ignore_order=True, report_repetition=True, cutoff_distance_for_pairs=0.6,
                      get_deep_distance=True).get("deep_distance") == 2 / 12),
        ("C19_numbers_np_zero_refuted / _nan_refuted (K22)", lambda: _np_witness()),
        ("C19_scalars_zero_refuted_datetime_collapse (K14b)", lambda: get_numeric_types_distance(
            EPOCH_AWARE + datetime.timedelta(microseconds=9007199254740993), EPOCH_AWARE + datetime.timedelta(microseconds=9007199254740994), 1.0) == 0),
        ("C19_scalars_zero_refuted_date_vs_datetime (K20)", lambda: get_numeric_types_distance(
            datetime.datetime(2020, 1, 1, 5, 0), datetime.date(2020, 1, 1), 1.0) == 0),
        ("C19_deep_distance_positive_refuted_root_numbers (K23)", lambda: "type_changes" in DeepDiff(1, 1.0)
         and DeepDiff(1, 1.0, get_deep_distance=True).get("deep_distance", 0) == 0),
        ("K19b (tzinfo of a time ignored)", lambda: get_numeric_types_distance(
            datetime.time(12, tzinfo=datetime.timezone.utc), datetime.time(12, tzinfo=datetime.timezone(datetime.timedelta(hours=5, minutes=30))), 1.0) == 0),
    ]
    replayed = []
    for name, f in W:
        try:
            ok = bool(f())
        except Exception as e:  # noqa
            ok = False
        replayed.append({"witness": name, "implementation_still_exhibits": ok})
        if not ok:
            ctx.break_("correspondence", {"name": "refuted-witness", "witness": name,
                                          "meaning": "the implementation no longer shows the behaviour the _refuted theorem records: the model is out of date there"})
    ctx.note("refuted_witnesses_replayed", replayed)


# ---------------------------------------------------------------------------
# source tie (DESIGN.md section 4.5): the scalar kernels of distance.py regenerated from the current source
# (harness/translate/distance.py -> DDGen.DistGen) and proved equal to the hand model (coq/srctie/DistGenEquiv.v)
# ---------------------------------------------------------------------------

SOURCE_TIES = [{
    "name": "distance", "translator": "distance", "gen_module": "DistGen", "equiv": ["DistGenEquiv"],
    "needs": ["Dist.DistSrcPrims", "Dist.DistProofs", "Dist.DistSubProofs", "Dist.DistScalarProofs"],
    "sources": ["deepdiff/distance.py"],
    "fragment": "_get_numbers_distance, _numpy_div, _get_numpy_array_distance (element-wise), _get_datetime_distance, _get_date_distance, "
                "_get_timedelta_distance, _get_time_distance, TYPES_TO_DIST_FUNC, get_numeric_types_distance, DistanceMixin._get_rough_distance "
                "(use_log_scale=False; _get_item_length, __get_item_rough_length and __calculate_item_deephash are pinned, not translated)"}]

TIE_HEADER = (HEADER + "\nFrom DD Require Import Dist.DistSrcPrims.\nFrom DDGen Require Import DistGen.\n"
              "Definition nolog (_ _ : pynum) : PrimFloat.float := PrimFloat.zero.\n"
              "Definition nplog (x : PrimFloat.float) : PrimFloat.float := x.\n"
              "Definition thr01 : PrimFloat.float := 0x1.999999999999ap-4%float.")
TIE_ROUGH_FNS = ("_get_rough_distance", "_get_item_length", "__get_item_rough_length", "__calculate_item_deephash", "DistanceMixin")
TIE_STATE = {"scope": set()}


def _tie_diff(ctx, name, header, pairs, shard=400):
    """pairs: [(sx term over the REGENERATED definitions, sx term over the hand model)], evaluated inside Coq
    (vm_compute, scratch/srctie on the load path as DDGen); returns (indices on which the two differ, errors)"""
    from concurrent.futures import ThreadPoolExecutor
    if not pairs:
        return [], []
    ctx.ensure_built(header)
    gen_dir = os.path.join(ctx.scratch, "srctie")
    files = []
    for k in range(0, len(pairs), shard):
        fn = os.path.join(ctx.scratch, "tie_%s_%d.v" % (name, k // shard))
        with open(fn, "w") as f:
            f.write("From Coq Require Import List String ZArith NArith Bool.\nImport ListNotations.\nFrom DD Require Import Base.Sx.\n")
            f.write(header + "\nLocal Open Scope string_scope.\nDefinition cases : list (sx * sx) := [\n")
            f.write(";\n".join("(%s,\n %s)" % (g, h) for (g, h) in pairs[k:k + shard]))
            f.write("\n].\nEval vm_compute in run_cases cases.\n")
        files.append(fn)

    def one(fn):
        return core.sh(["coqc", "-Q", core.THEORIES, "DD", "-Q", gen_dir, "DDGen", fn], timeout=900, cwd=ctx.scratch)
    with ThreadPoolExecutor(max_workers=core.NCPU) as ex:
        results = list(ex.map(one, files))
    import re
    bad, errors = [], []
    for k, (rc, out) in enumerate(results):
        m = re.search(r'"BEGIN\n(.*)END"', out, re.S)
        if rc != 0 or not m:
            errors.append("%s shard %d: %s" % (name, k, out[-400:]))
            continue
        for line in m.group(1).splitlines():
            if line.strip():
                bad.append(k * shard + int(line.partition("\t")[0]))
    return sorted(bad), errors


def _tie_scope(rec):
    """which streams a broken tie concerns, when the generated model cannot be differenced: the function that holds the
    rejected line"""
    import ast
    import re
    scope = set()
    detail = str(rec.get("detail", ""))
    if any(w in detail for w in TIE_ROUGH_FNS):
        scope.add("rough")
    m = re.search(r"distance\.py:(\d+)", detail)
    try:
        tree = ast.parse(open(os.path.join(core.REPO, "deepdiff", "distance.py")).read())
        ln = int(m.group(1)) if m else None
        for node in ast.walk(tree):
            if isinstance(node, (ast.FunctionDef, ast.ClassDef)) and ln is not None and node.lineno <= ln <= (node.end_lineno or node.lineno):
                scope.add("rough" if node.name in TIE_ROUGH_FNS else "scalar")
    except Exception:  # noqa
        pass
    return scope or {"scalar", "rough"}


def _tie_rough_records(pairs, cfgs):
    """real calls of _get_rough_distance (root and pairing) for the differencing of g__get_rough_distance"""
    from deepdiff import DeepDiff
    rec = Recorder()
    rec.install()
    out = []
    if not rec.installed:
        return out
    try:
        for (t1, t2) in pairs:
            for cfg in cfgs:
                rec.records.clear()
                try:
                    DeepDiff(copy.deepcopy(t1), copy.deepcopy(t2), get_deep_distance=True, **cfg)
                except Exception:  # noqa
                    pass
                for r in list(rec.records):
                    if not (root_ok(r["t1"]) and root_ok(r["t2"])) or r.get("cutoff") is None or r.get("delta") is None:
                        continue
                    if r["result"][0] == "exc" and not isinstance(r["result"][1], ERRS):
                        continue
                    try:
                        parts = (coq_root(r["t1"]), coq_root(r["t2"]), coq_float(float(r["cutoff"])), coq_dv(r["delta"], _Ids()))
                    except (TypeError, AssertionError, ValueError):
                        continue
                    out.append({"t1": t1, "t2": t2, "cfg": cfg, "r": r, "parts": parts})
    finally:
        rec.uninstall()
    return out


def on_source_tie_break(ctx, name, rec):
    """The regenerated kernels are no longer proved equal to the hand model.  If they compiled: difference them against
    the hand model INSIDE Coq on grids of arguments, then judge every differing input like a generated case (the
    ordinary bit-exact correspondence hand model / implementation and the direct oracle).  Returns what was searched."""
    import random
    rng = random.Random(ctx.seed ^ 0x71E)          # own stream: the streams of run() are those of an unbroken run
    status = rec.get("status")
    if status in ("translator-rejected", "generated-model-does-not-compile"):
        TIE_STATE["scope"] = _tie_scope(rec)
        return {"differencing": "none: no generated model to evaluate (%s)" % status,
                "escalated_streams": sorted(TIE_STATE["scope"]), "detail": str(rec.get("detail", ""))[:300]}
    report = {"differencing": {}, "judged": {}, "errors": []}
    cap = 40
    # ---- _get_numbers_distance ------------------------------------------------------------------------------------
    grid = F_SPECIAL + I_SPECIAL + [True, False] + D_SPECIAL
    defs, names = [], {}

    def ref(x, is_max=False):
        key = ("m" if is_max else "g", repr(x), type(x).__name__)
        if key not in names:
            names[key] = "%s%d" % (key[0], len(names))
            defs.append("Definition %s := %s." % (names[key], coq_float(x) if is_max else coq_pynum(x)))
        return names[key]
    triples = [(a, b, mx) for a in grid for b in grid for mx in (1.0, 0.3)]
    triples += [(1e308, 1.7e308, 1.0), (2 ** 53, 2 ** 53 + 1, 1.0), (5e-324, 1e-323, 5e-324), (10 ** 400, 1, 1.0), (1, 2, 0.0),
                (2, 0.5, 1.0), (1e-320, 3e-320, 1e-300), (Decimal("9007199254740993"), 2 ** 53, 1.0), (10 ** 20, 10 ** 20 + 1, 1.0)]
    small = [0, 1, -1, 2, 3, 0.0, -0.0, 0.5, 1.5, -1.0, 5e-324, 1e308, MAXD, -MAXD, float("inf"), True, Decimal("1.5")]
    triples += [(a, b, mx) for a in small for b in small for mx in MAX_SPECIAL]
    for _ in range(1500):
        a = rng.choice(grid) if rng.random() < 0.3 else rand_double(rng)
        b = rng.choice(grid) if rng.random() < 0.3 else (a if rng.random() < 0.1 else rand_double(rng))
        triples.append((a, b, rng.choice(MAX_SPECIAL) if rng.random() < 0.7 else abs(rand_double(rng))))
    ingrid = set(id(x) for x in grid)
    terms = []
    for (a, b, mx) in triples:
        ta = ref(a) if id(a) in ingrid else coq_pynum(a)
        tb = ref(b) if id(b) in ingrid else coq_pynum(b)
        tm = ref(mx, True) if (mx in (1.0, 0.3) or any(mx is q for q in MAX_SPECIAL)) else coq_float(mx)
        terms.append((ta, tb, tm))
    hdr = TIE_HEADER + "\n" + "\n".join(defs)
    bad, err = _tie_diff(ctx, "numbers", hdr, [("sx_dres (g__get_numbers_distance nolog %s %s %s false thr01)" % t,
                                                "sx_dres (numbers_distance %s %s %s)" % t) for t in terms])
    report["errors"] += err
    report["differencing"]["_get_numbers_distance"] = {"arguments": len(triples), "differ": len(bad),
                                                       "first": [repr(triples[i]) for i in bad[:3]]}
    if bad:
        TIE_STATE["scope"].add("scalar")
        from deepdiff.distance import _get_numbers_distance
        cases = []
        for i in bad[:cap]:
            a, b, mx = triples[i]
            res = call(_get_numbers_distance, a, b, mx)
            exp = obs_exc(res[1]) if res[0] == "exc" else obs_dres(res[1])
            cases.append(("sx_dres (numbers_distance %s %s %s)" % (coq_pynum(a), coq_pynum(b), coq_float(mx)), exp,
                          {"a": repr(a), "b": repr(b), "max_": repr(mx), "found_by": "source tie: regenerated model differs from the hand model here"}))
            ctx.seen(("tie_num", repr(a), repr(b), mx), nontrivial=not (a == b))
            if mx >= 0 and not any(isinstance(q, float) and math.isnan(q) for q in (a, b)):
                check_number_result(ctx, "_get_numbers_distance", a, b, mx, res, a == b)
        mism = ctx.coq_cases("tie_numbers", HEADER, cases, label="source_tie:numbers_distance")
        report["judged"]["_get_numbers_distance"] = {"inputs": len(cases), "hand_model_vs_implementation_mismatches": len(mism)}
    # ---- _get_numpy_array_distance, element-wise ------------------------------------------------------------------------
    fl = [x for x in F_SPECIAL if not math.isnan(x)] + [5.0, 20.0, 13.0, -7.0, 7.0]
    trip = [(a, b, mx) for a in fl for b in fl for mx in (1.0, 0.3)] + [(rand_double(rng), rand_double(rng), rng.choice([1.0, 0.3, 0.5, 0.1])) for _ in range(600)]
    bad, err = _tie_diff(ctx, "numpy", TIE_HEADER, [
        ("sx_float (g__get_numpy_array_distance nplog %s %s %s false thr01)" % (coq_float(a), coq_float(b), coq_float(mx)),
         "sx_float (numbers_distance_np %s %s %s)" % (coq_float(a), coq_float(b), coq_float(mx))) for (a, b, mx) in trip])
    report["errors"] += err
    report["differencing"]["_get_numpy_array_distance"] = {"arguments": len(trip), "differ": len(bad), "first": [repr(trip[i]) for i in bad[:3]]}
    if bad:
        TIE_STATE["scope"].add("scalar")
        try:
            import numpy as np
            from deepdiff.distance import _get_numpy_array_distance
            cases = []
            with np.errstate(all="ignore"):
                for i in bad[:cap]:
                    a, b, mx = trip[i]
                    res = call(lambda: float(_get_numpy_array_distance(np.array([a]), np.array([b]), mx)[0]))
                    case = {"kind": "numpy", "a": repr(a), "b": repr(b), "max_": repr(mx), "found_by": "source tie"}
                    ctx.seen(("tie_np", a, b, mx), nontrivial=a != b)
                    if res[0] == "exc":
                        ctx.fail(dict(case, exception=type(res[1]).__name__), "_get_numpy_array_distance raises %r" % (res[1],))
                        continue
                    r = res[1]
                    cases.append(("sx_float (numbers_distance_np %s %s %s)" % (coq_float(a), coq_float(b), coq_float(mx)), obs_float(r), case))
                    if math.isinf(a) or math.isinf(b):
                        continue
                    if math.isnan(r) or not (0 <= r <= mx):
                        ctx.fail(dict(case, result=repr(r)), "_get_numpy_array_distance(%r, %r, max_=%r) = %r is outside [0, max_]" % (a, b, mx, r))
                    elif (r == 0) != (a == b):
                        ctx.fail(dict(case, result=repr(r)), "_get_numpy_array_distance(%r, %r, max_=%r) = %r: zero exactly for equal values fails" % (a, b, mx, r))
            mism = ctx.coq_cases("tie_numpy", HEADER, cases, label="source_tie:numpy_array_distance")
            report["judged"]["_get_numpy_array_distance"] = {"inputs": len(cases), "hand_model_vs_implementation_mismatches": len(mism)}
        except ImportError:
            pass
    # ---- get_numeric_types_distance ---------------------------------------------------------------------------------
    pool = gen_scalars(rng, 30)
    spairs = [(a, b, mx) for a in pool for b in pool for mx in (1.0,)] + [(a, b, 0.3) for a in pool[:45] for b in pool[:45] if type(a) is type(b)]
    bad, err = _tie_diff(ctx, "scalars", TIE_HEADER, [
        ("sx_odres (g_get_numeric_types_distance nolog %s %s %s false thr01)" % (coq_scalar(a), coq_scalar(b), coq_float(mx)),
         "sx_odres (numeric_types_distance %s %s %s)" % (coq_scalar(a), coq_scalar(b), coq_float(mx))) for (a, b, mx) in spairs], shard=300)
    report["errors"] += err
    report["differencing"]["get_numeric_types_distance"] = {"arguments": len(spairs), "differ": len(bad), "first": [repr(spairs[i]) for i in bad[:3]]}
    if bad:
        TIE_STATE["scope"].add("scalar")
        from deepdiff.distance import get_numeric_types_distance
        from deepdiff.helper import not_found
        cases = []
        # one differing input per kind of pair first: the first ones in grid order may all be of one kind
        kinds, chosen = set(), []
        for i in bad:
            k = (type(spairs[i][0]).__name__, type(spairs[i][1]).__name__)
            if k not in kinds:
                kinds.add(k)
                chosen.append(i)
        chosen += [i for i in bad if i not in set(chosen)][:cap]
        for i in chosen[:2 * cap]:
            a, b, mx = spairs[i]
            res = call(get_numeric_types_distance, a, b, mx)
            if res[0] == "ok" and res[1] is not_found:
                exp = "not_found"
            else:
                exp = obs_exc(res[1]) if res[0] == "exc" else obs_dres(res[1])
            cases.append(("sx_odres (numeric_types_distance %s %s %s)" % (coq_scalar(a), coq_scalar(b), coq_float(mx)), exp,
                          {"a": repr(a), "b": repr(b), "max_": mx, "found_by": "source tie"}))
            eq = scalar_equal(a, b)
            ctx.seen(("tie_scalar", repr(a), repr(b), mx), nontrivial=not eq)
            if exp != "not_found":
                check_number_result(ctx, "get_numeric_types_distance", a, b, mx, res, eq)
        mism = ctx.coq_cases("tie_scalars", HEADER, cases, label="source_tie:numeric_types_distance")
        report["judged"]["get_numeric_types_distance"] = {"inputs": len(cases), "hand_model_vs_implementation_mismatches": len(mism)}
    # ---- _get_rough_distance on the arguments of real calls ------------------------------------------------------------
    D, DT, TD, T = datetime.date, datetime.datetime, datetime.timedelta, datetime.time
    rp = [(1, ""), (1, 2), (1, -1), (0, 0.0), (True, 1), (1, 1.0), (None, 1), (None, ""), ([], ""), ({}, ""), (1, []), ([1, 2], (1, 3)),
          ([1, 2, 3], [1, 2, 3, 4]), ([1], [1, None]), ({"a": 1}, {"a": 1, "b": None}), ([None, None, None], ["", "", ""]), ("abc", "abd"),
          ([1, 2, 3], [3, 2, 5]), ({1, 2}, {2, 3}), ((1, 2), (1, 3, 4)), ([1, 1, 2], [1, 3]), ([[1, 2], [3, 4]], [[4, 3], [2, 1, 0]]),
          ([{"a": 1, "b": [1, 2]}, {"a": 2, "b": [3]}], [{"a": 2, "b": [3, 4]}, {"a": 1, "b": [2, 1]}]), (Decimal("1.5"), Decimal("2.5")),
          (D(2020, 1, 1), D(2020, 1, 2)), (DT(2020, 1, 1), DT(2021, 1, 1)), (T(1, 1, 1), T(2, 1, 1)), (TD(1), TD(2)), (0.1, 0.3), (5, 0),
          ([1.5, 2], [1.5, 3.5]), ([1, [2, [3, [4]]]], [1, [2, [3, [5]]]]), ({}, {"x": {"iterable_items_added_at_indexes": 5}}), ([1, 2], [1, 2]),
          ({}, {}), ("a", "a"), ([], [None]), ({"k": [1, 2, 3]}, {"k": [1, 2]}), ([[1, 2, 3], [4, 5]], [[4, 5, 6], [1, 2, 3]])]
    rp = rp + [(b, a) for (a, b) in rp]
    recs = _tie_rough_records(rp, [{}, {"ignore_order": True}, {"cutoff_distance_for_pairs": 1.0}, {"ignore_order": True, "cutoff_distance_for_pairs": 0.6}])
    seen_t, uniq = set(), []
    for q in recs:
        if q["parts"] not in seen_t:
            seen_t.add(q["parts"])
            uniq.append(q)
    bad, err = _tie_diff(ctx, "rough", TIE_HEADER, [
        ("sx_rres (g__get_rough_distance nolog (mk_dself %s %s %s false thr01 %s))" % q["parts"],
         "sx_rres (rough_distance %s %s %s %s)" % q["parts"]) for q in uniq], shard=150)
    report["errors"] += err
    report["differencing"]["_get_rough_distance"] = {"real_calls": len(uniq), "differ": len(bad),
                                                     "first": [repr((uniq[i]["t1"], uniq[i]["t2"], uniq[i]["cfg"])) for i in bad[:3]]}
    if bad:
        # calls answered by the numeric short cut differ because the number kernels differ: those are exercised by the
        # scalar streams; the rough stream is escalated when a call on containers differs
        structural = [i for i in bad if not (isinstance(uniq[i]["r"]["t1"], SCALAR_TYPES) and isinstance(uniq[i]["r"]["t2"], SCALAR_TYPES))]
        TIE_STATE["scope"].add("rough" if structural else "scalar")
        report["differencing"]["_get_rough_distance"]["differ_on_containers"] = len(structural)
        cases, done = [], set()
        for i in (structural[:cap // 2] + [j for j in bad if j not in set(structural[:cap // 2])])[:cap]:
            q = uniq[i]
            r = q["r"]
            res = r["result"]
            exp = obs_exc(res[1]) if res[0] == "exc" else obs_rough(res[1])
            cases.append(("sx_rough (rough_distance %s %s %s %s)" % q["parts"], exp,
                          {"t1": repr(r["t1"]), "t2": repr(r["t2"]), "config": q["cfg"], "root_call": r["root"], "impl": repr(res[1]), "found_by": "source tie"}))
            if not r["root"] and res[0] == "ok":
                x = res[1]
                if isinstance(x, bool) or not isinstance(x, (int, float)) or not (0 <= x <= 1):
                    ctx.fail({"kind": "pairing_distance", "t1": repr(r["t1"]), "t2": repr(r["t2"]), "config": q["cfg"], "result": repr(x)},
                             "distance %r used for pairing %s with %s is outside [0, 1]" % (x, repr(r["t1"]), repr(r["t2"])))
            key = (repr(q["t1"]), repr(q["t2"]), repr(sorted(q["cfg"].items())))
            if key not in done:
                done.add(key)
                oracle_pair(ctx, copy.deepcopy(q["t1"]), copy.deepcopy(q["t2"]), q["cfg"], "source_tie")
                ctx.seen(("tie_rough",) + key, nontrivial=not same_typed(q["t1"], q["t2"]))
        mism = ctx.coq_cases("tie_rough", HEADER, cases, shard=150, label="source_tie:rough_distance")
        report["judged"]["_get_rough_distance"] = {"inputs": len(cases), "hand_model_vs_implementation_mismatches": len(mism)}
    if not TIE_STATE["scope"]:
        # nothing differs on the grids: a proof that no longer goes through although the definitions agree where evaluated
        TIE_STATE["scope"] = {"scalar", "rough"} if status == "equivalence-proof-broken" else {"scalar"}
    report["escalated_streams"] = sorted(TIE_STATE["scope"])
    return report


def run(ctx):
    # the Coq evaluation of one part overlaps with the Python work of the next ones
    from concurrent.futures import ThreadPoolExecutor
    real = ctx.coq_cases
    pool = ThreadPoolExecutor(1)
    futures = []

    def deferred(*a, **k):
        futures.append(pool.submit(real, *a, **k))
        return []
    ctx.coq_cases = deferred
    t = {}
    # a broken source tie: the streams that exercise the fragment run with their thorough-size budgets
    escalate = set()
    if ctx.tie_broken("distance") and not ctx.thorough:
        scope = TIE_STATE["scope"] or {"scalar", "rough"}
        escalate = ({numbers_part, scalars_part, numpy_part} if "scalar" in scope else set()) | ({rough_part} if "rough" in scope else set())
        ctx.note("source_tie_escalation", sorted(f.__name__ for f in escalate))
    tier0 = ctx.tier
    try:
        for f in (numbers_part, scalars_part, numpy_part, io_model_part, rough_part, extras_part, witnesses):
            t0 = time.time()
            ctx.tier = "thorough" if f in escalate else tier0
            try:
                f(ctx)
            finally:
                ctx.tier = tier0
            t[f.__name__] = round(time.time() - t0, 1)
        t0 = time.time()
        for fu in futures:
            fu.result()
        t["waiting_for_coq"] = round(time.time() - t0, 1)
    finally:
        ctx.coq_cases = real
        pool.shutdown(wait=True)
    ctx.note("part_wall_s", t)


def replay(ctx, data):
    case = data.get("case", {})
    kind = case.get("kind")
    if kind == "numbers":
        from deepdiff import distance
        a, b, mx = _ev(case["a"]), _ev(case["b"]), _ev(case["max_"])
        fn = getattr(distance, case.get("fn", "_get_numbers_distance"))
        res = call(fn, a, b, mx)
        print("replay: %s(%r, %r, %r) -> %r" % (case.get("fn"), a, b, mx, res[1]))
        ctx.evaluations += 1
        check_number_result(ctx, case.get("fn", "_get_numbers_distance"), a, b, mx, res, scalar_equal(a, b))
    elif kind in ("deep_distance", "pairing_distance"):
        t1, t2 = _ev(case["t1"]), _ev(case["t2"])
        cfg = case.get("config", {})
        d = oracle_pair(ctx, t1, t2, cfg, "replay", texts=(case["t1"], case["t2"]))
        ctx.evaluations += 1
        print("replay: DeepDiff(%r, %r, get_deep_distance=True, **%r) -> %r" % (t1, t2, cfg, None if d is None else d.get("deep_distance")))
    elif kind == "numbers_log":
        from deepdiff.distance import _get_numbers_distance
        a, b, mx = _ev(case["a"]), _ev(case["b"]), _ev(case["max_"])
        res = call(lambda: _get_numbers_distance(a, b, mx, use_log_scale=True))
        print("replay: _get_numbers_distance(%r, %r, %r, use_log_scale=True) -> %r" % (a, b, mx, res[1]))
        ctx.evaluations += 1
        check_log_result(ctx, a, b, mx, res)
    elif kind == "numpy":
        import numpy as np
        from deepdiff.distance import _get_numpy_array_distance
        a, b, mx = _f(_ev(case["a"])), _f(_ev(case["b"])), _f(_ev(case["max_"]))
        with np.errstate(all="ignore"):
            r = float(_get_numpy_array_distance(np.array([a]), np.array([b]), mx)[0])
        print("replay: _get_numpy_array_distance([%r], [%r], %r) -> %r" % (a, b, mx, r))
        ctx.evaluations += 1
        if math.isnan(r) or not (0 <= r <= mx) or (r == 0) != (a == b):
            ctx.fail(dict(case, result=repr(r)), "_get_numpy_array_distance(%r, %r, max_=%r) = %r violates range / zero-iff-equal" % (a, b, mx, r))
    else:
        run(ctx)

"""C11 - ignore / tolerance options only remove differences and never make DeepDiff fail.

proof:           coq/theories/Options/{OptModel,OptProofs*}.v (old model, tied to Diff.DiffModel by theorem),
                 Options/{YValue,YModel,YProofs*,YEmbed*}.v (round-3 extended model), Properties/C11.v
correspondence:  (a) DeepDiff(t1, t2, view='tree', **F) - canonicalised tree (kind, both key sequences incl. the attribute
                 steps .name / .value of Enum members, both leaf values, unified diff text) or the exception class
                 (TypeError / ValueError / AttributeError) - against OptModel.run_optF (old universe) and against
                 YModel.run_optF (extended universe: arbitrary doubles, nan OBJECTS with identity, Decimal, datetime,
                 date, time, timedelta, Enum members at leaves / dict keys / set members; all twelve options
                 incl. ignore_nan_inequality, use_enum_value, number_format_notation='e'), for t2 = normalise_F(t1),
                 near misses, plain-equal pairs, unrelated pairs, ONE container object shared at two positions (13 %),
                 every single option and every pair, a focused family of option COMBINATIONS (nan leaves that are distinct
                 objects x {math_epsilon incl. 0, significant_digits, ignore_numeric_type_changes}; bytes / Enum dict keys
                 with upper-case letters x ignore_string_case x {ignore_string_type_changes, use_enum_value}; an Enum member
                 facing an equal value of another type x a type-ignoring option) and the witnesses of the Coq _refuted theorems;
                 positional and default list modes; threshold_to_diff_deeper 0.33 and 0.
                 (b) atom level: number_to_string (notations f and e) on int / float / Decimal / bool / nan against nstr,
                 math.isclose against is_close, float(Decimal) against dy_of_dec, time_to_seconds against time_secs,
                 Python's lookup equality across number types against py_eq, the DeepHash text (old atoms) and the
                 EQUALITY of DeepHash texts (new kinds of atoms, whose texts are stand-ins) against hatomF, datetime_normalize.
direct oracle:   the clauses stated on the public API, independent of the model, for ALL options and pairs, on a richer
                 universe still (numpy scalars, magnitudes 1e-9 ... 2^70):
                   A  DeepDiff(x, normalise_F(x), **F) == {}
                   B  DeepDiff(a, b) == {}  ==>  DeepDiff(a, b, **F) == {}
                   C  DeepDiff(a, b) does not raise  ==>  DeepDiff(a, b, **F) does not raise
                   D  (composition) for every single option S of the set F:  DeepDiff(a, b, **S) == {}  ==>  DeepDiff(a, b, **F) == {}
"""
import copy
import datetime
import decimal
import difflib
import enum
import logging
import math
import multiprocessing as mp
import random
from decimal import Decimal

try:
    import numpy as np
except ImportError:  # pragma: no cover
    np = None

from harness import core, values as V, diffcommon as D
from harness.core import coq_pystr, coq_list, coq_Z

logging.disable(logging.CRITICAL)

THEOREM_FILE = "Properties/C11.v"
COQCHK = ["Properties.C11"]
RULE = ("one case = one pair (t1, t2) under one option set and one list mode; families: alt (t2 = the option's normaliser applied to "
        "t1 at random leaves / dict keys / set members), near (alt + one genuine edit), alias (plain-equal pairs: 1 / 1.0 / True swapped in "
        "default-mode lists, dict keys and sets, dict insertion order shuffled), rand (independent values or an edit script), focus (option "
        "combinations on nan leaves / bytes and Enum keys / Enum members facing equal values of another type), hand (witnesses); option sets: "
        "every single option and every pair; a case is non-trivial when t1 and t2 are not structurally identical; "
        "distinct = distinct (family, options, mode, canonical t1, canonical t2)")
TRUSTED = [
    "the Gallina models are hand-written; they are tied to the code by the correspondence check only. Old model: options ignore_string_case, "
    "ignore_string_type_changes, ignore_numeric_type_changes, significant_digits ('f'), math_epsilon, exclude_types, ignore_private_variables on the "
    "shared universe (half-integer floats). Extended model (YValue / YModel): additionally truncate_datetime, default_timezone (fixed offsets), "
    "ignore_nan_inequality, use_enum_value, number_format_notation='e' on doubles, nan objects, Decimal, datetime, date, naive time, timedelta, "
    "members of plain Enum classes",
    "number_to_string / math.isclose are exact arithmetic: round() followed by '%.df' is taken as round-half-even of the exact binary value, "
    "float(Decimal) and the operand of '%.de' as the nearest double (53 bits, no subnormals / overflow), rel_tol * x exactly (the double rounds it); "
    "checked against the implementation on |x| < 1e6, <= 6 digits (atom-level stream)",
    "sha256 is taken to be injective on the texts DeepHash builds for set members (the model compares the texts); the texts of Decimal (no precision), "
    "date, time, timedelta, datetime and Enum members are STAND-INS that are faithful only for equality between texts (checked pairwise)",
    "bytes are ASCII in the model (decode is the identity); str.lower() is modelled for ASCII",
    "the identity shortcut `level.t1 is level.t2` is modelled for nan objects and Enum members (for every other atom identical objects are equal "
    "objects of one representation, for which every comparer reports nothing); containers are trees in the model (a container object shared at "
    "two positions is fed to the model unfolded)",
    "the DeepHash memo table keyed by == (1 / 1.0 / Decimal('1') and, under use_enum_value, a member and its value share one hash: finding K2) is "
    "not modelled: pairs with such aliases among set members are checked by the direct oracle only",
    "a str / bytes valued Enum member meeting a CONTAINER under use_enum_value is iterated by the code as a sequence of characters: the model "
    "answers Err EType there and the correspondence does not generate that combination (counted as xcorr_skipped)",
    "naive datetime.time with microsecond a multiple of 15625 (time_to_seconds exact); Decimal finite, exponent in [-12, 6], <= 15 digits",
]
ASSUMPTIONS = [
    "inputs are tree shaped (no shared or cyclic containers)",
    "bytes dict keys and bytes set members are ASCII (non-UTF-8 bytes keys make key cleaning under ignore_string_type_changes raise "
    "UnicodeDecodeError: outside the model, see NOTES.md)",
]


class E(enum.Enum):
    A = 1
    B = "x"
    C = 2.5
    D = "X"


class G(enum.Enum):
    P = 1
    Q = "Ab"
    R = b"Ab"
    S = None
    T = 2
    U = "nan"
    V = "a\nb"
    W = 1.5


ENUMS = (E, G)


# --------------------------------------------------------------------------
# option sets
# --------------------------------------------------------------------------
BASE = dict(case=False, strty=False, numty=False, sig=None, eps=None, excl=[], private=True, base_private=True,
            trunc=None, tz=None, nan=False, enum=False, note=False)
TYPES = {"int": int, "float": float, "str": str, "bytes": bytes, "bool": bool, "NoneType": type(None), "list": list,
         "tuple": tuple, "dict": dict, "set": set, "frozenset": frozenset, "datetime": datetime.datetime, "E": E, "G": G,
         "Decimal": Decimal, "date": datetime.date, "time": datetime.time, "timedelta": datetime.timedelta}
COQ_TY = {"int": "TInt", "float": "TFloat", "str": "TStr", "bytes": "TBytes", "bool": "TBool", "NoneType": "TNone",
          "list": "TList", "tuple": "TTuple", "dict": "TDict", "set": "TSet", "frozenset": "TFrozen"}
MODELLED = ("case", "strty", "numty", "sig", "eps", "excl", "private")                      # old model
XMODELLED = MODELLED + ("trunc", "tz", "nan", "enum", "note")                                  # extended model
UNMODELLED = ()


def mk(**kw):
    s = dict(BASE)
    s.update(kw)
    return s


def single_specs(rng, modelled_only):
    """one spec per single option (with a randomly chosen parameter)"""
    out = [("case", mk(case=True)), ("strty", mk(strty=True)), ("numty", mk(numty=True)),
           ("sig", mk(sig=rng.choice([0, 0, 1, 2, 3] if modelled_only else [0, 1, 2, 3, 5]))),
           ("eps", mk(eps=rng.choice([0.5, 1.0, 2.0, 0.25] if modelled_only else [0.5, 1.0, 1.0, 2.0, 0.01, 1e-3, 0.3]))),
           ("excl", mk(excl=rng.choice([["int"], ["str"], ["float"], ["bool"], ["list"], ["dict"], ["NoneType"], ["int", "str"],
                                        ["set"], ["bytes"], ["tuple"]]))),
           ("private", mk(private=True, base_private=False))]
    if not modelled_only:
        out += [("trunc", mk(trunc=rng.choice(["second", "minute", "hour", "day"]))),
                ("tz", mk(tz=rng.choice([0, 120, -300, 330]))),
                ("nan", mk(nan=True)), ("enum", mk(enum=True))]
    return out


def combine(a, b):
    s = dict(BASE)
    for k in BASE:
        if a[k] != BASE[k]:
            s[k] = a[k]
        if b[k] != BASE[k]:
            s[k] = b[k]
    return s


def all_specs(rng, modelled_only):
    """[(name, spec)] for every single option and every pair of options"""
    singles = single_specs(rng, modelled_only)
    out = list(singles)
    singles2 = single_specs(rng, modelled_only)
    for i in range(len(singles)):
        for j in range(i + 1, len(singles)):
            out.append((singles[i][0] + "+" + singles2[j][0], combine(singles[i][1], singles2[j][1])))
    return out


def sub_specs(sp):
    """[(option name, the option set reduced to that single option)] when at least two options are active
    (ignore_private_variables, on by default, and number_format_notation, a parameter of significant_digits, stay as they are)"""
    act = [k for k in active(sp) if k != "private"]
    if len(act) < 2:
        return []
    out = []
    for k in act:
        if k == "numty" and sp["sig"] is not None:
            # significant_digits REPLACES the 12 digits ignore_numeric_type_changes implies; rounding is not monotone in the number
            # of digits (0.5 - 2^-42 vs 0.5 + 2^-42: equal at 12 digits, 0 vs 1 at 0 digits): Coq comp_sig_over_numty_refuted
            continue
        sub = dict(BASE)
        sub["private"], sub["base_private"] = sp["private"], sp["base_private"]
        sub[k] = sp[k]
        if k == "sig":
            sub["note"] = sp.get("note", False)
        out.append((k, sub))
    return out


def active(sp):
    a = []
    for k in ("case", "strty", "numty", "nan", "enum"):
        if sp[k]:
            a.append(k)
    for k in ("sig", "eps", "trunc", "tz"):
        if sp[k] is not None:
            a.append(k)
    if sp["excl"]:
        a.append("excl")
    if sp["private"]:
        a.append("private")
    return a


def kwargs_of(sp, base=False):
    """DeepDiff keyword arguments of the option set (base=True: the plain run)"""
    kw = {}
    if base:
        if not sp["base_private"]:
            kw["ignore_private_variables"] = False
        return kw
    if sp["case"]:
        kw["ignore_string_case"] = True
    if sp["strty"]:
        kw["ignore_string_type_changes"] = True
    if sp["numty"]:
        kw["ignore_numeric_type_changes"] = True
    if sp["sig"] is not None:
        kw["significant_digits"] = sp["sig"]
    if sp["eps"] is not None:
        kw["math_epsilon"] = sp["eps"]
    if sp["excl"]:
        kw["exclude_types"] = [TYPES[t] for t in sp["excl"]]
    if not sp["private"]:
        kw["ignore_private_variables"] = False
    if sp["trunc"]:
        kw["truncate_datetime"] = sp["trunc"]
    if sp["tz"] is not None:
        kw["default_timezone"] = datetime.timezone(datetime.timedelta(minutes=sp["tz"]))
    if sp["nan"]:
        kw["ignore_nan_inequality"] = True
    if sp["enum"]:
        kw["use_enum_value"] = True
    if sp.get("note"):
        kw["number_format_notation"] = "e"
    return kw


def coq_opts(sp):
    def opt(x, f):
        return "None" if x is None else "(Some %s)" % f(x)

    def dy(x):
        m, den = float(x).as_integer_ratio()
        e = den.bit_length() - 1
        assert den == 1 << e
        return "(%s, %d%%N)" % (coq_Z(m), e)
    return "(mkOpts %s %s %s %s %s %s)" % (
        core.coq_bool(sp["case"]), core.coq_bool(sp["strty"]), core.coq_bool(sp["numty"]),
        opt(sp["sig"], lambda d: "%d%%N" % d), opt(sp["eps"], dy), coq_list(COQ_TY[t] for t in sp["excl"]))


def coq_cfg(zip_, thr, private):
    num, den = {0: (0, 1), 0.33: (33, 100)}[thr]
    return "(mkCfg %s %d %d %s)" % (core.coq_bool(zip_), num, den, core.coq_bool(private))


# --------------------------------------------------------------------------
# literals (replayable text of a value)
# --------------------------------------------------------------------------
def lit(v):
    if isinstance(v, list):
        return "[" + ", ".join(lit(x) for x in v) + "]"
    if isinstance(v, tuple):
        return "(" + "".join(lit(x) + ", " for x in v) + ")"
    if isinstance(v, dict):
        return "{" + ", ".join(lit(k) + ": " + lit(x) for k, x in v.items()) + "}"
    if isinstance(v, frozenset):
        return "frozenset([" + ", ".join(lit(x) for x in v) + "])"
    if isinstance(v, set):
        return "set([" + ", ".join(lit(x) for x in v) + "])"
    if isinstance(v, ENUMS):
        return type(v).__name__ + "." + v.name
    if isinstance(v, datetime.time):
        return "tm(%d,%d,%d,%d)" % (v.hour, v.minute, v.second, v.microsecond)
    if isinstance(v, datetime.timedelta):
        return "td(%d)" % (v // USEC1)
    if isinstance(v, datetime.date) and not isinstance(v, datetime.datetime):
        return "date(%d,%d,%d)" % (v.year, v.month, v.day)
    if isinstance(v, Decimal):
        return "Decimal(%r)" % str(v)
    if np is not None and isinstance(v, np.generic):
        return "np.%s(%r)" % (type(v).__name__, v.item())
    if isinstance(v, float) and v != v:
        return "nan(%d)" % nan_id(v)
    if isinstance(v, datetime.datetime):
        if v.tzinfo is None:
            return "dt(%d,%d,%d,%d,%d,%d,%d)" % (v.year, v.month, v.day, v.hour, v.minute, v.second, v.microsecond)
        off = int(v.utcoffset().total_seconds() // 60)
        return "dt(%d,%d,%d,%d,%d,%d,%d,%d)" % (v.year, v.month, v.day, v.hour, v.minute, v.second, v.microsecond, off)
    return repr(v)


def _dt(y, mo, d, h, mi, s, us, off=None):
    tz = None if off is None else datetime.timezone(datetime.timedelta(minutes=off))
    return datetime.datetime(y, mo, d, h, mi, s, us, tzinfo=tz)


USEC1 = datetime.timedelta(microseconds=1)
_NAN_OBJ, _NAN_NUM = {}, {}      # number -> nan object, id(object) -> number: identity of nan objects survives lit / unlit


def nan_id(v):
    k = _NAN_NUM.get(id(v))
    if k is None or _NAN_OBJ.get(k) is not v:
        k = len(_NAN_OBJ)
        _NAN_OBJ[k] = v
        _NAN_NUM[id(v)] = k
    return k


def nan_obj(k):
    if k not in _NAN_OBJ:
        v = float("nan")
        _NAN_OBJ[k] = v
        _NAN_NUM[id(v)] = k
    return _NAN_OBJ[k]


def shared_containers(v):
    """the list / dict objects that occur at two or more positions of v (outermost ones only)"""
    seen, dup = {}, []

    def walk(x):
        if isinstance(x, (list, dict)):
            if id(x) in seen:
                if all(q is not x for q in dup):
                    dup.append(x)
                return
            seen[id(x)] = x
        if isinstance(x, (list, tuple)):
            for y in x:
                walk(y)
        elif isinstance(x, dict):
            for y in x.values():
                walk(y)
    walk(v)
    return dup


def lit_top(v):
    """lit(v) that also keeps ONE container object occurring at several positions (replay rebuilds the sharing)"""
    dup = shared_containers(v)
    if not dup:
        return lit(v)
    names = {id(x): "s%d" % i for i, x in enumerate(dup)}

    def go(x):
        if id(x) in names and isinstance(x, (list, dict)):
            return names[id(x)]
        if isinstance(x, list):
            return "[" + ", ".join(go(y) for y in x) + "]"
        if isinstance(x, tuple):
            return "(" + "".join(go(y) + ", " for y in x) + ")"
        if isinstance(x, dict):
            return "{" + ", ".join(lit(k) + ": " + go(y) for k, y in x.items()) + "}"
        return lit(x)
    return "(lambda %s: %s)(%s)" % (", ".join(names[id(x)] for x in dup), go(v), ", ".join(lit(x) for x in dup))


def has_nan_obj(v):
    if isinstance(v, (list, tuple, set, frozenset)):
        return any(has_nan_obj(x) for x in v)
    if isinstance(v, dict):
        return any(has_nan_obj(k) or has_nan_obj(x) for k, x in v.items())
    return isinstance(v, float) and v != v


class Packed(str):
    pass


def pack(v):
    """pickling a job for a pool worker loses the identity of float objects; values with nan objects travel as their literal"""
    return Packed(lit_top(v)) if has_nan_obj(v) else v


def unpack(v):
    return unlit(v) if isinstance(v, Packed) else v


def unlit(s):
    return eval(s, {"__builtins__": {"set": set, "frozenset": frozenset, "float": float}, "E": E, "G": G, "dt": _dt,
                    "tm": datetime.time, "td": lambda us: datetime.timedelta(microseconds=us), "date": datetime.date, "nan": nan_obj,
                    "True": True, "False": False, "None": None, "Decimal": Decimal, "np": np, "inf": float("inf")})


# --------------------------------------------------------------------------
# generators
# --------------------------------------------------------------------------
STRS = ["a", "b", "A", "B", "ab", "Ab", "aB", "AB", "x y", "", "k1", "K1", "0", "1", "none", "NONE", "int:1", "str:a",
        "a\nb", "A\nb", "a\nc\n"]
BYTS = [b"a", b"A", b"ab", b"Ab", b"", b"k1", b"x y", b"a\nb"]
KEYSTR = ["a", "b", "A", "B", "ab", "Ab", "k1", "K1", "x y", "", "1", "none"]
PRIV = ["__a", "__A", "__p", "__"]


_XU = False        # set by run(): generate inside the extended model universe (no enum members / Decimal / numpy)
_NUMX = False      # set by gen_pairs: the numeric options get Decimal / numpy scalars / extreme magnitudes as leaves


def numx_atom(rng):
    pool = [Decimal("1.5"), Decimal("2"), Decimal("-0.25"), Decimal("3.125"), Decimal("1.1"), Decimal("100.004"),
            1e20, -3e18, 1e-9, 2.5e-7, 123456789012345678, 2 ** 70, 1e15 + 0.5]
    if np is not None:
        pool += [np.uint8(3), np.uint8(200), np.uint8(0), np.uint16(7), np.int8(-7), np.int32(-7), np.int64(5), np.uint64(9),
                 np.float32(1.5), np.float64(2.25), np.float32(0.1), np.float64(1e20), np.float32(-0.75)]
    return rng.choice(pool)


def gen_atom(rng, rich=False, nan_ok=False):
    r = rng.random()
    if rich and _XU and rng.random() < 0.2:
        return gen_xatom(rng, nan_ok)
    if rich and _NUMX and not _XU and r < 0.45:
        return numx_atom(rng)
    if r < 0.08:
        return None
    if r < 0.16:
        return rng.random() < 0.5
    if r < 0.38:
        return rng.randint(-3, 12)
    if r < 0.54:
        if rich and rng.random() < 0.6:
            return rng.choice([round(rng.uniform(-50, 50), rng.randint(0, 6)), rng.uniform(-2, 2), 1e-7 * rng.randint(1, 99),
                               rng.randint(-5, 5) + 0.05, 0.1 + 0.2, 2.675, 1e15 + 0.5, -0.0])
        return rng.randint(-4, 9) + rng.choice([0.0, 0.5, 0.5])
    if r < 0.84:
        return rng.choice(STRS)
    if r < 0.92 or not rich:
        return rng.choice(BYTS)
    k = rng.random()
    if _XU:
        return gen_xatom(rng, nan_ok)
    if k < 0.3:
        return float("nan") if nan_ok else rng.choice(list(E))
    if k < 0.6:
        return rng.choice(list(E))
    return gen_dt(rng)


XDECS = ["1.5", "1.50", "2", "-0.25", "3.125", "1.1", "100.004", "0.1", "2.675", "12.25", "0", "1E+2", "0.30", "7.5"]
NANS = [float("nan") for _ in range(3)]      # a small pool of nan OBJECTS: the same object can occur on both sides and twice in a value


def gen_xatom(rng, nan_ok=False, key=False):
    """an atom of the kinds the extended model adds: datetime, nan, Enum member, Decimal, date, time, timedelta"""
    k = rng.random()
    if k < 0.22:
        return gen_dt(rng)
    if k < 0.40:
        return rng.choice(NANS) if (nan_ok or rng.random() < 0.5) else gen_dt(rng)
    if k < 0.62:
        return rng.choice(list(E) + list(G))
    if k < 0.78:
        return Decimal(rng.choice(XDECS))
    if k < 0.86:
        return datetime.date(2024, rng.randint(1, 12), rng.randint(1, 28))
    if k < 0.94:
        return datetime.time(rng.randint(0, 23), rng.randint(0, 59), rng.randint(0, 59), rng.choice([0, 0, 250000, 500000, 15625]))
    return datetime.timedelta(days=rng.randint(-2, 3), seconds=rng.randint(0, 3), microseconds=rng.choice([0, 0, 7]))


def gen_dt(rng):
    tz = rng.choice([None, None, 0, 120, -300, 330])
    return _dt(2024, rng.randint(1, 12), rng.randint(1, 28), rng.randint(0, 23), rng.randint(0, 59), rng.randint(0, 59),
               rng.choice([0, 0, 250000, 999999]), tz)


def gen_key(rng, bytes_ok, numeric_ok, rich=False, nan_ok=False):
    r = rng.random()
    if r < 0.58:
        return rng.choice(KEYSTR)
    if r < 0.66:
        return rng.choice(PRIV)
    if r < 0.70:
        return None
    if r < 0.90:
        if not numeric_ok:
            return rng.choice(KEYSTR)
        k = rng.random()
        if k < 0.55:
            return rng.randint(-1, 6)
        if k < 0.8:
            return rng.randint(-2, 5) + rng.choice([0.0, 0.5, 0.5])
        if rich and k < 0.9:
            return round(rng.uniform(-5, 5), 3)
        return rng.random() < 0.5
    if bytes_ok:
        return rng.choice(BYTS[:6])
    if rich and rng.random() < 0.5:
        return gen_xatom(rng, nan_ok, True) if _XU else rng.choice([E.A, E.B, gen_dt(rng), float("nan") if nan_ok else E.C])
    return rng.choice(KEYSTR)


def _eq(a, b):
    try:
        return bool(a == b)
    except Exception:  # noqa  (Decimal == numpy scalar raises)
        return False


def distinct(items):
    out = []
    for k in items:
        if all(not _eq(k, q) for q in out) and not (isinstance(k, float) and k != k and any(isinstance(q, float) and q != q for q in out)):
            try:
                hash(k)
            except TypeError:
                continue
            out.append(k)
    return out


def gen_value(rng, depth, width, bytes_ok=False, numeric_ok=True, rich=False, nan_ok=False):
    if depth <= 0 or rng.random() < 0.22:
        return gen_atom(rng, rich, nan_ok)
    k = rng.choice("LLTDDDSF")
    n = rng.randint(0, width)
    if k == "L":
        if rng.random() < 0.4:     # an all-atom list: the default mode goes through difflib
            return [gen_atom(rng, rich, nan_ok) for _ in range(n)]
        return [gen_value(rng, depth - 1, width, bytes_ok, numeric_ok, rich, nan_ok) for _ in range(n)]
    if k == "T":
        return tuple(gen_value(rng, depth - 1, width, bytes_ok, numeric_ok, rich, nan_ok) for _ in range(n))
    if k == "D":
        keys = distinct(gen_key(rng, bytes_ok, numeric_ok, rich, nan_ok) for _ in range(n))
        return {q: gen_value(rng, depth - 1, width, bytes_ok, numeric_ok, rich, nan_ok) for q in keys}
    items = distinct(gen_atom(rng, rich, nan_ok) for _ in range(n))
    return set(items) if k == "S" else frozenset(items)


def is_nan(a):
    return isinstance(a, float) and a != a


def to_dec(x):
    """the exact value of a number (int, float, Decimal, numpy scalar)"""
    if isinstance(x, Decimal):
        return x
    if np is not None and isinstance(x, np.generic):
        x = x.item()
    return decimal.Decimal(x)


def is_number(a):
    if isinstance(a, bool) or (np is not None and isinstance(a, np.bool_)):
        return False
    if isinstance(a, (int, float, Decimal)) or (np is not None and isinstance(a, np.number)):
        try:
            return math.isfinite(a)
        except (TypeError, OverflowError):
            return True
    return False


def same_bucket(x, y, d):
    """x and y round (half-even, exact arithmetic) to the same multiple of 10^-d"""
    q = decimal.Decimal(1).scaleb(-d)
    with decimal.localcontext() as c:
        c.prec = 80
        return to_dec(x).quantize(q, rounding=decimal.ROUND_HALF_EVEN) == to_dec(y).quantize(q, rounding=decimal.ROUND_HALF_EVEN)


def retype(a, rng):
    """the same number as an object of another numeric type (exactly equal values only)"""
    v = to_dec(a)
    kinds = [int, float]
    if _NUMX:
        kinds += [Decimal]
        if np is not None:
            kinds += [np.float64, np.int64, np.uint8, np.int32, np.float32, np.uint64]
    out = []
    for T in kinds:
        try:
            if T is Decimal:
                c = v
            elif T in (int,) or (np is not None and isinstance(T, type) and issubclass(T, np.integer)):
                if v != v.to_integral_value():
                    continue
                c = T(int(v))
            else:
                c = T(float(v))
            if type(c) is not type(a) and to_dec(c) == v:
                out.append(c)
        except (OverflowError, ValueError, TypeError, decimal.InvalidOperation):
            continue
    return out


def atom_of_types(rng, names, rich):
    """a random atom whose type is one of the named (excluded) types"""
    pool = []
    for t in names:
        if t == "int":
            pool += [rng.randint(-3, 12), rng.randint(-3, 12)]
        elif t == "float":
            pool += [rng.randint(-4, 9) + 0.5, float(rng.randint(-3, 5))]
        elif t == "str":
            pool += [rng.choice(STRS), rng.choice(STRS)]
        elif t == "bytes":
            pool += [rng.choice(BYTS)]
        elif t == "bool":
            pool += [True, False]
        elif t == "NoneType":
            pool += [None]
    return rng.choice(pool) if pool else None


def excluded_py(a, names):
    return any(isinstance(a, TYPES[t]) for t in names)


def alt_atom(rng, a, sp, pos, rich, p):
    """(a', aspect) - a altered in one aspect the option set ignores, or (a, None)"""
    if rng.random() >= p:
        return a, None
    cands = []
    if sp["case"] and isinstance(a, (str, bytes)):
        for b in (a.upper(), a.lower(), a.swapcase()):
            if b != a:
                cands.append((b, "case"))
    if sp["strty"]:
        if isinstance(a, str) and a.isascii():
            cands.append((a.encode("ascii"), "strty"))
        elif isinstance(a, bytes):
            cands.append((a.decode("ascii"), "strty"))
    num = is_number(a)
    plain = type(a) in (int, float)
    if sp["numty"] and num:
        if _NUMX:
            for c in retype(a, rng):
                cands.append((c, "numty"))
        elif isinstance(a, int) and abs(a) < 2 ** 53:
            cands.append((float(a), "numty"))
        elif isinstance(a, float) and a == int(a):
            cands.append((int(a), "numty"))
    if sp["sig"] is not None and num:
        d = sp["sig"]
        ys = []
        if type(a) is float:
            ys += [a + 0.5, a - 0.5, a + 1.0, a - 1.0]
            if rich:
                ys += [float("%.*f" % (d, a)), a + 0.3 * 10 ** -d, a - 0.3 * 10 ** -d, a * (1 + 1e-12)]
            if sp["numty"]:
                ys += [int(a), int(a) + 1, int(a) - 1]
        elif type(a) is int and sp["numty"]:
            ys += [a + 0.5, a - 0.5]
        elif isinstance(a, Decimal):
            ys += [a + Decimal(3).scaleb(-d - 1), a - Decimal(3).scaleb(-d - 1), a + Decimal(1).scaleb(-d - 6)]
        elif np is not None and isinstance(a, np.floating):
            ys += [type(a)(float(a) + 0.3 * 10 ** -d), type(a)(float(a) - 0.3 * 10 ** -d)]
        for y in ys:
            if not (type(y) is type(a) and y == a) and same_bucket(a, y, d):
                cands.append((y, "sig"))
    if sp["eps"] is not None and num:
        e = sp["eps"]
        ys = []
        if type(a) is float:
            ys += [a + 0.5, a - 0.5, a + 1.0, a - 1.0, a + 2.0]
            if rich:
                ys += [a + 0.9 * e, a - 0.9 * e, a + 0.5 * e * rng.random()]
        elif type(a) is int:
            ys += [a + 1, a - 1, a + 2]
        elif isinstance(a, Decimal):
            ys += [a + Decimal(e) * Decimal("0.9"), a - Decimal(e) * Decimal("0.5")]
        elif np is not None and isinstance(a, np.integer):
            info = np.iinfo(type(a))
            ys += [type(a)(int(a) + k) for k in (1, -1, 2) if info.min <= int(a) + k <= info.max]
        elif np is not None and isinstance(a, np.floating):
            ys += [type(a)(float(a) + 0.5 * e), type(a)(float(a) - 0.9 * e)]
        for y in ys:
            try:
                if y != a and abs(to_dec(y) - to_dec(a)) <= to_dec(e):
                    cands.append((y, "eps"))
            except (decimal.InvalidOperation, OverflowError):
                pass
    if sp["excl"] and excluded_py(a, sp["excl"]):
        b = atom_of_types(rng, sp["excl"], rich)
        if b is not None and not (type(b) is type(a) and b == a):
            cands.append((b, "excl"))
    if sp["nan"] and is_nan(a):
        cands.append((rng.choice([q for q in NANS if q is not a] + [float("nan")]), "nan"))
    if sp["enum"]:
        if isinstance(a, ENUMS):
            if not (pos == "leaf" and isinstance(a.value, (str, bytes)) and False):
                cands.append((a.value, "enum"))
            for m in list(E) + list(G):
                if m is not a and type(m) is not type(a) and type(m.value) is type(a.value) and m.value == a.value:
                    cands.append((m, "enum"))
        else:
            for m in list(E) + list(G):
                if type(m.value) is type(a) and m.value == a:
                    cands.append((m, "enum"))
    if sp["trunc"] and type(a) is datetime.time:
        u = sp["trunc"]
        kw = {"microsecond": rng.choice([0, 250000, 500000, 984375])}
        if u in ("minute", "hour", "day"):
            kw["second"] = rng.randint(0, 59)
        if u in ("hour", "day"):
            kw["minute"] = rng.randint(0, 59)
        if u == "day":
            kw["hour"] = rng.randint(0, 23)
        b = a.replace(**kw)
        if b != a:
            cands.append((b, "trunc"))
    if isinstance(a, datetime.datetime):
        if sp["trunc"]:
            u = sp["trunc"]
            kw = {"microsecond": rng.choice([0, 1, 999999])}
            if u in ("minute", "hour", "day"):
                kw["second"] = rng.randint(0, 59)
            if u in ("hour", "day"):
                kw["minute"] = rng.randint(0, 59)
            if u == "day":
                kw["hour"] = rng.randint(0, 23)
            b = a.replace(**kw)
            if b != a:
                cands.append((b, "trunc"))
        if sp["tz"] is not None:
            if a.tzinfo is not None:
                other = datetime.timezone(datetime.timedelta(minutes=rng.choice([0, 60, -480, 345, sp["tz"]])))
                b = a.astimezone(other)
                if b.utcoffset() != a.utcoffset():
                    cands.append((b, "tz"))
            else:
                cands.append((a.replace(tzinfo=datetime.timezone(datetime.timedelta(minutes=sp["tz"]))), "tz"))
    if not cands:
        return a, None
    return rng.choice(cands)


def normalise(rng, v, sp, rich=False, p=0.5, log=None, top=True):
    """a copy of v altered only in aspects the option set ignores, at random
    positions (leaves, dict keys, set members, whole sub-values of an excluded
    type, double-underscore entries); log collects (aspect, position kind)"""
    if log is None:
        log = []
    if sp["excl"] and not top and isinstance(v, (list, tuple, dict, set, frozenset)) and excluded_py(v, sp["excl"]) and rng.random() < p:
        # a container of an excluded type is replaced by another value of an excluded type
        names = [t for t in sp["excl"] if t in ("list", "tuple", "dict", "set", "frozenset")]
        t = rng.choice(names)
        w = gen_value(rng, 1, 2, False, False, rich)
        new = {"list": lambda: [w], "tuple": lambda: (w, 1), "dict": lambda: {"q": w},
               "set": lambda: {1, "s"}, "frozenset": lambda: frozenset({2, "s"})}[t]()
        log.append(("excl", "sub"))
        return new
    if isinstance(v, (list, tuple)):
        out = [normalise(rng, x, sp, rich, p, log, False) for x in v]
        return out if isinstance(v, list) else tuple(out)
    if isinstance(v, dict):
        keys = list(v.keys())
        newkeys, marks = [], []
        for k in keys:
            nk, asp = alt_atom(rng, k, sp, "key", rich, p * 0.6)
            if sp["private"] and isinstance(k, str) and k.startswith("__"):
                nk, asp = k, None      # handled below
            newkeys.append(nk)
            marks.append(asp)
        ok = len(distinct(newkeys)) == len(newkeys)
        try:
            hash(tuple(newkeys))
        except TypeError:
            ok = False
        if not ok:
            newkeys, marks = keys, [None] * len(keys)
        for m in marks:
            if m:
                log.append((m, "key"))
        out = {}
        for k, nk in zip(keys, newkeys):
            if sp["private"] and isinstance(k, str) and k.startswith("__") and rng.random() < p:
                log.append(("private", "entry"))
                r = rng.random()
                if r < 0.4:
                    continue                       # dropped
                if r < 0.8:
                    out[k] = gen_atom(rng, rich)   # changed
                    continue
            out[nk] = normalise(rng, v[k], sp, rich, p, log, False)
        if sp["private"] and rng.random() < p * 0.5:
            nk = rng.choice(PRIV)
            if nk not in out:
                out[nk] = gen_atom(rng, rich)
                log.append(("private", "entry"))
        return out
    if isinstance(v, (set, frozenset)):
        items = []
        marks = []
        for a in sorted(v, key=lit):      # nan hashes by id: fix the order
            b, asp = alt_atom(rng, a, sp, "set", rich, p * 0.6)
            items.append(b)
            marks.append(asp)
        if len(distinct(items)) != len(items):
            items, marks = list(v), []
        for m in marks:
            if m:
                log.append((m, "set"))
        return set(items) if isinstance(v, set) else frozenset(items)
    b, asp = alt_atom(rng, v, sp, "leaf", rich, p)
    if asp:
        log.append((asp, "leaf"))
    return b


def alias_copy(rng, v, in_list=False):
    """a copy that Python (and plain DeepDiff, by its use of == in difflib, dict
    lookups and the hash memo) cannot tell from v: 1 / 1.0 / True swapped inside
    all-atom lists, dict keys and sets; dict insertion order shuffled"""
    def swap(a):
        if isinstance(a, (bool, int, float)) and not is_nan(a) and rng.random() < 0.5:
            for b in rng.sample([int, float, bool], 3):
                try:
                    c = b(a)
                except (OverflowError, ValueError):
                    continue
                if c == a and type(c) is not type(a):
                    return c
        return a
    if isinstance(v, (list, tuple)):
        atoms = D.all_atoms(v)
        out = [swap(x) if atoms and not isinstance(x, (list, tuple, dict, set, frozenset)) else alias_copy(rng, x) for x in v]
        return out if isinstance(v, list) else tuple(out)
    if isinstance(v, dict):
        items = [(swap(k), alias_copy(rng, x)) for k, x in v.items()]
        if rng.random() < 0.5:
            rng.shuffle(items)
        return dict(items)
    if isinstance(v, (set, frozenset)):
        items = [swap(a) for a in sorted(v, key=lit)]
        rng.shuffle(items)
        return set(items) if isinstance(v, set) else frozenset(items)
    if isinstance(v, datetime.datetime) and v.tzinfo is not None and rng.random() < 0.6:
        return v.astimezone(datetime.timezone(datetime.timedelta(minutes=rng.choice([0, 60, -480, 345, 330]))))
    return v


def intern_atoms(v, table):
    """rebuild v with one object per (type, value) atom, so that `is` on atoms
    means identical type and value"""
    if isinstance(v, list):
        return [intern_atoms(x, table) for x in v]
    if isinstance(v, tuple):
        return tuple(intern_atoms(x, table) for x in v)
    if isinstance(v, dict):
        return {intern_atoms(k, table): intern_atoms(x, table) for k, x in v.items()}
    if isinstance(v, frozenset):
        return frozenset(intern_atoms(x, table) for x in v)
    if isinstance(v, set):
        return set(intern_atoms(x, table) for x in v)
    key = (type(v).__name__, repr(v))
    return table.setdefault(key, v)


# --------------------------------------------------------------------------
# properties of inputs used by the matchers / filters
# --------------------------------------------------------------------------
def walk_keys(v, acc):
    if isinstance(v, dict):
        for k, x in v.items():
            acc.append(k)
            walk_keys(x, acc)
    elif isinstance(v, (list, tuple)):
        for x in v:
            walk_keys(x, acc)
    return acc


def dicts_of(v, acc):
    if isinstance(v, dict):
        acc.append(v)
        for x in v.values():
            dicts_of(x, acc)
    elif isinstance(v, (list, tuple)):
        for x in v:
            dicts_of(x, acc)
    return acc


def set_members(v, acc):
    if isinstance(v, (set, frozenset)):
        acc.extend(v)
    elif isinstance(v, dict):
        for x in v.values():
            set_members(x, acc)
    elif isinstance(v, (list, tuple)):
        for x in v:
            set_members(x, acc)
    return acc


def all_atoms_of(v, acc):
    if isinstance(v, dict):
        for k, x in v.items():
            acc.append(k)
            all_atoms_of(x, acc)
    elif isinstance(v, (list, tuple, set, frozenset)):
        for x in v:
            all_atoms_of(x, acc)
    else:
        acc.append(v)
    return acc


def features(a, b):
    ks = walk_keys(a, []) + walk_keys(b, [])
    f = set()
    at = all_atoms_of(a, []) + all_atoms_of(b, [])
    if any(isinstance(x, ENUMS) for x in at):
        f.add("has_enum")
    if any(isinstance(x, (datetime.datetime, datetime.date, datetime.time, datetime.timedelta)) for x in at):
        f.add("has_datetime")
    if any(isinstance(x, (datetime.date, datetime.timedelta)) and not isinstance(x, datetime.datetime) for x in at):
        f.add("has_date_td")
    if any(isinstance(x, datetime.time) for x in at):
        f.add("has_time")
    if any(isinstance(x, float) and (x != x or math.isinf(x)) for x in at):
        f.add("has_nan_inf")
    if np is not None and any(isinstance(x, np.floating) for x in at):
        f.add("numpy_float")
    if np is not None and any(isinstance(x, Decimal) for x in at) and any(isinstance(x, np.generic) for x in at):
        f.add("decimal_and_numpy")
    for x in at:
        if is_number(x):
            try:
                if abs(to_dec(x)) >= 10 ** 12:
                    f.add("huge_number")
            except Exception:  # noqa
                pass
    if any(isinstance(k, (int, float)) for k in ks):
        f.add("numeric_key")
    if any(isinstance(k, bytes) for k in ks):
        f.add("bytes_key")
    if any(isinstance(k, datetime.datetime) for k in ks):
        f.add("datetime_key")
    if any(isinstance(k, ENUMS) for k in ks):
        f.add("enum_key")
    if any(isinstance(k, ENUMS) and isinstance(k.value, (int, float)) for k in ks):
        f.add("enum_key_num")
    if any(isinstance(k, ENUMS) and isinstance(k.value, bytes) for k in ks):
        f.add("enum_key_bytes")
    if any(isinstance(k, (datetime.date, datetime.time, datetime.timedelta)) and not isinstance(k, datetime.datetime) for k in ks):
        f.add("date_time_key")
    if any(is_nan(k) for k in ks):
        f.add("nan_key")
    nums = {}
    for k in ks:
        if isinstance(k, (bool, int, float)) and not is_nan(k):
            nums.setdefault(k, set()).add(type(k).__name__)
    if any(len(t) > 1 for t in nums.values()):
        f.add("alias_key")
    for d in dicts_of(a, []) + dicts_of(b, []):
        low = [k.lower() for k in d if isinstance(k, str)]
        dec = [k.decode("latin-1") if isinstance(k, bytes) else k for k in d if isinstance(k, (str, bytes))]
        if len(set(low)) < len(low) or len(set(dec)) < len(dec) or len(set(x.lower() for x in dec)) < len(dec):
            f.add("clean_collision")
        fl = [float(k) for k in d if isinstance(k, (int, float)) and not isinstance(k, bool) and not is_nan(k)]
        if len(fl) > 1:
            f.add("several_numeric_keys")
    sm = set_members(a, []) + set_members(b, [])
    if any(isinstance(x, str) and (":" in x or x.lower() == "none") for x in sm):
        f.add("tag_like_set_member")
    if D.set_alias(a, b) or xset_alias(a, b, {"enum": True}):
        f.add("set_alias")
    if any(isinstance(x, bool) for x in sm):
        f.add("bool_set_member")
    if any(isinstance(x, datetime.timedelta) for x in sm):
        f.add("timedelta_set_member")
    if any(isinstance(x, ENUMS) and x.value is None for x in at):
        f.add("enum_none")
    return sorted(f)


# --------------------------------------------------------------------------
# running the implementation
# --------------------------------------------------------------------------
def run_dd(a, b, **kw):
    """('ok', result) | ('raised', class name, message)"""
    from deepdiff import DeepDiff
    x, y = copy.deepcopy(a), copy.deepcopy(b)
    try:
        r = DeepDiff(x, y, **kw)
    except Exception as e:  # noqa
        return ("raised", type(e).__name__, str(e)[:200])
    return ("ok", r)


def strings_of(v, acc):
    if isinstance(v, ENUMS):
        v = v.value          # under use_enum_value the member's value reaches _diff_str
    if isinstance(v, (str, bytes)):
        acc.add(v if isinstance(v, str) else v.decode("latin-1"))
    elif isinstance(v, (list, tuple)):
        for x in v:
            strings_of(x, acc)
    elif isinstance(v, dict):
        for x in v.values():
            strings_of(x, acc)


def udiff_table(t1, t2, lower):
    a, b = set(), set()
    strings_of(t1, a)
    strings_of(t2, b)
    if lower:
        a = {s.lower() for s in a}
        b = {s.lower() for s in b}
    out = []
    for s in a:
        for t in b:
            if s != t and ("\n" in s or "\n" in t):
                out.append((s, t, "\n".join(difflib.unified_diff(s.splitlines(), t.splitlines(), lineterm=""))))
    return out


def atom_lists(v, acc):
    if isinstance(v, (list, tuple)):
        if D.all_atoms(v):
            acc.append(v)
        else:
            for x in v:
                atom_lists(x, acc)
    elif isinstance(v, dict):
        for x in v.values():
            atom_lists(x, acc)
    return acc


def tiles(ops, n, m):
    i = j = 0
    for tag, i1, i2, j1, j2 in ops:
        if i1 != i or j1 != j or i2 < i1 or j2 < j1:
            return False
        if tag == "equal" and i2 - i1 != j2 - j1:
            return False
        if tag == "delete" and (j2 != j1 or i2 == i1):
            return False
        if tag == "insert" and (i2 != i1 or j2 == j1):
            return False
        if tag == "replace" and (i2 == i1 or j2 == j1):
            return False
        i, j = i2, j2
    return i == n and j == m


def ops_table(t1, t2):
    """difflib opcodes for every pair (all-atom sequence of t1, all-atom
    sequence of t2) of the same container type: the model looks the opcodes up
    by the two sequences.  Returns (table, all opcode lists tile their inputs)"""
    out, ok = [], True
    for xs in atom_lists(t1, []):
        for ys in atom_lists(t2, []):
            if type(xs) is type(ys):
                ops = difflib.SequenceMatcher(isjunk=None, a=xs, b=ys, autojunk=False).get_opcodes()
                ok = ok and tiles(ops, len(xs), len(ys))
                out.append((xs, ys, ops))
    return out, ok


def coq_vlist(xs):
    return coq_list(V.to_coq(x) for x in xs)


def coq_ops2(tbl):
    return coq_list("(%s, %s, %s)" % (coq_vlist(xs), coq_vlist(ys),
                                      coq_list("mkOp %s %d %d %d %d" % (D.TAGS[o[0]], o[1], o[2], o[3], o[4]) for o in ops))
                    for xs, ys, ops in tbl)


HDR = ("From DD Require Import Base.PyStr Base.Value Diff.Tree Diff.DiffModel Diff.DiffShow Options.OptModel Options.OptDtModel Options.OptShow.\n"
       "Local Open Scope Z_scope.")


def in_model_universe(v):
    try:
        V.canon(v)
        return True
    except (AssertionError, TypeError, ValueError, OverflowError):
        return False


def model_case(args):
    """worker: one correspondence case on the modelled universe"""
    a, b, sp, zip_, thr, fam, name = args
    table = {}
    a, b = intern_atoms(a, table), intern_atoms(b, table)
    kw = kwargs_of(sp)
    r = run_dd(a, b, view="tree", verbose_level=2, zip_ordered_iterables=zip_, threshold_to_diff_deeper=thr, **kw)
    if r[0] == "ok":
        obs = ["ok", D.tree_obs(r[1])]
    else:
        obs = ["raised", r[1]]
    ut = udiff_table(a, b, sp["case"])
    ot, tile_ok = ops_table(a, b)
    expr = "run_sx %s %s %s %s %s %s" % (D.coq_udiff_table(ut), coq_ops2(ot), coq_cfg(zip_, thr, sp["private"]), coq_opts(sp),
                                          V.to_coq(a), V.to_coq(b))
    return expr, obs, tile_ok, len(ot)


# --------------------------------------------------------------------------
# the EXTENDED model universe (Options/XValue.v): arbitrary finite floats, datetimes with fixed offsets
# --------------------------------------------------------------------------
EPOCH = datetime.datetime(1970, 1, 1)
USEC = datetime.timedelta(microseconds=1)
XHDR = ("From DD Require Import Base.PyStr Options.OptModel Options.OptDtModel Options.YValue Options.YModel Options.YShow.\n"
        "Local Open Scope Z_scope.")
COQ_XTY = dict(COQ_TY, datetime="TDatetime", Decimal="TDecimal", date="TDate", time="TTime", timedelta="TTimedelta",
               E='(TEnum (s2p "E"))', G='(TEnum (s2p "G"))')
TUNITS = {None: "None", "second": "(Some USecond)", "minute": "(Some UMinute)", "hour": "(Some UHour)", "day": "(Some UDay)"}


def dt_parts(d):
    us = (d.replace(tzinfo=None) - EPOCH) // USEC
    off = None if d.tzinfo is None else int(d.utcoffset().total_seconds() // 60)
    return us, off


def time_us(t):
    return ((t.hour * 60 + t.minute) * 60 + t.second) * 1000000 + t.microsecond


def dec_parts(a):
    sign, digits, exp = a.as_tuple()
    m = int("".join(str(x) for x in digits) or "0")
    return (-m if sign else m), exp


def x_ok_evalue(v):
    if v is None or isinstance(v, bytes):
        return True
    if isinstance(v, str):
        return v.isascii()
    if type(v) is int:
        return abs(v) < 2 ** 53
    if type(v) is float:
        return math.isfinite(v) and abs(v) < 1e15 and not (v == 0 and math.copysign(1, v) < 0)
    return False


def x_ok_atom(a):
    if a is None or isinstance(a, (bool, str, bytes)):
        return not isinstance(a, str) or a.isascii()
    if type(a) is int:
        return abs(a) < 2 ** 53
    if type(a) is float:
        return a != a or (math.isfinite(a) and abs(a) < 1e15 and not (a == 0 and math.copysign(1, a) < 0))
    if type(a) is datetime.datetime:
        return a.tzinfo is None or (a.utcoffset().total_seconds() % 60 == 0 and a.utcoffset().microseconds == 0)
    if type(a) is Decimal:
        if not a.is_finite():
            return False
        m, e = dec_parts(a)
        return -12 <= e <= 6 and abs(m) < 10 ** 15 and not (m == 0 and a.is_signed())
    if type(a) is datetime.date:
        return True
    if type(a) is datetime.time:
        return a.tzinfo is None and a.microsecond % 15625 == 0      # dyadic fraction of a second: time_to_seconds is exact
    if type(a) is datetime.timedelta:
        return abs(a.days) < 100000
    if isinstance(a, ENUMS):
        return x_ok_evalue(a.value)
    return False


def in_xuniverse(v):
    if isinstance(v, (list, tuple)):
        return type(v) in (list, tuple) and all(in_xuniverse(x) for x in v)
    if isinstance(v, dict):
        return type(v) is dict and all(x_ok_atom(k) and in_xuniverse(x) for k, x in v.items())
    if isinstance(v, (set, frozenset)):
        return all(x_ok_atom(x) for x in v)
    return x_ok_atom(v)


def x_evalue_to_coq(v):
    if v is None:
        return "ENone"
    if isinstance(v, int):
        return "(EInt %s)" % coq_Z(v)
    if isinstance(v, float):
        m, den = v.as_integer_ratio()
        return "(EFloat %s %d%%N)" % (coq_Z(m), den.bit_length() - 1)
    if isinstance(v, str):
        return "(EStr %s)" % coq_pystr(v)
    if isinstance(v, bytes):
        return "(EBytes %s)" % coq_pystr(v)
    raise TypeError(v)


def x_atom_to_coq(a):
    if a is None:
        return "ANone"
    if a is True:
        return "(ABool true)"
    if a is False:
        return "(ABool false)"
    if isinstance(a, ENUMS):
        return "(AEnum %s %s %d%%nat %s)" % (coq_pystr(type(a).__name__), coq_pystr(a.name), list(type(a)).index(a), x_evalue_to_coq(a.value))
    if isinstance(a, int):
        return "(AInt %s)" % coq_Z(a)
    if isinstance(a, float):
        if a != a:
            return "(ANan %d%%nat)" % nan_id(a)
        m, den = a.as_integer_ratio()
        return "(AFloat %s %d%%N)" % (coq_Z(m), den.bit_length() - 1)
    if isinstance(a, str):
        return "(AStr %s)" % coq_pystr(a)
    if isinstance(a, bytes):
        return "(ABytes %s)" % coq_pystr(a)
    if isinstance(a, datetime.datetime):
        us, off = dt_parts(a)
        return "(ADt %s %s)" % (coq_Z(us), "None" if off is None else "(Some %s)" % coq_Z(off))
    if isinstance(a, Decimal):
        m, e = dec_parts(a)
        return "(ADec %s %s)" % (coq_Z(m), coq_Z(e))
    if isinstance(a, datetime.date):
        return "(ADate %s %s %s)" % (coq_Z(a.year), coq_Z(a.month), coq_Z(a.day))
    if isinstance(a, datetime.time):
        return "(ATime %s)" % coq_Z(time_us(a))
    if isinstance(a, datetime.timedelta):
        return "(ATd %s)" % coq_Z(a // USEC)
    raise TypeError(a)


def x_to_coq(v):
    if isinstance(v, list):
        return "(VList [%s])" % "; ".join(x_to_coq(x) for x in v)
    if isinstance(v, tuple):
        return "(VTuple [%s])" % "; ".join(x_to_coq(x) for x in v)
    if isinstance(v, dict):
        return "(VDict [%s])" % "; ".join("(%s, %s)" % (x_atom_to_coq(k), x_to_coq(x)) for k, x in v.items())
    if isinstance(v, frozenset):
        return "(VFrozen [%s])" % "; ".join(x_atom_to_coq(x) for x in v)
    if isinstance(v, set):
        return "(VSet [%s])" % "; ".join(x_atom_to_coq(x) for x in v)
    return "(VAtom %s)" % x_atom_to_coq(v)


def xcanon_atom(a):
    if a is None:
        return None
    if a is True or a is False:
        return ["b", a]
    if isinstance(a, ENUMS):
        return ["E", type(a).__name__, a.name, xcanon_atom(a.value)]
    if isinstance(a, int):
        return ["i", a]
    if isinstance(a, float):
        if a != a:
            return "nan"
        m, den = a.as_integer_ratio()
        return ["f", m, den.bit_length() - 1]
    if isinstance(a, str):
        return ["s", a]
    if isinstance(a, bytes):
        return ["y", a.decode("latin-1")]
    if isinstance(a, datetime.datetime):
        us, off = dt_parts(a)
        return ["d", us, None if off is None else ["Some", off]]
    if isinstance(a, Decimal):
        m, e = dec_parts(a)
        return ["D", m, e]
    if isinstance(a, datetime.date):
        return ["date", a.year, a.month, a.day]
    if isinstance(a, datetime.time):
        return ["time", time_us(a)]
    if isinstance(a, datetime.timedelta):
        return ["td", a // USEC]
    raise TypeError(a)


def xcanon(v):
    if isinstance(v, list):
        return ["L", [xcanon(x) for x in v]]
    if isinstance(v, tuple):
        return ["T", [xcanon(x) for x in v]]
    if isinstance(v, dict):
        return ["D", [[xcanon_atom(k), xcanon(x)] for k, x in v.items()]]
    if isinstance(v, frozenset):
        return ["F", core.sx_sorted([xcanon_atom(x) for x in v])]
    if isinstance(v, set):
        return ["S", core.sx_sorted([xcanon_atom(x) for x in v])]
    return xcanon_atom(v)


def xpath(level, use_t2=False):
    out = []
    lv = level.all_up
    while lv is not None and lv is not level:
        rel = (lv.t2_child_rel or lv.t1_child_rel) if use_t2 else (lv.t1_child_rel or lv.t2_child_rel)
        if rel is None:
            break
        parent = rel.parent
        if type(rel).__name__ == "AttributeRelationship":
            out.append(["a", rel.param])
        elif isinstance(parent, (list, tuple)):
            out.append(["x", rel.param])
        elif isinstance(parent, dict):
            out.append(["k", xcanon_atom(rel.param)])
        else:
            break
        lv = lv.down
    return out


def xtree_obs(tree):
    np_ = D.notpresent()
    out = []
    for kind in D.KINDS:
        for lv in tree.get(kind, []) or []:
            d = lv.additional.get("diff") if isinstance(lv.additional, dict) else None
            out.append([kind, xpath(lv), xpath(lv, True),
                        None if lv.t1 is np_ else ["Some", xcanon(lv.t1)], None if lv.t2 is np_ else ["Some", xcanon(lv.t2)],
                        None if d is None else ["Some", d]])
    return core.sx_sorted(out)


def xcoq_opts(sp):
    def opt(x, f):
        return "None" if x is None else "(Some %s)" % f(x)

    def dy(x):
        m, den = float(x).as_integer_ratio()
        return "(%s, %d%%N)" % (coq_Z(m), den.bit_length() - 1)
    return "(mkOpts %s %s %s %s %s %s %s %s %s %s %s)" % (
        core.coq_bool(sp["case"]), core.coq_bool(sp["strty"]), core.coq_bool(sp["numty"]),
        opt(sp["sig"], lambda d: "%d%%N" % d), opt(sp["eps"], dy), coq_list(COQ_XTY[t] for t in sp["excl"]),
        TUNITS[sp["trunc"]], coq_Z(sp["tz"] or 0), core.coq_bool(sp["nan"]), core.coq_bool(sp["enum"]), core.coq_bool(sp.get("note", False)))


def xcoq_vlist(xs):
    return coq_list(x_to_coq(x) for x in xs)


def has_datetime(*vals):
    return any(isinstance(x, datetime.datetime) for v in vals for x in all_atoms_of(v, []))


def xset_alias(a, b, sp):
    """two == set members of different type / representation anywhere in the two inputs (1 / 1.0 / Decimal('1') / Decimal('1.0'),
    and under use_enum_value a member and its value): the DeepHash memo table of the run, keyed by ==, serves ONE hash text
    for both (finding K2 = C11-MEMO-SET; the memo is outside the model)"""
    sm = set_members(a, []) + set_members(b, [])
    if sp["enum"]:
        sm = [x.value if isinstance(x, ENUMS) else x for x in sm]
    nums = [x for x in sm if isinstance(x, (int, float, Decimal)) and not isinstance(x, bool) and x == x]
    for i, x in enumerate(nums):
        for y in nums[i + 1:]:
            if x == y and (type(x) is not type(y) or repr(x) != repr(y)):
                return True
    return D.set_alias(a, b)


def enum_meets_container(a, b):
    """a str / bytes valued Enum member on one side, a container at the same position on the other (under use_enum_value the code
    iterates the value as a sequence of characters: outside the model)"""
    def cont(v):
        return isinstance(v, (list, tuple, dict, set, frozenset))

    def strenum(v):
        return isinstance(v, ENUMS) and isinstance(v.value, (str, bytes))
    if (cont(a) and strenum(b)) or (cont(b) and strenum(a)):
        return True
    if type(a) is type(b) and isinstance(a, (list, tuple)):
        # positional pairs (zip mode); in the default mode an all-atom list never pairs an atom with a container
        return any(enum_meets_container(x, y) for x, y in zip(a, b))
    if isinstance(a, dict) and isinstance(b, dict):
        return any(enum_meets_container(x, y) for x in a.values() for y in b.values())
    return False


def enum_internal_alias(a, b, sp):
    """a set member that is ==-equal to an INTERNAL of an Enum member among the set members of the run, but of another type /
    representation (1.0, Decimal('1'), 0.0 against G.P = 1 with _sort_order_ 0; Decimal('1.5') against G.W = 1.5).  Without
    use_enum_value DeepHash hashes an Enum member through _prep_obj, which stores its _value_, _name_ and _sort_order_ in the run-wide
    ==-keyed table; a later lookup of the ==-equal set member hits that entry BEFORE _skip_this is asked, so the member gets the text
    of the internal (and a member of an excluded type is hashed after all).  The memo model (Options/YMemo.v: stored_internals,
    minsert) stores these internals too: such runs are compared with the memo model (run_memoF), not with the table-free one.
    Confirmed on the implementation:
    DeepDiff({'a': {G.P}, 'b': frozenset([1.0])}, {'a': {G.P}, 'b': frozenset([Decimal('1')])}, exclude_types=[float]) == {}
    while the same with G.T (= 2, _sort_order_ 4) reports set_item_added."""
    if sp["enum"]:
        return False          # the member is replaced by its value before the lookup: YMemo.unwrap
    sm = set_members(a, []) + set_members(b, [])
    internals = []
    for m in sm:
        if isinstance(m, ENUMS):
            internals += [m.value, m.name, list(type(m)).index(m)]          # _value_, _name_, _sort_order_
    if not internals:
        return False
    for x in sm:
        if isinstance(x, ENUMS) or isinstance(x, bool):                     # bools live under BoolObj keys
            continue
        for i in internals:
            if isinstance(i, bool):
                continue
            if _eq(x, i) and (type(x) is not type(i) or repr(x) != repr(i)):
                return True
    return False


def xmodel_case(args):
    """worker: one correspondence case of the extended model"""
    a, b, sp, zip_, thr, fam, name = args
    a, b = unpack(a), unpack(b)
    kw = kwargs_of(sp)
    r = run_dd(a, b, view="tree", verbose_level=2, zip_ordered_iterables=zip_, threshold_to_diff_deeper=thr, **kw)
    if r[0] == "ok":
        try:
            obs = ["ok", xtree_obs(r[1])]
        except TypeError:
            obs = ["unrepresentable"]
    else:
        obs = ["raised", r[1]]
    ut = udiff_table(a, b, sp["case"])
    ot, tile_ok = ops_table(a, b)
    ops = coq_list("(%s, %s, %s)" % (xcoq_vlist(xs), xcoq_vlist(ys),
                                     coq_list("mkOp %s %d %d %d %d" % (D.TAGS[o[0]], o[1], o[2], o[3], o[4]) for o in op))
                   for xs, ys, op in ot)
    expr = "%s %s %s %s %s %s %s" % ("ymrun_sx" if fam == "memo" else "yrun_sx", D.coq_udiff_table(ut), ops,
                                      coq_cfg(zip_, thr, sp["private"]), xcoq_opts(sp), x_to_coq(a), x_to_coq(b))
    # the guard of C11x_never_raises_partial as a Coq boolean on this real run: safe => the implementation did not raise
    gexpr = "ysafe_sx %s %s %s %s" % (xcoq_opts(sp), x_to_coq(a), x_to_coq(b), core.coq_bool(obs[0] == "raised"))
    return expr, obs, tile_ok, len(ot), gexpr, ("unsafe" if obs[0] == "raised" else None)


def xsingles(rng):
    return [("case", mk(case=True)), ("strty", mk(strty=True)), ("numty", mk(numty=True)),
            ("sig", mk(sig=rng.choice([0, 1, 2, 3, 4]))), ("eps", mk(eps=rng.choice([0.5, 1.0, 0.25, 0.01, 1e-3, 0.3, 0.0]))),
            ("excl", mk(excl=rng.choice([["int"], ["str"], ["float"], ["datetime"], ["list"], ["dict"], ["int", "datetime"],
                                         ["Decimal"], ["date"], ["E"], ["time", "timedelta"]]))),
            ("private", mk(private=True, base_private=False)),
            ("trunc", mk(trunc=rng.choice(["second", "minute", "hour", "day"]))), ("tz", mk(tz=rng.choice([0, 120, -300, 330, 345]))),
            ("nan", mk(nan=True)), ("enum", mk(enum=True)), ("sig_e", mk(sig=rng.choice([0, 1, 2, 3]), note=True))]


def xspecs(rng):
    """the options of the extended model, singles and pairs"""
    singles = xsingles(rng)
    out = list(singles)
    singles2 = xsingles(rng)
    for i in range(len(singles)):
        for j in range(i + 1, len(singles)):
            if {singles[i][0], singles2[j][0]} == {"sig", "sig_e"}:
                continue
            out.append((singles[i][0] + "+" + singles2[j][0], combine(singles[i][1], singles2[j][1])))
    return out


# --------------------------------------------------------------------------
# the direct oracle (no model involved)
# --------------------------------------------------------------------------
def oracle_case(args):
    """worker: the three clauses on one pair; returns a list of failures"""
    a, b, sp, zip_, fam, name, log = args
    a, b = unpack(a), unpack(b)
    extra = {"zip_ordered_iterables": True} if zip_ else {}
    base = run_dd(a, b, **kwargs_of(sp, base=True), **extra)
    opt = run_dd(a, b, **kwargs_of(sp), **extra)
    fails = []

    def case(clause, what):
        return {"clause": clause, "family": fam, "options": name, "spec": sp, "zip": zip_, "t1": lit_top(a), "t2": lit_top(b),
                "altered": sorted(set("%s@%s" % x for x in log)), "features": features(a, b),
                "plain": base[0] if base[0] == "raised" else ("empty" if not base[1] else "nonempty"),
                "plain_exc": base[1] if base[0] == "raised" else None,
                "with_options": opt[1] if opt[0] == "raised" else ("empty" if not opt[1] else str(dict(opt[1]))[:300]),
                "exc": opt[1] if opt[0] == "raised" else None, "exc_msg": opt[2] if opt[0] == "raised" else None,
                "kinds": sorted(opt[1].keys()) if opt[0] == "ok" else None, "what": what,
                "n_reports": None if opt[0] == "raised" else sum(len(v) if hasattr(v, "__len__") else 1 for v in opt[1].values())}
    if fam == "alt":
        if opt[0] == "raised" and base[0] == "raised":
            pass      # DeepDiff rejects the pair with and without the options (e.g. Decimal == numpy scalar inside difflib): not C11's business
        elif opt[0] == "raised":
            fails.append(case("A", "DeepDiff(x, normalise_F(x), **F) raises %s" % opt[1]))
        elif opt[1]:
            fails.append(case("A", "DeepDiff(x, normalise_F(x), **F) is not empty"))
    if base[0] == "ok" and not base[1]:
        if opt[0] == "ok" and opt[1]:
            fails.append(case("B", "the plain diff is empty but the diff under the options is not"))
    if base[0] == "ok" and opt[0] == "raised" and not (fam == "alt" and fails):
        fails.append(case("C", "DeepDiff accepts the inputs without the options and raises %s with them" % opt[1]))
    # clause D (composition): an option added to other options only removes differences - for every single option S of the set,
    # DeepDiff(a, b, **S) == {}  ==>  DeepDiff(a, b, **F) == {}
    subs = sub_specs(sp) if (fam in ("alt", "alias") or name.startswith(("focus", "hand"))) else []
    if subs and opt[0] == "ok" and opt[1]:
        for oname, sub in subs:
            r = run_dd(a, b, **kwargs_of(sub), **extra)
            if r[0] == "ok" and not r[1]:
                f = case("D", "the diff under %s alone is empty but the diff under the whole option set is not" % oname)
                f["sub_option"] = oname
                fails.append(f)
                break
    nontrivial = lit(a) != lit(b)
    return fails, nontrivial, (base[0], opt[0], bool(base[0] == "ok" and not base[1]), bool(opt[0] == "ok" and not opt[1]))


# --------------------------------------------------------------------------
# known findings: narrow recognisers of failing cases
# --------------------------------------------------------------------------
def _cleaning(sp):
    return sp["case"] or sp["strty"] or sp["numty"]


def _msg(c, *subs):
    m = c.get("exc_msg")
    return m is None or any(x in m for x in subs)      # cases recorded before exc_msg existed carry no message


def _kinds(c, allowed):
    k = c.get("kinds")
    return k is None or (len(k) > 0 and set(k) <= set(allowed))


KEY_KINDS = ("dictionary_item_added", "dictionary_item_removed", "values_changed", "type_changes")


def m_dtkey(c):
    return (c["exc"] == "TypeError" and _msg(c, "__round__") and _cleaning(c["spec"])
            and ("datetime_key" in c["features"] or "date_time_key" in c["features"]) and c["clause"] in ("A", "C"))


def m_enum_none(c):
    """use_enum_value: a member whose value is None against None is reported as None -> None"""
    return (c["clause"] == "A" and c["exc"] is None and c["spec"]["enum"] and "enum_none" in c["features"]
            and "'new_value': None, 'old_value': None" in str(c["with_options"]))


def m_trunc_date(c):
    """truncate_datetime: datetime_normalize calls .replace(microsecond=...) on date (TypeError) and timedelta (AttributeError) leaves"""
    return (c["exc"] in ("TypeError", "AttributeError") and _msg(c, "replace") and c["spec"]["trunc"] is not None
            and "has_date_td" in c["features"] and c["clause"] in ("A", "C"))


def m_sig_td_set(c):
    """a timedelta set member under a precision: DeepHash._prep_number -> round(timedelta)"""
    sp = c["spec"]
    return (c["exc"] == "TypeError" and _msg(c, "timedelta doesn't define __round__") and (sp["sig"] is not None or sp["numty"])
            and "timedelta_set_member" in c["features"] and c["clause"] in ("A", "C"))


def m_sig0_nan(c):
    """significant_digits=0: number_to_string does int(round(x, 0)), which raises on nan / inf"""
    return (c["exc"] in ("ValueError", "OverflowError") and _msg(c, "cannot convert float") and c["spec"]["sig"] == 0
            and "has_nan_inf" in c["features"] and c["clause"] in ("A", "C"))


def m_excl_default_list(c):
    """exclude_types in the default list mode: the difflib pass keeps ONE report of a non-excluded item"""
    return (c["clause"] == "A" and c["exc"] is None and not c["zip"] and bool(c["spec"]["excl"])
            and any(x.endswith("@leaf") or x.endswith("@sub") for x in c["altered"])
            and c.get("n_reports") == 1)      # the signature: exactly ONE report survives, so the pairwise pass is not tried


def m_num_precision(c):
    """equal numbers of different type are rendered differently when the magnitude exceeds what the float detour of
    number_to_string keeps: '{:.12f}'.format(int) goes through float (ints beyond 2^53), numpy's round(x, 12) multiplies by 10^12"""
    return (c["clause"] in ("A", "D") and c["exc"] is None and _kinds(c, ("values_changed",))
            and any(x.startswith("numty@") for x in c["altered"]) and ("huge_number" in c["features"] or "numpy_float" in c["features"]))


def m_numpy_decimal(c):
    """Decimal == numpy scalar raises TypeError inside difflib / dict lookups as soon as two such items meet in a list"""
    return c["exc"] == "TypeError" and "decimal_and_numpy" in c["features"] and c["clause"] in ("A", "C")


def m_excl_set(c):
    """a set member whose TYPE was changed (str <-> bytes, int <-> float) into / out of an excluded type"""
    if c["clause"] == "D":
        return (c["exc"] is None and bool(c["spec"]["excl"]) and c.get("sub_option") in ("strty", "numty")
                and "set_item" in str(c["with_options"]))
    return (c["clause"] in ("A", "B") and c["exc"] is None and bool(c["spec"]["excl"])
            and any(x in ("strty@set", "numty@set") for x in c["altered"]) and "set_item" in str(c["with_options"]))


def m_enum_type(c):
    """use_enum_value switches the type check off when ONE side is an enum member; the comparer chosen by the type of t1
    then meets an operand of another type"""
    return c["exc"] in ("TypeError", "AttributeError") and c["spec"]["enum"] and "has_enum" in c["features"] and c["clause"] in ("A", "C")


def m_numgroup_dt(c):
    """helper.numbers contains the datetime types: under ignore_numeric_type_changes a datetime and a number pass the
    type check and reach _diff_datetime / number_to_string with the wrong operand"""
    return (c["exc"] in ("TypeError", "AttributeError") and _msg(c, "__round__", "replace", "must be real number")
            and c["spec"]["numty"] and "has_datetime" in c["features"] and c["clause"] in ("A", "C"))


def _only(c, aspects, places):
    alt = c["altered"]
    return c["clause"] == "A" and c["exc"] is None and any(x.split("@")[0] in aspects and x.split("@")[1] in places for x in alt)


def m_num_key(c):
    """a numeric perturbation (significant_digits without a key-cleaning option, math_epsilon always) at a dict key"""
    sp = c["spec"]
    # (a perturbed key can coincide with another key of the dict: then the values under it are compared, any kind of report)
    return _only(c, ("eps",), ("key",)) or (_only(c, ("sig",), ("key",)) and not _cleaning(sp))


def m_eps_set(c):
    return _only(c, ("eps",), ("set",)) and "set_item" in str(c["with_options"])


def m_eps_over_sig(c):
    sp = c["spec"]
    if c["clause"] == "D":      # the rendering comparison (significant_digits, or the 12 digits of ignore_numeric_type_changes) found the numbers equal
        return sp["eps"] is not None and c.get("sub_option") in ("sig", "numty") and c["exc"] is None and _kinds(c, ("values_changed",))
    return sp["eps"] is not None and sp["sig"] is not None and _only(c, ("sig",), ("leaf", "key", "set"))


def m_excl_key(c):
    return _only(c, ("excl",), ("key",)) and _kinds(c, KEY_KINDS)


def m_bytes_key_case(c):
    return _only(c, ("case",), ("key",)) and not c["spec"]["strty"] and "bytes_key" in c["features"] and _kinds(c, KEY_KINDS)


def m_enum_key(c):
    """use_enum_value at a dict key: not applied without a key-cleaning option; with one, the member's value is taken
    but not cleaned further (E.C -> 2.5 against the key 2.5 -> 'number:2.500000000000')"""
    if not _only(c, ("enum",), ("key",)) or not _kinds(c, KEY_KINDS):
        return False
    sp = c["spec"]
    if not _cleaning(sp):
        return True
    return (("enum_key_num" in c["features"] and (sp["sig"] is not None or sp["numty"]))
            or ("enum_key_bytes" in c["features"] and sp["strty"]))


def m_nan_key(c):
    """a nan dict key anywhere: its copy is another object and nan != nan"""
    return c["clause"] == "A" and c["exc"] is None and c["spec"]["nan"] and "nan_key" in c["features"] and _kinds(c, KEY_KINDS)


def m_dt_key_set(c):
    return ((_only(c, ("trunc",), ("key", "set")) or _only(c, ("tz",), ("key",)))
            and _kinds(c, KEY_KINDS + ("set_item_added", "set_item_removed")))


def m_trunc_tz(c):
    """truncation is done in the datetime's own zone BEFORE the conversion to default_timezone: two renderings of one
    instant in different zones truncate to different instants"""
    return (c["spec"]["trunc"] is not None and "has_datetime" in c["features"] and c["exc"] is None
            and _kinds(c, ("values_changed",)) and "datetime" in str(c["with_options"])
            and (c["clause"] in ("B", "D") or (c["clause"] == "A" and any(x.startswith("tz@") for x in c["altered"]))))


def m_collision(c):
    return (c["clause"] in ("A", "B", "D") and c["exc"] is None and _cleaning(c["spec"]) and "clean_collision" in c["features"]
            and _kinds(c, KEY_KINDS + ("type_changes", "iterable_item_added", "iterable_item_removed", "set_item_added", "set_item_removed")))


def m_alias_key(c):
    sp = c["spec"]
    return (c["clause"] in ("B", "D") and c["exc"] is None and _cleaning(sp) and not sp["numty"] and sp["sig"] is not None
            and "alias_key" in c["features"] and _kinds(c, KEY_KINDS))


def m_tag_set(c):
    return c["clause"] in ("B", "D") and "tag_like_set_member" in c["features"] and "set_item" in str(c["with_options"])


def m_memo_set(c):
    """plain run: 1 / 1.0 among set members share one hash through the memo table (K2); an option that changes the
    hash text of numbers (significant_digits) or drops members (exclude_types) interacts with it"""
    return c["clause"] in ("A", "B", "D") and c["exc"] is None and "set_alias" in c["features"] and "set_item" in str(c["with_options"])


MATCHERS = {
    "C11-DATETIME-KEY": m_dtkey,
    "C11-ENUM-NONE": m_enum_none,
    "C11-TRUNC-DATE": m_trunc_date,
    "C11-SIG-TIMEDELTA-SET": m_sig_td_set,
    "C11-ENUM-TYPE": m_enum_type,
    "C11-SIG0-NAN": m_sig0_nan,
    "C11-EXCL-SET": m_excl_set,
    "C11-NUM-PRECISION": m_num_precision,
    "C11-NUMPY-DECIMAL-EQ": m_numpy_decimal,
    "C11-EXCL-DEFAULT-LIST": m_excl_default_list,
    "C11-NUMGROUP-DATETIME": m_numgroup_dt,
    "C11-NUM-KEY": m_num_key,
    "C11-EPS-SET": m_eps_set,
    "C11-EPS-OVER-SIG": m_eps_over_sig,
    "C11-EXCL-KEY": m_excl_key,
    "C11-BYTES-KEY-CASE": m_bytes_key_case,
    "C11-ENUM-KEY": m_enum_key,
    "C11-NAN-KEY": m_nan_key,
    "C11-KEY-COLLISION": m_collision,
    "C11-ALIAS-KEY": m_alias_key,
    "C11-TAG-SET": m_tag_set,
    "C11-MEMO-SET": m_memo_set,
    "C11-DATETIME-KEY-SET": m_dt_key_set,
    "C11-TRUNC-BEFORE-TZ": m_trunc_tz,
}


# --------------------------------------------------------------------------
# atom-level correspondence
# --------------------------------------------------------------------------
def atom_level(ctx, n):
    from deepdiff.helper import number_to_string
    from deepdiff import DeepHash
    rng = ctx.rng
    cases = []
    for _ in range(n):
        e = rng.choice([0, 0, 1, 1, 2, 3, 5, 8, 12])
        m = rng.randint(-(1 << (e + rng.randint(1, 12))), 1 << (e + rng.randint(1, 12)))
        if rng.random() < 0.3:      # ties: odd multiples of 1/2 of the last kept digit where representable
            m = (2 * rng.randint(-40, 40) + 1) << max(e - 1, 0)
        d = rng.randint(0, 6)
        x = m / (1 << e) if e else m
        exp = number_to_string(x, significant_digits=d, number_format_notation="f")
        cases.append(("num_str_sx %d%%N %s %d%%N" % (d, coq_Z(m), e), exp, {"number_to_string": [repr(x), d]}))
        ctx.seen(("ns", m, e, d))
    for _ in range(n):
        e1, e2 = rng.choice([0, 1, 1, 4, 12]), rng.choice([0, 1, 1, 4, 12])
        m1 = rng.randint(-(1 << (e1 + 8)), 1 << (e1 + 8))
        m2 = rng.choice([m1, rng.randint(-(1 << (e2 + 8)), 1 << (e2 + 8)), (m1 << e2 >> e1) + rng.randint(-3, 3)])
        eps = rng.choice([0.5, 1.0, 0.25, 0.01, 1e-3, 2.0, 0.3, 1e-9, 0.0])
        x = m1 / (1 << e1) if e1 else m1
        y = m2 / (1 << e2) if e2 else m2
        me, de = float(eps).as_integer_ratio()
        exp = math.isclose(x, y, abs_tol=eps)
        cases.append(("is_close_sx %s %d%%N %s %d%%N %s %d%%N" % (coq_Z(m1), e1, coq_Z(m2), e2, coq_Z(me), de.bit_length() - 1),
                      exp, {"isclose": [repr(x), repr(y), eps]}))
        ctx.seen(("ic", m1, e1, m2, e2, eps))
    specs = all_specs(rng, True)
    for _ in range(n):
        name, sp = rng.choice(specs)
        a = gen_atom(rng)
        kw = {k: v for k, v in kwargs_of(sp).items() if k in ("ignore_string_case", "ignore_string_type_changes",
                                                             "ignore_numeric_type_changes", "significant_digits")}
        exp = DeepHash(a, hasher=lambda s: s, **kw)[a]
        cases.append(("hatom_sx %s %s" % (coq_opts(sp), V.atom_to_coq(a)), exp, {"hash_text": [repr(a), name]}))
        ctx.seen(("ha", name, repr(a)))
    # hash text of dyadic floats (<= 8 fractional bits: repr is the exact expansion) in the extended model
    xcases = []
    for _ in range(n // 2):
        name, sp = rng.choice(specs)
        e = rng.choice([0, 1, 2, 3, 5, 8])
        a = rng.randint(-(1 << (e + 9)), 1 << (e + 9)) / (1 << e)
        if a == 0 and math.copysign(1, a) < 0:
            a = 0.0
        kw = {k: v for k, v in kwargs_of(sp).items() if k in ("ignore_string_case", "ignore_string_type_changes",
                                                             "ignore_numeric_type_changes", "significant_digits")}
        exp = DeepHash(a, hasher=lambda s: s, **kw)[a]
        xcases.append(("yhatom_sx %s %s" % (xcoq_opts(sp), x_atom_to_coq(a)), exp, {"hash_text_float": [repr(a), name]}))
        ctx.seen(("xha", name, repr(a)))
    # ---- the numeric core of the extended model: number_to_string in both notations on int / float / Decimal / nan / bool,
    #      float(Decimal), time_to_seconds, == across number types, equality of DeepHash texts of the new kinds of atoms
    def rnd_float():
        k = rng.random()
        if k < 0.3:
            e = rng.choice([1, 2, 3, 5, 8, 12])
            return rng.randint(-(1 << (e + 10)), 1 << (e + 10)) / (1 << e)
        if k < 0.6:
            return round(rng.uniform(-500, 500), rng.randint(0, 6))
        if k < 0.8:
            return rng.choice([10.35, 2.675, 0.1 + 0.2, 12.25, 99.96, 0.000123, 1e-7, 0.5, 1.5, 2.5, 0.125, 1005.0, 0.045, 9.995, 0.05])
        return rng.uniform(-3, 3) * 10 ** rng.randint(-5, 5)

    def rnd_dec():
        k = rng.random()
        if k < 0.4:
            return Decimal(rng.choice(XDECS))
        if k < 0.8:
            return Decimal(rng.randint(-10 ** 6, 10 ** 6)).scaleb(-rng.randint(0, 7))
        return Decimal(rng.randint(-999, 999)).scaleb(rng.randint(-9, 4))
    for _ in range(n):
        d = rng.randint(0, 6)
        note = rng.random() < 0.5
        k = rng.random()
        x = (rng.randint(-10 ** 6, 10 ** 6) if k < 0.2 else rnd_float() if k < 0.55 else rnd_dec() if k < 0.9
             else rng.choice([True, False, float("nan"), datetime.timedelta(1), datetime.date(2024, 1, 2), "x"]))
        if isinstance(x, float) and x == 0 and math.copysign(1, x) < 0:
            x = 0.0
        if not x_ok_atom(x):
            continue
        try:
            r = number_to_string(x, significant_digits=d, number_format_notation="e" if note else "f")
            exp = "asis" if r is x else ["ok", r]
        except Exception as ex:  # noqa
            exp = ["raised", type(ex).__name__]
        xcases.append(("ynstr_sx %s %d%%N %s" % (xcoq_opts(mk(note=note)), d, x_atom_to_coq(x)), exp,
                       {"number_to_string": [lit(x), d, "e" if note else "f"]}))
        ctx.seen(("yns", lit(x), d, note))
    for _ in range(n // 2):
        x = rnd_dec()
        if not x_ok_atom(x):
            continue
        m, e = dec_parts(x)
        fm, fden = float(x).as_integer_ratio()
        xcases.append(("yfloat_sx %s %s" % (coq_Z(m), coq_Z(e)), [fm, fden.bit_length() - 1], {"float(Decimal)": str(x)}))
        t = datetime.time(rng.randint(0, 23), rng.randint(0, 59), rng.randint(0, 59), rng.choice([0, 250000, 500000, 15625, 984375, 125000]))
        from deepdiff.helper import time_to_seconds
        xcases.append(("ysecs_sx %s" % coq_Z(time_us(t)), xcanon_atom(time_to_seconds(t)), {"time_to_seconds": lit(t)}))
        ctx.seen(("yfl", str(x), lit(t)))
    pool_num = [1, 1.0, True, 0, False, 1.5, Decimal("1.5"), Decimal("1.50"), Decimal("1"), 2, Decimal("2"), 0.1, Decimal("0.1"), 2.5, Decimal("1E+2"), 100,
                NANS[0], NANS[1], E.A, G.P, E.C, G.W, None, G.S, "x", b"x", E.B]
    for _ in range(n // 2):
        a, b = rng.choice(pool_num), rng.choice(pool_num)
        xcases.append(("ypyeq_sx %s %s" % (x_atom_to_coq(a), x_atom_to_coq(b)), bool(a is b or _eq(a, b)), {"lookup_eq": [lit(a), lit(b)]}))
        ctx.seen(("ypy", lit(a), lit(b)))
    hspecs = [mk(), mk(case=True), mk(strty=True), mk(numty=True), mk(sig=1), mk(sig=2, note=True), mk(enum=True), mk(enum=True, case=True),
              mk(enum=True, sig=1), mk(numty=True, enum=True), mk(tz=120)]
    hpool = [E.A, E.B, E.D, G.P, G.Q, G.R, G.T, G.W, E.C, 1, "x", "X", "Ab", b"Ab", 1.5, 2, 2.5, Decimal("1.5"), Decimal("1.50"), Decimal("1.54"),
             Decimal("2"), datetime.date(2024, 1, 2), datetime.date(2024, 1, 3), datetime.time(1, 2, 3), datetime.time(1, 2, 3, 500000),
             datetime.time(1, 2, 4), datetime.timedelta(1), datetime.timedelta(seconds=86400), datetime.timedelta(2), NANS[0], NANS[1], 1.54,
             _dt(2024, 1, 2, 0, 0, 0, 0), None, G.S]
    for _ in range(n):
        sp = rng.choice(hspecs)
        a, b = rng.choice(hpool), rng.choice(hpool)
        kw = {k: v for k, v in kwargs_of(sp).items() if k in ("ignore_string_case", "ignore_string_type_changes", "ignore_numeric_type_changes",
                                                             "significant_digits", "number_format_notation", "use_enum_value", "default_timezone")}
        try:
            exp = DeepHash(a, hasher=lambda s: s, **kw)[a] == DeepHash(b, hasher=lambda s: s, **kw)[b]
        except Exception:  # noqa  (timedelta under a precision: C11-SIG-TIMEDELTA-SET)
            continue
        xcases.append(("yhash_eq_sx %s %s %s" % (xcoq_opts(sp), x_atom_to_coq(a), x_atom_to_coq(b)), bool(exp),
                       {"hash_text_equal": [lit(a), lit(b), active(sp)]}))
        ctx.seen(("yhe", lit(a), lit(b), str(active(sp))))
    ctx.coq_cases("c11_xatoms", XHDR, xcases, shard=400, label="atom_level(extended model: hash texts, number_to_string f/e on int/float/Decimal/nan, float(Decimal), time_to_seconds, ==)")
    # datetimes: helper.datetime_normalize + the comparison of _diff_datetime against dt_instant / dt_changed
    from deepdiff.helper import datetime_normalize
    epoch_utc = datetime.datetime(1970, 1, 1, tzinfo=datetime.timezone.utc)
    epoch = datetime.datetime(1970, 1, 1)
    one = datetime.timedelta(microseconds=1)
    units = {None: 0, "second": 1, "minute": 2, "hour": 3, "day": 4}

    def wall(d):
        return (d.replace(tzinfo=None) - epoch) // one

    def off(d):
        return "None" if d.tzinfo is None else "(Some %s)" % coq_Z(int(d.utcoffset().total_seconds() // 60))
    for _ in range(n):
        tr = rng.choice([None, "second", "minute", "hour", "day"])
        dtz = rng.choice([0, 120, -300, 330, 345, -210])
        tz = datetime.timezone(datetime.timedelta(minutes=dtz))
        d1 = gen_dt(rng)
        r = rng.random()
        if r < 0.3:
            d2 = gen_dt(rng)
        elif r < 0.6 and d1.tzinfo is not None:
            d2 = d1.astimezone(datetime.timezone(datetime.timedelta(minutes=rng.choice([0, 60, -480, 345, 330]))))
        elif r < 0.8:
            d2 = d1.replace(second=rng.randint(0, 59), microsecond=rng.choice([0, 1, 999999]))
        else:
            d2 = d1.replace(tzinfo=tz) if d1.tzinfo is None else d1.replace(minute=rng.randint(0, 59))
        n1 = datetime_normalize(tr, d1, default_timezone=tz)
        n2 = datetime_normalize(tr, d2, default_timezone=tz)
        cases.append(("dt_instant_sx %d %s %s %s" % (units[tr], coq_Z(dtz), coq_Z(wall(d1)), off(d1)), (n1 - epoch_utc) // one,
                      {"datetime_normalize": [lit(d1), tr, dtz]}))
        cases.append(("dt_changed_sx %d %s %s %s %s %s" % (units[tr], coq_Z(dtz), coq_Z(wall(d1)), off(d1), coq_Z(wall(d2)), off(d2)),
                      bool(n1 != n2), {"_diff_datetime": [lit(d1), lit(d2), tr, dtz]}))
        ctx.seen(("dt", lit(d1), lit(d2), tr, dtz))
    ctx.coq_cases("c11_atoms", HDR, cases, shard=400, label="atom_level(number_to_string,isclose,hash text,datetime_normalize)")


# --------------------------------------------------------------------------
# case generation
# --------------------------------------------------------------------------
def gen_pairs(rng, sp, n, rich):
    """[(family, a, b, log)]"""
    global _NUMX
    _NUMX = bool(rich and (sp["numty"] or sp["sig"] is not None or sp["eps"] is not None))
    out = []
    for i in range(n):
        numeric_ok = True
        bytes_ok = rng.random() < (0.7 if sp["strty"] else 0.25)
        a = gen_value(rng, rng.choice([1, 2, 2, 3]), rng.choice([2, 3, 4]), bytes_ok, numeric_ok, rich, sp["nan"])
        if sp["excl"] and rng.random() < 0.25:      # an all-atom list rich in atoms of the excluded types
            pool = [atom_of_types(rng, sp["excl"], rich) for _ in range(3)] + [rng.choice(STRS[:4]), rng.choice(STRS[:4]), 7.5]
            a = [rng.choice(pool) for _ in range(rng.randint(3, 6))]
            if rng.random() < 0.5:
                a = {"k": a}
        if rng.random() < 0.13:      # ONE container object at two positions of t1 (the model is fed the unfolded tree)
            try:
                a2, ok = V.share(rng, a)
            except Exception:  # noqa
                ok = False
            if ok:
                a = a2
        r = rng.random()
        log = []
        if _NUMX and not _XU and rng.random() < 0.3:
            # focus: a small structure of numbers of many types (Decimal, numpy scalars, extreme magnitudes), altered almost everywhere
            xs = [numx_atom(rng) if rng.random() < 0.7 else gen_atom(rng, True) for _ in range(rng.randint(1, 4))]
            a = rng.choice([lambda: {"p": xs[0], "q": xs[1:]}, lambda: list(xs), lambda: {"k": {"n": xs[0]}, "l": tuple(xs[1:])},
                            lambda: xs[0]])()
            r = 0.0
        if r < 0.5:
            b = normalise(rng, a, sp, rich, rng.choice([0.3, 0.6, 0.9]) if not _NUMX else 0.9, log)
            fam = "alt"
        elif r < 0.68:
            b = normalise(rng, a, sp, rich, 0.4, log)
            for _ in range(4):
                try:
                    b2, k = V.edit(rng, b, alias=True, strings=STRS)
                except Exception:  # noqa  (edit helpers do not know the rich atoms)
                    k = None
                if k is not None:
                    b = b2
                    break
            fam = "near"
        elif r < 0.86:
            b = alias_copy(rng, a)
            fam = "alias"
        else:
            if rng.random() < 0.5:
                b = gen_value(rng, 2, 3, bytes_ok, numeric_ok, rich, sp["nan"])
            else:
                b = a
                for _ in range(rng.randint(1, 3)):
                    try:
                        b2, k = V.edit(rng, b, alias=True, strings=STRS)
                    except Exception:  # noqa
                        k = None
                    if k is not None:
                        b = b2
            fam = "rand"
        if rng.random() < 0.08:      # ... and of t2
            try:
                b2, ok = V.share(rng, b)
            except Exception:  # noqa
                ok = False
            if ok and lit(b2) == lit(b):
                b = b2
        out.append((fam, a, b, log))
    return out


def focus_pairs(rng, n):
    """[(name, spec, family, a, b, log)] - option COMBINATIONS on the leaves / keys where the options meet inside _diff and key cleaning:
    nan leaves that are distinct objects on the two sides under ignore_nan_inequality x {math_epsilon (incl. 0), significant_digits,
    ignore_numeric_type_changes}; bytes / Enum dict keys with upper-case letters under ignore_string_case x
    {ignore_string_type_changes, use_enum_value}"""
    out = []
    for _ in range(n):
        # ---- nan leaves ----
        sp = mk(nan=rng.random() < 0.8)
        r = rng.random()
        if r < 0.4:
            sp["eps"] = rng.choice([0.0, 0.0, 0.5, 1.0, 1e-3])
        elif r < 0.65:
            sp["sig"] = rng.choice([1, 2, 3, 0])
        elif r < 0.85:
            sp["numty"] = True
        if rng.random() < 0.25:
            sp["sig"] = rng.choice([1, 2])
        if rng.random() < 0.15:
            sp["numty"] = True
        leaves = [rng.choice(NANS), rng.choice(NANS), rng.choice([1.5, 2, 1.25, 7, Decimal("1.5"), "nan", G.U, E.C, None])]
        rng.shuffle(leaves)
        shape = rng.choice(["list", "dict", "nested", "root", "tuple", "set", "key"])
        others = [q for q in NANS] + [float("nan")]

        def other(x):
            if is_nan(x) and rng.random() < 0.8:
                return rng.choice([q for q in others if q is not x])
            if is_number(x) and sp["eps"] is not None and rng.random() < 0.5:
                return x + type(x)(sp["eps"]) / 2 if not isinstance(x, int) else x
            if rng.random() < 0.15:
                return rng.choice([1.5, 2, NANS[0], "nan"])
            return x
        if shape == "list":
            a = list(leaves); b = [other(x) for x in leaves]
        elif shape == "tuple":
            a = tuple(leaves[:2]) + ([],); b = tuple(other(x) for x in leaves[:2]) + ([],)
        elif shape == "dict":
            a = {"k%d" % i: x for i, x in enumerate(leaves)}; b = {k: other(x) for k, x in a.items()}
        elif shape == "nested":
            a = {"p": [leaves[0], [leaves[1]]], "q": (leaves[2],)}; b = {"p": [other(leaves[0]), [other(leaves[1])]], "q": (other(leaves[2]),)}
        elif shape == "root":
            a = leaves[0]; b = other(leaves[0])
        elif shape == "set":
            a = set(distinct(leaves)); b = set(distinct([other(x) for x in a]))
        else:
            a = {leaves[0]: 1, "z": leaves[1]}; b = {other(leaves[0]): 1, "z": other(leaves[1])}
        fam, log = "rand", []
        if sp["nan"] and shape not in ("key", "set") and rng.random() < 0.5:
            # a strict copy: only nan leaves replaced by other nan objects
            def other(x):      # noqa: F811
                return rng.choice([q for q in others if q is not x]) if is_nan(x) else x
            if shape == "list":
                b = [other(x) for x in a]
            elif shape == "tuple":
                b = tuple(other(x) for x in a[:2]) + ([],)
            elif shape == "dict":
                b = {k: other(x) for k, x in a.items()}
            elif shape == "nested":
                b = {"p": [other(a["p"][0]), [other(a["p"][1][0])]], "q": (other(a["q"][0]),)}
            else:
                b = other(a)
            fam, log = "alt", [("nan", "leaf")]
        out.append(("focus:" + "+".join(active(sp)), sp, fam, a, b, log))
        # ---- bytes / Enum dict keys with upper-case letters ----
        sp = mk(case=rng.random() < 0.85)
        r = rng.random()
        if r < 0.45:
            sp["strty"] = True
        elif r < 0.85:
            sp["enum"] = True
        else:
            sp["strty"] = sp["enum"] = True
        if rng.random() < 0.15:
            sp["sig"] = rng.choice([1, 2])
        keypool = [b"Ab", b"AB", b"ab", "Ab", "ab", "AB", G.Q, G.R, E.D, E.B, G.P, E.A, 1, "x", "X", b"x", G.W, 1.5, G.S, None]
        ks = distinct(rng.choice(keypool) for _ in range(rng.randint(1, 3)))

        def okey(k):
            r = rng.random()
            if r < 0.3:
                return k
            v = k.value if isinstance(k, ENUMS) else k
            c = []
            if isinstance(v, (str, bytes)):
                c += [v.lower(), v.upper(), v.swapcase()]
                c += [x.decode("ascii") if isinstance(x, bytes) else x.encode("ascii") for x in list(c)]
            else:
                c.append(v)
            c += [m for m in list(E) + list(G) if any(type(m.value) is type(x) and m.value == x for x in c)]
            return rng.choice(c)
        a = {k: rng.choice([1, "v", [1]]) for k in ks}
        nk = [okey(k) for k in ks]
        if len(distinct(nk)) != len(nk):
            nk = ks
        b = {q: (a[k] if rng.random() < 0.8 else 2) for k, q in zip(ks, nk)}
        if rng.random() < 0.3:
            a, b = {"outer": [a]}, {"outer": [b]}
        out.append(("focus:" + "+".join(active(sp)), sp, "rand", a, b, []))
        # ---- an Enum member facing an equal (or nearly equal) value of ANOTHER type under use_enum_value x a type-ignoring option ----
        sp = mk(enum=rng.random() < 0.85)
        r = rng.random()
        if r < 0.3:
            sp["numty"] = True
        elif r < 0.5:
            sp["strty"] = True
        elif r < 0.65:
            sp["sig"] = rng.choice([1, 2, 0])
        elif r < 0.8:
            sp["eps"] = rng.choice([0.0, 0.5, 1.0])
        elif r < 0.9:
            sp["case"] = True
        else:
            sp["numty"] = sp["strty"] = True
        faces = {E.A: [1, 1.0, True, Decimal("1"), Decimal("1.0"), G.P, 1.2, "1"], E.C: [2.5, Decimal("2.5"), Decimal("2.50"), G.W, 2.4, 2],
                 G.W: [1.5, Decimal("1.5"), 1, E.C], G.T: [2, 2.0, Decimal("2"), E.A], E.B: ["x", b"x", "X", b"X", E.D, G.Q],
                 G.Q: ["Ab", b"Ab", "ab", b"ab", G.R, "AB"], G.R: [b"Ab", "Ab", b"ab", G.Q], E.D: ["X", b"X", "x", E.B],
                 G.S: [None, 0, "None"], G.U: ["nan", NANS[0], b"nan"], G.V: ["a\nb", b"a\nb", "A\nb", 1]}
        m = rng.choice(list(faces))
        v = rng.choice(faces[m])
        x, y = (m, v) if rng.random() < 0.5 else (v, m)
        shape = rng.choice(["root", "list", "dict", "mixed", "set", "tuple"])
        if shape == "root":
            a, b = x, y
        elif shape == "list":
            a, b = [1, x, "k"], [1, y, "k"]
        elif shape == "dict":
            a, b = {"p": x, "q": [x]}, {"p": y, "q": [y]}
        elif shape == "mixed":
            a, b = [[x], {"k": 2}], [[y], {"k": 2}]
        elif shape == "set":
            a, b = {x, "z"} if not isinstance(x, float) or x == x else {"z"}, {y, "z"} if not isinstance(y, float) or y == y else {"z"}
        else:
            a, b = (x, 0), (y, 0)
        out.append(("focus:" + "+".join(active(sp)), sp, "rand", a, b, []))
    return out


def memo_pairs(rng, n):
    """[(a, b, spec)] - sets whose members are ==-equal numbers of different type / representation (1, 1.0, True, Decimal('1'),
    Decimal('1.0'), an Enum member of value 1), at several positions of one value so that the ORDER in which the run's DeepHash
    memo table is filled matters, under exclude_types / significant_digits / use_enum_value / ignore_numeric_type_changes"""
    out = []
    classes = [[1, 1.0, True, Decimal("1"), Decimal("1.0"), E.A, G.P], [2, 2.0, Decimal("2"), G.T], [1.5, Decimal("1.5"), Decimal("1.50"), G.W],
               [0, 0.0, False, Decimal("0")], ["x", b"x", E.B]]
    for _ in range(n):
        sp = mk()
        r = rng.random()
        if r < 0.35:
            sp["excl"] = rng.choice([["float"], ["int"], ["Decimal"], ["bool"], ["int", "Decimal"]])
        elif r < 0.5:
            sp["sig"] = rng.choice([0, 1, 2])
        elif r < 0.62:
            sp["enum"] = True
        elif r < 0.72:
            sp["numty"] = True
        elif r < 0.8:
            sp["enum"] = True
            sp["excl"] = rng.choice([["int"], ["float"]])
        elif r < 0.86:
            sp["strty"] = True

        def mset():
            items = []
            for cl in rng.sample(classes, rng.randint(1, 3)):
                items.append(rng.choice(cl))
            if rng.random() < 0.3:
                items.append(rng.choice(["z", 7, 8.5]))
            items = distinct(items)
            return set(items) if rng.random() < 0.8 else frozenset(items)
        k = rng.randint(1, 3)
        s1 = [mset() for _ in range(k)]
        s2 = [type(x)(distinct([rng.choice([q for cl in classes if any(_eq(q0, y) and type(q0) is type(y) for q0 in cl) for q in cl] or [y])
                                if rng.random() < 0.7 else y for y in x])) for x in s1]
        shape = rng.choice(["list", "dict", "dict_rev", "root", "nested"])
        if shape == "root":
            a, b = s1[0], s2[0]
        elif shape == "list":
            a, b = [[x] for x in s1], [[x] for x in s2]
        elif shape == "nested":
            a, b = {"p": [s1[0], 1], "q": tuple(s1[1:])}, {"q": tuple(s2[1:]), "p": [s2[0], 1]}
        else:
            keys = ["k%d" % i for i in range(k)]
            a = dict(zip(keys, s1))
            items = list(zip(keys, s2))
            if shape == "dict_rev":
                items.reverse()
            b = dict(items)
        out.append((a, b, sp))
    return out


def has_bytes_key(*vals):
    return any(isinstance(k, bytes) for v in vals for k in walk_keys(v, []))


def _cands(a, b):
    """smaller pairs that stay in the same family: aligned items dropped from both sides, or an aligned pair of children"""
    if type(a) is type(b) and isinstance(a, (list, tuple)) and len(a) == len(b):
        for i in range(len(a)):
            yield a[i], b[i]
        for i in range(len(a)):
            yield type(a)(list(a[:i]) + list(a[i + 1:])), type(b)(list(b[:i]) + list(b[i + 1:]))
    elif isinstance(a, dict) and isinstance(b, dict):
        ia, ib = list(a.items()), list(b.items())
        if len(ia) == len(ib):
            for i in range(len(ia)):
                yield ia[i][1], ib[i][1]
            for i in range(len(ia)):
                yield dict(ia[:i] + ia[i + 1:]), dict(ib[:i] + ib[i + 1:])
            for i in range(len(ia)):      # keep the keys, shrink below
                for x, y in _cands(ia[i][1], ib[i][1]):
                    yield dict(ia[:i] + [(ia[i][0], x)] + ia[i + 1:]), dict(ib[:i] + [(ib[i][0], y)] + ib[i + 1:])
        else:
            for k in list(a):
                if k.__class__ is str and k.startswith("__"):
                    yield {q: v for q, v in a.items() if q != k}, b
            for k in list(b):
                if k.__class__ is str and k.startswith("__"):
                    yield a, {q: v for q, v in b.items() if q != k}
    elif type(a) is type(b) and isinstance(a, (set, frozenset)):
        for x in sorted(a, key=lit):
            if x in b:
                yield type(a)(q for q in a if q is not x), type(b)(q for q in b if not (q == x and type(q) is type(x)))
    if type(a) is type(b) and isinstance(a, (list, tuple)) and len(a) == len(b):
        for i in range(len(a)):
            for x, y in _cands(a[i], b[i]):
                yield type(a)(list(a[:i]) + [x] + list(a[i + 1:])), type(b)(list(b[:i]) + [y] + list(b[i + 1:]))


def shrink(job, clause, budget=300):
    """greedy delta debugging of a failing pair (same clause keeps failing)"""
    a, b, sp, zip_, fam, name, log = job

    def fails(x, y):
        try:
            fs, _nt, _st = oracle_case((x, y, sp, zip_, fam, name, log))
        except Exception:  # noqa
            return None
        for f in fs:
            if f["clause"] == clause:
                return f
        return None
    best = fails(a, b)
    n = 0
    progress = True
    while progress and n < budget:
        progress = False
        for x, y in _cands(a, b):
            n += 1
            if n >= budget:
                break
            f = fails(x, y)
            if f is not None:
                a, b, best, progress = x, y, f, True
                break
    return best


def report_oracle(ctx, results, jobs):
    for (fails, nontrivial, st), job in zip(results, jobs):
        a, b, sp, zip_, fam, name, log = job
        ctx.seen((fam, name, zip_, lit(a), lit(b)), nontrivial=nontrivial)
        ctx.count("oracle:%s" % fam)
        ctx.count("oracle_opts:%s" % ("pair" if "+" in name else name))
        if st[0] == "raised":
            ctx.count("oracle:plain_raises")
        if st[1] == "raised":
            ctx.count("oracle:with_options_raises")
        if st[2]:
            ctx.count("oracle:plain_empty")
        if st[3]:
            ctx.count("oracle:with_options_empty")
        for asp, pos in set(log):
            ctx.count("altered:%s@%s" % (asp, pos))
        for f in fails:
            if ctx.fail(f, "C11 clause %s (%s) under %s: %s" % (f["clause"], f["family"], f["options"], f["what"])) == "new" \
                    and ctx.counts.get("shrunk", 0) < 12:
                ctx.count("shrunk")
                g = shrink(job, f["clause"])
                if g is not None and len(g["t1"]) + len(g["t2"]) < len(f["t1"]) + len(f["t2"]):
                    g["shrunk_from"] = {"t1": f["t1"][:400], "t2": f["t2"][:400]}
                    ctx.fail(g, "C11 clause %s (%s) under %s: %s [shrunk]" % (g["clause"], g["family"], g["options"], g["what"]))


# --------------------------------------------------------------------------
# replay of the Coq _refuted witnesses / finding witnesses on the implementation
# --------------------------------------------------------------------------
WITNESSES = [
    # (key, t1, t2, spec, expectation on the implementation)
    ("C11-NUM-KEY", {1.5: 0}, {2.0: 0}, mk(sig=0), "nonempty"),
    ("C11-NUM-KEY", {1.5: 0}, {2.0: 0}, mk(eps=1.0), "nonempty"),
    ("C11-EPS-SET", {1.5}, {2.0}, mk(eps=1.0), "nonempty"),
    ("C11-EPS-OVER-SIG", [1.5], [2.0], mk(sig=0, eps=0.25), "nonempty"),
    ("C11-EXCL-KEY", {1: "a"}, {2: "a"}, mk(excl=["int"]), "nonempty"),
    ("C11-BYTES-KEY-CASE", {b"A": 1}, {b"a": 1}, mk(case=True), "nonempty"),
    ("C11-KEY-COLLISION", {"A": 1, "a": 2}, {"a": 2, "A": 1}, mk(case=True), "nonempty"),
    ("C11-ALIAS-KEY", {1: 0}, {True: 0}, mk(case=True, sig=2), "nonempty"),
    ("C11-TAG-SET", {"int:1"}, {1}, mk(sig=2), "nonempty"),
    ("C11-EXCL-SET", {"0"}, {b"0"}, mk(strty=True, excl=["bytes"]), "nonempty"),
    ("C11-EXCL-DEFAULT-LIST", [1, "x", 2, 1], [2, "x", 1, 3], mk(excl=["int"]), "nonempty"),
    ("C11-SIG0-NAN", [float("nan")], [1.0], mk(sig=0), "raises:ValueError"),
    ("C11-NUM-PRECISION", 123456789012345678, Decimal(123456789012345678), mk(numty=True), "nonempty"),
    ("C11-ENUM-NONE", [None], [G.S], mk(enum=True), "empty"),       # fixed by c9e614d: a return of the defect is a break
    # fixed by 1c8f0f8: a return of the defect is a break (see also replay_trunc_date: every unit, ignore_order, keys, set members)
    ("C11-TRUNC-DATE", {"a": datetime.date(2020, 1, 1)}, {"a": datetime.date(2020, 1, 1)}, mk(trunc="hour"), "empty"),
    ("C11-TRUNC-DATE", {"a": datetime.timedelta(1)}, {"a": datetime.timedelta(1)}, mk(trunc="hour"), "empty"),
    ("C11-TRUNC-DATE", [datetime.date(2020, 1, 1), []], [datetime.date(2020, 1, 2), []], mk(trunc="day"), "nonempty"),
    ("C11-TRUNC-DATE", datetime.timedelta(1), datetime.timedelta(2), mk(trunc="second"), "nonempty"),
    ("C11-SIG-TIMEDELTA-SET", {datetime.timedelta(1)}, {datetime.timedelta(1)}, mk(sig=1), "raises:TypeError"),
    ("C11-DATETIME-KEY", {datetime.date(2020, 1, 1): 1}, {datetime.date(2020, 1, 1): 1}, mk(case=True, sig=1), "raises:TypeError"),
    ("C11-ENUM-KEY", {E.A: 1}, {1: 1}, mk(enum=True), "nonempty"),
    ("C11-ENUM-TYPE", {}, E.A, mk(enum=True), "raises:TypeError"),
    ("C11-NAN-KEY", {float("nan"): 1}, {float("nan"): 1}, mk(nan=True), "nonempty"),
    ("C11-TRUNC-BEFORE-TZ", {"k": _dt(2024, 6, 1, 12, 40, 27, 0, 120)}, {"k": _dt(2024, 6, 1, 16, 25, 27, 0, 345)}, mk(trunc="hour"), "nonempty"),
]


def replay_trunc_date(ctx):
    """C11-TRUNC-DATE (fixed by 1c8f0f8): under truncate_datetime dates and timedeltas compare exactly as without the option - as
    leaves, dict values, dict keys, set members, in both list modes and under ignore_order, for every unit"""
    from deepdiff import DeepDiff
    d, td = datetime.date, datetime.timedelta
    pairs = [(d(2020, 1, 1), d(2020, 1, 1)), (d(2020, 1, 1), d(2020, 1, 2)), (td(1), td(1)), (td(1), td(seconds=86401))]
    shapes = [lambda x: x, lambda x: {"a": x}, lambda x: [x, []], lambda x: [[x], 1], lambda x: {x}, lambda x: {x: 1}, lambda x: (x, "s")]
    n = 0
    for x, y in pairs:
        for sh in shapes:
            for extra in ({}, {"ignore_order": True}, {"zip_ordered_iterables": True}):
                a, b = sh(x), sh(y)
                plain = run_dd(a, b, **extra)
                for u in ("second", "minute", "hour", "day"):
                    r = run_dd(a, b, truncate_datetime=u, **extra)
                    n += 1
                    same = r[0] == plain[0] == "ok" and str(r[1]) == str(plain[1])
                    if not same:
                        ctx.break_("correspondence", {"name": "fixed_finding_witness", "finding": "C11-TRUNC-DATE", "t1": lit(a), "t2": lit(b),
                                                      "unit": u, "extra": extra, "plain": str(plain[1:])[:200], "with_option": str(r[1:])[:200],
                                                      "meaning": "the defect fixed in /repo by 1c8f0f8 is BACK (dates / timedeltas must compare as without the option)"})
    ctx.note("trunc_date_fixed_witnesses", n)


def replay_witnesses(ctx):
    n = 0
    for key, a, b, sp, expect in WITNESSES:
        base = run_dd(a, b, **kwargs_of(sp, base=True))
        r = run_dd(a, b, **kwargs_of(sp))
        got = "raises:" + r[1] if r[0] == "raised" else ("nonempty" if r[1] else "empty")
        n += 1
        if got != expect:
            fixed = any(f.get("key") == key and str(f.get("status", "")).startswith("fixed") for f in ctx.findings)
            ctx.break_("correspondence", {"name": "refuted_witness", "finding": key, "t1": lit(a), "t2": lit(b), "spec": sp,
                                          "expected_on_impl": expect, "got": got,
                                          "meaning": ("the defect fixed in /repo is BACK (the model follows the fixed behaviour)" if fixed else
                                                      "the implementation no longer exhibits this finding: the model (which has it) is out of date")})
        if base[0] == "raised":
            ctx.break_("correspondence", {"name": "refuted_witness", "finding": key, "plain_run_raises": base[1]})
    ctx.note("refuted_witnesses_replayed", n)


# --------------------------------------------------------------------------
# source tie (DESIGN.md section 4.5): the option-dependent fragments of diff.py / base.py / helper.py are regenerated
# from the current source by harness/translate/optionskeys.py and proved equal to the hand model (coq/srctie/OptionsGenEquiv.v)
# --------------------------------------------------------------------------
SOURCE_TIES = [{
    "name": "optionskeys", "translator": "optionskeys", "gen_module": "OptionsGen", "equiv": ["OptionsGenEquiv"],
    "needs": ["Options.OptSrcPrims", "Options.YProofsAtoms", "Options.YProofsKeys", "Options.YProofsCompNum", "Options.YShow"],
    "sources": ["deepdiff/diff.py", "deepdiff/base.py", "deepdiff/helper.py"],
    "fragment": "diff.py: DeepDiff._get_clean_to_keys_mapping, the key-set slice of _diff_dict (whether keys are cleaned; t_keys_intersect / "
                "added / removed), _diff_numbers, _diff_str, _diff_booleans, _diff_datetime, _diff_time; base.py: Base.get_significant_digits; "
                "helper.py: number_to_string, number_formatting, KEY_TO_VAL_STR (and the class tuples numbers / strings / ... as checked constants)",
}]

TIE_HDR = ("From DD Require Import Base.PyStr Options.OptModel Options.OptDtModel Options.YValue Options.YModel Options.YShow Options.OptSrcPrims.\n"
           "From DDGen Require Import OptionsGen.\nLocal Open Scope string_scope.\n"
           "Definition sx_err (e : errk) : sx := SA (match e with EType => \"TypeError\" | EValue => \"ValueError\" | EAttr => \"AttributeError\" end).\n"
           "Definition sx_r {A} (f : A -> sx) (r : res A) : sx := match r with Ok x => SL [SA \"ok\"; f x] | Err e => SL [SA \"raised\"; sx_err e] end.\n"
           "Definition sx_d (d : pydict) : sx := sx_list (sx_pair sx_atom sx_atom) d.\n"
           "Definition sx_ks (l : list atom) : sx := sx_list sx_atom l.\n"
           "Definition sx_es (l : list entry) : sx := sx_list sx_entry l.\n"
           "Definition sx_k7 (x : option pydict * option pydict * list atom * list atom * list atom * list atom * list atom) : sx :=\n"
           "  let '(a, b, c, d, e, f, g) := x in SL [sx_opt sx_d a; sx_opt sx_d b; sx_ks c; sx_ks d; sx_ks e; sx_ks f; sx_ks g].\n"
           "Definition h_keys7 (F : opts) (r1 r2 : list atom) :=\n"
           "  bind (kmap F r1) (fun km1 => bind (kmap F r2) (fun km2 =>\n"
           "    let k1 := ckeys F r1 km1 in let k2 := ckeys F r2 km2 in\n"
           "    Ok (if cleaning F then Some km1 else None, if cleaning F then Some km2 else None, k1, k2,\n"
           "        so_and k2 k1, so_sub k2 (so_and k2 k1), so_sub k1 (so_and k2 k1)))).\n"
           "Definition h_nts (F : opts) (d : N) (a : atom) : res atom :=\n"
           "  match nstr F d a with Some (Ok s) => Ok (AStr s) | Some (Err e) => Err e | None => Ok a end.\n"
           "Definition lv (a b : atom) : plevel := mkLv a b [] [] None.\n"
           "Fixpoint tie_bad (i fuel : nat) (cs : list (sx * sx)) (acc : list nat) : list nat :=\n"
           "  match cs with\n  | [] => rev acc\n"
           "  | (a, b) :: r => if sx_eqb a b then tie_bad (S i) fuel r acc\n"
           "                   else match fuel with O => rev acc | S f => tie_bad (S i) f r (i :: acc) end\n  end.\n"
           "Definition tie_show (l : list nat) : string :=\n"
           "  (\"BEGIN\" ++ nl ++ fold_right (fun i s => show_nat i ++ tab ++ \"x\" ++ nl ++ s) \"END\" l)%string.\n"
           "Definition ud0 (_ _ : pystr) : pystr := [].\n"
           "Definition udx (s t : pystr) : pystr := (s ++ t)%list.\n"
           "Local Open Scope Z_scope.\n")


def _tie_universe():
    """the module's key / leaf universe and option sets for differencing generated vs hand definitions"""
    keys = [None, True, False, 0, 1, 2, -1, 12, 1.0, 1.5, 2.5, 0.5, -0.25, 2.675, 0.125, "a", "A", "ab", "Ab", "AB", "1", "int:1", "number:1.0",
            "float:1.5", "nan", "a\nb", "A\nb", b"a", b"A", b"Ab", b"ab", b"1", b"a\nb", E.A, E.B, E.C, E.D, G.P, G.Q, G.R, G.S, G.U, Decimal("1.5"), Decimal("1.50"),
            Decimal("2"), Decimal("2.675"), NANS[0], NANS[1], _dt(2024, 6, 1, 12, 40, 27, 250000), _dt(2024, 6, 1, 12, 40, 27, 0, 120),
            _dt(2024, 6, 1, 10, 40, 59, 0, 0), datetime.date(2024, 6, 1), datetime.time(1, 2, 3), datetime.time(1, 2, 3, 500000),
            datetime.timedelta(1), datetime.timedelta(seconds=86401)]
    keys = [k for k in keys if x_ok_atom(k)]
    fs = []
    for case in (False, True):
        for strty in (False, True):
            for numty in (False, True):
                for sig, note in ((None, False), (0, False), (1, False), (2, False), (2, True), (0, True)):
                    for enum_ in (False, True):
                        fs.append(mk(case=case, strty=strty, numty=numty, sig=sig, note=note, enum=enum_))
    leaf_fs = []
    for numty in (False, True):
        for sig, note in ((None, False), (0, False), (1, False), (2, False), (2, True)):
            for eps in (None, 0.0, 0.5):
                for trunc in (None, "minute"):
                    leaf_fs.append(mk(numty=numty, sig=sig, note=note, eps=eps, trunc=trunc, tz=(120 if trunc else None)))
    return keys, fs, leaf_fs


def _tie_differences(ctx, gen_dir):
    """evaluate the generated definitions and the hand model inside Coq on the universe; returns (searched, [difference records])"""
    import os
    keys, fs, leaf_fs = _tie_universe()
    nk = len(keys)
    small = [k for k in keys if not isinstance(k, (datetime.date, datetime.time, datetime.timedelta)) and not is_nan(k)][:34]
    klists = [[a, b] for a in small for b in small if a is not b and not _eq(a, b)]
    klists = klists[::3] + [[1, "a", 1.5, "A", b"a"], ["A", "a", b"A"], [1, 2.0, Decimal("1.0") if False else 1.5, "int:1"]]
    leaves = [k for k in keys]
    numa = [k for k in keys if is_number(k) or is_nan(k) or isinstance(k, bool)]
    fams = []      # (name, coq list expression of (sx * sx), decoder index -> record)
    K = "KS"
    defs = ["Definition KS : list atom := %s." % coq_list(x_atom_to_coq(k) for k in keys),
            "Definition FS : list opts := %s." % coq_list(xcoq_opts(f) for f in fs),
            "Definition LFS : list opts := %s." % coq_list(xcoq_opts(f) for f in leaf_fs),
            "Definition KLS : list (list atom) := %s." % coq_list(coq_list(x_atom_to_coq(k) for k in kl) for kl in klists),
            "Definition NA : list atom := %s." % coq_list(x_atom_to_coq(k) for k in numa)]
    fams.append(("clean_key", "flat_map (fun F => map (fun k => (sx_r sx_d (g_get_clean_to_keys_mapping_body F k []), "
                 "sx_r sx_d (bind (clean_key F k) (fun ck => Ok [(ck, k)])))) KS) FS",
                 lambda i: {"function": "_get_clean_to_keys_mapping (one key)", "spec": fs[i // nk], "keys": [keys[i % nk]]}))
    # vm_compute of run_cases overflows the stack beyond ~ 20 000 cases: the option sets are cut into chunks of 12 (one file each)
    nkl = len(klists)
    for c0 in range(0, len(fs), 12):
        fams.append(("clean_map_%d" % c0, "flat_map (fun F => map (fun ks => (sx_r sx_d (g_get_clean_to_keys_mapping F ks), sx_r sx_d (clean_map F ks []))) KLS) "
                     "(firstn 12 (skipn %d FS))" % c0,
                     lambda i, c0=c0: {"function": "_get_clean_to_keys_mapping", "spec": fs[c0 + i // nkl], "keys": klists[i % nkl]}))
    for c0 in range(0, 24, 8):
        fams.append(("dict_keys_%d" % c0, "flat_map (fun F => flat_map (fun r1 => map (fun r2 => (sx_r sx_k7 (g_diff_dict_keys F r1 r2), sx_r sx_k7 (h_keys7 F r1 r2))) "
                     "(firstn 40 KLS)) (firstn 40 KLS)) (firstn 8 (skipn %d FS))" % c0,
                     lambda i, c0=c0: {"function": "_diff_dict (key sets)", "spec": fs[c0 + i // 1600], "keys": klists[(i % 1600) // 40], "keys2": klists[i % 40]}))
    nn = len(numa)
    fams.append(("number_to_string", "flat_map (fun F => flat_map (fun d => map (fun a => (sx_r sx_atom (g_number_to_string (PAtom a) d (py_notation F)), "
                 "sx_r sx_atom (h_nts F d a))) KS) [0%N; 1%N; 2%N; 3%N]) (firstn 2 LFS ++ [nth 4 LFS no_opts])%list",
                 lambda i: {"function": "number_to_string", "spec": mk(sig=(i % (4 * nk)) // nk, note=(i // (4 * nk)) == 2), "leaf": keys[i % nk]}))
    fams.append(("diff_numbers", "flat_map (fun F => flat_map (fun rtc => flat_map (fun a => map (fun b => (sx_r sx_es (g_diff_numbers F (lv a b) rtc), "
                 "sx_r sx_es (numD F rtc a b [] []))) KS) NA) [true; false]) LFS",
                 lambda i: {"function": "_diff_numbers", "spec": leaf_fs[i // (2 * nn * nk)], "rtc": (i % (2 * nn * nk)) // (nn * nk) == 0,
                            "leaf": numa[(i % (nn * nk)) // nk], "leaf2": keys[i % nk]}))
    fams.append(("diff_time", "flat_map (fun F => flat_map (fun a => map (fun b => (sx_r sx_es (g_diff_time F (lv a b)), sx_r sx_es (timeD F a b [] []))) KS) KS) "
                 "(firstn 4 LFS)",
                 lambda i: {"function": "_diff_time", "spec": leaf_fs[i // (nk * nk)], "leaf": keys[(i % (nk * nk)) // nk], "leaf2": keys[i % nk]}))
    fams.append(("diff_datetime", "flat_map (fun F => flat_map (fun a => map (fun b => (sx_r sx_es (match a with ADt _ _ => g_diff_datetime F (lv a b) | _ => Ok [] end), "
                 "sx_r sx_es (match a with ADt _ _ => dtD F a b [] [] | _ => Ok [] end))) KS) KS) (firstn 4 LFS)",
                 lambda i: {"function": "_diff_datetime", "spec": leaf_fs[i // (nk * nk)], "leaf": keys[(i % (nk * nk)) // nk], "leaf2": keys[i % nk]}))
    fams.append(("diff_booleans", "flat_map (fun a => map (fun b => (sx_r sx_es (g_diff_booleans no_opts (lv a b)), "
                 "sx_r sx_es (dispatch ud0 no_opts true a b [] []))) KS) [ABool true; ABool false]",
                 lambda i: {"function": "_diff_booleans", "spec": mk(), "leaf": [True, False][i // nk], "leaf2": keys[i % nk]}))
    str_fs = [mk(case=c_, strty=t_) for c_ in (False, True) for t_ in (False, True)]
    defs.append("Definition SFS : list opts := %s." % coq_list(xcoq_opts(f) for f in str_fs))
    fams.append(("diff_str", "flat_map (fun F => flat_map (fun a => map (fun b => "
                 "(sx_r sx_es (match a with AStr _ | ABytes _ => if is_enum b then Ok [] else g_diff_str F udx (lv a b) | _ => Ok [] end), "
                 "sx_r sx_es (match a with AStr _ | ABytes _ => if is_enum b then Ok [] else strD udx F a b [] [] | _ => Ok [] end))) KS) KS) SFS",
                 lambda i: {"function": "_diff_str", "spec": str_fs[i // (nk * nk)], "leaf": keys[(i % (nk * nk)) // nk], "leaf2": keys[i % nk]}))
    fams.append(("get_significant_digits", "map (fun F => (sx_r (sx_opt sx_N) (g_get_significant_digits (o_sig F) (o_numty F)), sx_r (sx_opt sx_N) (Ok (eff_sig F)))) FS",
                 lambda i: {"function": "get_significant_digits", "spec": fs[i]}))
    diffs, searched = [], {}

    def one(fam):
        name, expr, _dec = fam
        fn = os.path.join(gen_dir, "tiediff_%s.v" % name)
        with open(fn, "w") as f:
            f.write("From Coq Require Import List String ZArith NArith Bool.\nImport ListNotations.\nFrom DD Require Import Base.Sx.\n")
            f.write(TIE_HDR + "\n".join(defs) + "\nDefinition cases : list (sx * sx) := %s.\nEval vm_compute in tie_show (tie_bad 0 60 cases []).\n" % expr)
        return core.sh(["coqc", "-Q", core.THEORIES, "DD", "-Q", gen_dir, "DDGen", fn], timeout=900, cwd=gen_dir)
    from concurrent.futures import ThreadPoolExecutor
    import re as _re
    with ThreadPoolExecutor(max_workers=core.NCPU) as ex:
        outs = list(ex.map(one, fams))
    for (name, _expr, dec), (rc, out) in zip(fams, outs):
        m = _re.search(r'"BEGIN\n(.*)END"', out, _re.S)
        if rc != 0 or not m:
            searched[name] = "coqc failed: " + out[-300:]
            continue
        idx = [int(line.partition("\t")[0]) for line in m.group(1).splitlines() if line.strip()]
        searched[name] = {"differing (first 60 at most)": len(idx)}
        kept = 0
        for i in idx:
            d = dec(i)
            if "keys" in d and not _cleaning(d["spec"]):
                continue          # the mapping is only ever built under a cleaning option: not reachable through DeepDiff
            diffs.append(d)
            kept += 1
            if kept >= 12:
                break
    return searched, diffs


def _tie_inputs(rng, d):
    """DeepDiff inputs that exercise one generated-vs-hand difference"""
    sp = d["spec"]
    out = []
    keys, _fs, _lfs = _tie_universe()
    if "keys" in d:
        ks = distinct(d["keys"])
        t1 = {k: i for i, k in enumerate(ks)}
        out.append(("rand", t1, dict(t1)))
        out.append(("rand", t1, {k: i for i, k in enumerate(reversed(ks))}))
        if "keys2" in d:
            out.append(("rand", t1, {k: i for i, k in enumerate(distinct(d["keys2"]))}))
        for k in ks:          # which of two keys with one clean key represents the class: a single key against the whole dict
            for v in range(len(ks)):
                out.append(("rand", t1, {k: v}))
                out.append(("rand", {k: v}, t1))
        for k in ks:
            for k2 in keys:
                try:
                    hash(k2)
                except TypeError:
                    continue
                out.append(("rand", {k: 1}, {k2: 1}))
        for _ in range(6):
            log = []
            out.append(("alt", t1, normalise(rng, t1, sp, True, 1.0, log), log))
    elif "leaf" not in d:
        # get_significant_digits: numbers that agree to 11 / 12 / 13 digits, and near halves (rounding is not monotone in the digits)
        for a, b in ((1.0, 1.0 + 3e-12), (1.0, 1.0 + 3e-13), (1.0, 1.0 + 3e-11), (0.5 - 2 ** -42, 0.5 + 2 ** -42), (1, 1.0 + 3e-12), (2.5, 2.5 + 3e-12)):
            out.append(("rand", a, b))
            out.append(("rand", [a, "x"], [b, "x"]))
            out.append(("rand", {a: 1}, {b: 1}))
    else:
        a = d["leaf"]
        bs = [d["leaf2"]] if "leaf2" in d else keys
        for b in bs:
            out.append(("rand", a, b))
            out.append(("rand", [a, "x"], [b, "x"]))
            out.append(("rand", {"k": a}, {"k": b}))
            try:
                out.append(("rand", {a: 1}, {b: 1}))
            except TypeError:
                pass
        for _ in range(4):
            log = []
            out.append(("alt", [a], normalise(rng, [a], sp, True, 1.0, log), log))
    return out


def on_source_tie_break(ctx, name, rec):
    """generated model vs hand model inside Coq on the key / leaf universe x option combinations; every difference is turned into
    DeepDiff inputs that go through the ordinary correspondence (extended model vs implementation) and the direct oracle"""
    import os
    gen_dir = os.path.join(ctx.scratch, "srctie")
    info = {"status": rec.get("status")}
    diffs = []
    if os.path.exists(os.path.join(gen_dir, "OptionsGen.vo")):
        searched, diffs = _tie_differences(ctx, gen_dir)
        info["generated_vs_hand"] = searched
    else:
        info["generated_vs_hand"] = "no generated model to evaluate (%s)" % rec.get("status")
    rng = random.Random(ctx.seed + 11)
    global _XU
    xu0, _XU = _XU, True
    xjobs, ojobs = [], []
    seen = set()
    try:
        for d in diffs[:60]:
            sp = d["spec"]
            for item in _tie_inputs(rng, d):
                fam, a, b = item[0], item[1], item[2]
                log = item[3] if len(item) > 3 else []
                key = (fam, lit(a), lit(b), repr(sorted(sp.items(), key=str)))
                if key in seen:
                    continue
                seen.add(key)
                nm = "hand-srctie:" + "+".join(active(sp))
                for zip_ in (False, True):
                    ojobs.append((a, b, sp, zip_, fam, nm, log))
                if in_xuniverse(a) and in_xuniverse(b) and not xset_alias(a, b, sp) and not (sp["enum"] and enum_meets_container(a, b)) \
                        and not enum_internal_alias(a, b, sp):
                    xjobs.append((a, b, sp, False, 0.33, "srctie", nm))
    finally:
        _XU = xu0
    info["differences_found"] = len(diffs)
    info["first_differences"] = [{k: (lit(v) if k in ("leaf", "leaf2") else [lit(x) for x in v] if k in ("keys", "keys2") else v) for k, v in d.items()}
                                 for d in diffs[:5]]
    info["inputs_replayed_on_implementation"] = {"correspondence": len(xjobs), "oracle": len(ojobs)}
    if xjobs or ojobs:
        with mp.get_context("fork").Pool(core.NCPU) as pool:
            xres = pool.map(xmodel_case, [(pack(j[0]), pack(j[1])) + tuple(j[2:]) for j in xjobs], chunksize=8)
            ores = pool.map(oracle_case, [(pack(j[0]), pack(j[1])) + tuple(j[2:]) for j in ojobs], chunksize=8)
        cases = []
        for (expr, obs, _tile_ok, _ntab, _gexpr, _gexp), job in zip(xres, xjobs):
            a, b, sp, zip_, thr, fam, nm = job
            cases.append((expr, obs, {"family": fam, "options": nm, "spec": sp, "zip": zip_, "thr": thr, "t1": lit(a), "t2": lit(b),
                                      "why": "input derived from a difference between the model regenerated from the source and the hand model"}))
        m0 = ctx.corr_mismatch
        ctx.coq_cases("c11_srctie", XHDR, cases, shard=120, label="source-tie differences replayed (extended model vs implementation)")
        info["correspondence_mismatches"] = ctx.corr_mismatch - m0
        f0 = len(ctx.failures)
        report_oracle(ctx, ores, ojobs)
        info["oracle_failures"] = len(ctx.failures) - f0
    return info


# --------------------------------------------------------------------------
# run
# --------------------------------------------------------------------------
def run(ctx):
    rng = ctx.rng
    # a source tie that is not intact escalates the streams that exercise the fragment to the thorough budgets
    thorough = ctx.thorough or ctx.tie_broken("optionskeys")
    if thorough and not ctx.thorough:
        ctx.note("escalated_by_source_tie", True)
    replay_witnesses(ctx)
    replay_trunc_date(ctx)
    atom_level(ctx, 5000 if thorough else 320)

    # ---- structural correspondence + oracle on the modelled universe ----
    per_spec = 1500 if thorough else 55
    mjobs, ojobs = [], []
    specs = all_specs(rng, True)
    for name, sp in specs:
        for fam, a, b, log in gen_pairs(rng, sp, per_spec, False):
            zip_ = rng.random() < 0.4
            thr = 0 if rng.random() < 0.25 else 0.33
            ojobs.append((a, b, sp, zip_, fam, name, log))
            if not in_model_universe(a) or not in_model_universe(b):
                ctx.count("corr_skipped:outside_universe")
                continue
            if D.set_alias(a, b) and (not sp["numty"] or sp["excl"]):   # under numty alone both aliases hash to one text anyway
                ctx.count("corr_skipped:set_alias(K2 memo)")
                continue
            mjobs.append((a, b, sp, zip_, thr, fam, name))
    # hand-made cases: bytes keys, K8, collisions
    hand = [({b"a": 1}, {b"a": 1}, mk()), ({b"a": 1}, {b"a": 2}, mk()), ({b"a": [1]}, {b"a": [1]}, mk()),
            ({b"a": 1, "c": 1}, {"c": 1}, mk(strty=True)), ({b"a": 1}, {"a": 1}, mk(strty=True)),
            ({b"a": 1}, {"a": 2}, mk(strty=True)), ({b"A": 1}, {"a": 1}, mk(strty=True, case=True)),
            ({b"a": 1.5}, {b"a": 1.5}, mk(sig=1)), ({b"k": 1, "a": 1, "b": 1, b"z": 1}, {"k": 1, b"a": 1, b"b": 1}, mk(strty=True)),
            ({1: 5}, {1: 5}, mk(case=True)), ({1.5: 5}, {1.5: 6}, mk(strty=True)), ({True: 5, "A": 1}, {True: 5, "a": 1}, mk(case=True)),
            ({1: 5}, {1.0: 5}, mk(case=True)), ({1: 5}, {1.0: 5}, mk(case=True, sig=1))]
    for a, b, sp in hand + [(w[1], w[2], w[3]) for w in WITNESSES]:
        for zip_ in (False, True):
            if in_model_universe(a) and in_model_universe(b):
                mjobs.append((a, b, sp, zip_, 0.33, "hand", "hand"))
            ojobs.append((a, b, sp, zip_, "rand", "hand", []))
    with mp.get_context("fork").Pool(core.NCPU) as pool:
        mres = pool.map(model_case, mjobs, chunksize=16)
        ores = pool.map(oracle_case, [(pack(j[0]), pack(j[1])) + tuple(j[2:]) for j in ojobs], chunksize=16)
    cases = []
    bad_tiles = 0
    for (expr, obs, tile_ok, ntab), job in zip(mres, mjobs):
        a, b, sp, zip_, thr, fam, name = job
        cases.append((expr, obs, {"family": fam, "options": name, "spec": sp, "zip": zip_, "thr": thr, "t1": lit(a), "t2": lit(b)}))
        ctx.count("corr:%s" % fam)
        ctx.count("corr_result:%s" % ("raised:" + obs[1] if obs[0] == "raised" else ("empty" if not obs[1] else "entries")))
        ctx.count("corr_mode:%s" % ("positional" if zip_ else "default"))
        ft = features(a, b)
        coll = _cleaning(sp) and "clean_collision" in ft
        ctx.count("corr_guard:%s" % ("outside(clean-key collision)" if coll else "inside"))
        ctx.count("oracle_validity:opcode_tables", ntab)
        if not tile_ok:
            bad_tiles += 1
    if bad_tiles:
        ctx.break_("correspondence", {"name": "opcode_validity", "cases": bad_tiles,
                                      "meaning": "difflib opcodes do not tile their inputs: the hypothesis of the default-mode theorems fails"})
    ctx.coq_cases("c11_struct", HDR, cases, shard=120, label="structural(model universe)")
    report_oracle(ctx, ores, ojobs)
    for c in cases[:3]:
        ctx.sample(c[2])

    # ---- the extended model (arbitrary floats, datetimes; + truncate_datetime, default_timezone) ----
    global _XU
    _XU = True
    per_spec = 450 if thorough else 22
    xjobs, ojobs, mjobs2 = [], [], []
    for name, sp in xspecs(rng):
        for fam, a, b, log in gen_pairs(rng, sp, per_spec, True):
            zip_ = rng.random() < 0.4
            thr = 0 if rng.random() < 0.25 else 0.33
            ojobs.append((a, b, sp, zip_, fam, name, log))
            if not (in_xuniverse(a) and in_xuniverse(b)):
                ctx.count("xcorr_skipped:outside_universe")
                continue
            if sp["enum"] and enum_meets_container(a, b):
                ctx.count("xcorr_skipped:str_valued_enum_member_meets_container")
                continue
            if xset_alias(a, b, sp) or enum_internal_alias(a, b, sp):
                # ==-equal set members of different type / representation, or a set member ==-equal to an internal (_value_, _name_,
                # _sort_order_) of an Enum member hashed as an object: the run's DeepHash memo table decides (K2): Options/YMemo.v
                if enum_internal_alias(a, b, sp):
                    ctx.count("memo_corr:set_member_aliases_enum_member_internal")
                mjobs2.append((a, b, sp, zip_, thr, "memo", name))
                continue
            if sp["enum"] and enum_meets_container(a, b):
                ctx.count("xcorr_skipped:str_valued_enum_member_meets_container")
                continue
            xjobs.append((a, b, sp, zip_, thr, fam, name))
    # the witnesses of the Coq [_refuted] theorems and findings that live in the extended universe, as correspondence cases
    xhand = [(0.5 - 2 ** -42, 0.5 + 2 ** -42, mk(numty=True)), (0.5 - 2 ** -42, 0.5 + 2 ** -42, mk(numty=True, sig=0)),
             ([1.5], [2.0], mk(sig=0)), ([1.5], [2.0], mk(sig=0, eps=0.25)),
             (NANS[0], NANS[1], mk(nan=True)), (NANS[0], NANS[1], mk(nan=True, eps=0.0)), (NANS[0], NANS[1], mk(eps=0.0)),
             (NANS[0], NANS[0], mk(eps=0.0)), ([NANS[0], 1], [1, NANS[0]], mk()), ({NANS[0]: 1}, {NANS[0]: 1}, mk()),
             (_dt(2024, 6, 1, 12, 40, 27, 0, 120), _dt(2024, 6, 1, 16, 25, 27, 0, 345), mk()),
             (_dt(2024, 6, 1, 12, 40, 27, 0, 120), _dt(2024, 6, 1, 16, 25, 27, 0, 345), mk(trunc="hour")),
             ({b"AB": [1]}, {"AB": [1]}, mk(strty=True)), ({b"AB": [1]}, {"AB": [1]}, mk(strty=True, case=True)),
             ({G.Q: 1}, {"ab": 1}, mk(enum=True, case=True)), ({G.Q: 1}, {"ab": 1}, mk(enum=True)), ({G.Q: 1}, {"ab": 1}, mk(case=True)),
             (E.A, E.C, mk()), (E.B, E.D, mk(case=True)), (E.A, G.P, mk()), (E.A, G.P, mk(enum=True)), (E.A, 1.0, mk(enum=True)),
             (E.A, "1.00", mk(enum=True, sig=2)), (G.U, NANS[0], mk(enum=True, nan=True)), (NANS[0], G.U, mk(enum=True, nan=True)),
             (Decimal("1.5"), Decimal("1.50"), mk()), (Decimal("1.5"), 1.5, mk(numty=True)), (Decimal("2.675"), 2.675, mk(numty=True, eps=0.0)),
             (datetime.time(1, 2, 3), datetime.time(1, 2, 3, 500000), mk(trunc="second")), (datetime.time(1, 2, 3), 3723, mk(numty=True)),
             ([1, 1.5], [1.75, 1.75, 1.5], mk()), ([1, 1.5], [1.75, 1.75, 1.5], mk(eps=0.5)),     # comp_default_mode_refuted
             (Decimal("1.5"), Decimal("1.50"), mk(nan=True, eps=0.0)), ({Decimal("2.5"): Decimal("1.5")}, {Decimal("2.50"): Decimal("1.50")}, mk(sig=2, case=True))]
    xhand += [({'a': {G.P}, 'b': frozenset([1.0])}, {'a': {G.P}, 'b': frozenset([Decimal('1')])}, mk(excl=["float"])),      # _value_ 1
              ({'a': {G.T}, 'b': frozenset([1.0])}, {'a': {G.T}, 'b': frozenset([Decimal('1')])}, mk(excl=["float"])),      # control
              ({'a': {G.Q}, 'b': frozenset([1.0])}, {'a': {G.Q}, 'b': frozenset([Decimal('1')])}, mk(excl=["float"])),      # _sort_order_ 1
              ({'a': {G.P}, 'b': frozenset([1.0])}, {'a': {G.P}, 'b': frozenset([Decimal('1')])}, mk(excl=["float", "str"])),   # keys skipped
              ({'a': {G.P}, 'b': frozenset([1.0])}, {'a': {G.P}, 'b': frozenset([Decimal('1')])}, mk(excl=["float", "int"])),   # item skipped
              ([{G.W}, {Decimal("1.5")}], [{G.W}, {1.5}], mk()), ([{G.P}, {1.0}], [{G.P}, {2}], mk()),
              ({'k0': {0.0, 1.5, 2.0}, 'k1': frozenset([1.0]), 'k2': {b'x', 7, G.P, G.W}},
               {'k2': {True, b'x', G.W, 7}, 'k1': frozenset([Decimal('1')]), 'k0': {0.0, 1.5, G.T}}, mk(excl=["float"]))]
    for a, b, sp in xhand + [(w[1], w[2], w[3]) for w in WITNESSES]:
        for zip_ in (False, True):
            if in_xuniverse(a) and in_xuniverse(b) and not (sp["enum"] and enum_meets_container(a, b)):
                (mjobs2 if enum_internal_alias(a, b, sp) else xjobs).append((a, b, sp, zip_, 0.33, "memo" if enum_internal_alias(a, b, sp) else "hand", "hand"))
            ojobs.append((a, b, sp, zip_, "rand", "hand", []))
    for name, sp, fam, a, b, log in focus_pairs(rng, 1000 if thorough else 130):
        zip_ = rng.random() < 0.4
        thr = 0 if rng.random() < 0.25 else 0.33
        ojobs.append((a, b, sp, zip_, fam, name, log))
        if not (in_xuniverse(a) and in_xuniverse(b)) or (sp["enum"] and enum_meets_container(a, b)):
            ctx.count("xcorr_skipped:outside_universe")
            continue
        if xset_alias(a, b, sp) or enum_internal_alias(a, b, sp):
            if enum_internal_alias(a, b, sp):
                ctx.count("memo_corr:set_member_aliases_enum_member_internal")
            mjobs2.append((a, b, sp, zip_, thr, "memo", name))
            continue
        xjobs.append((a, b, sp, zip_, thr, "focus", name))
    for a, b, sp in memo_pairs(rng, 1200 if thorough else 160):
        if in_xuniverse(a) and in_xuniverse(b) and not (sp["enum"] and enum_meets_container(a, b)):
            zip_m, thr_m = rng.random() < 0.5, rng.choice([0, 0.33])        # drawn for every pair: the stream does not depend on the filter
            ojobs.append((a, b, sp, False, "rand", "memo", []))
            if enum_internal_alias(a, b, sp):
                ctx.count("memo_corr:set_member_aliases_enum_member_internal")
            mjobs2.append((a, b, sp, zip_m, thr_m, "memo", "memo:" + "+".join(active(sp))))
    _XU = False
    with mp.get_context("fork").Pool(core.NCPU) as pool:
        mres2 = pool.map(xmodel_case, [(pack(j[0]), pack(j[1])) + tuple(j[2:]) for j in mjobs2], chunksize=16)
    mcases = []
    for (expr, obs, tile_ok, ntab, gexpr, gexp), job in zip(mres2, mjobs2):
        a, b, sp, zip_, thr, fam, name = job
        mcases.append((expr, obs, {"family": fam, "options": name, "spec": sp, "zip": zip_, "thr": thr, "t1": lit(a), "t2": lit(b)}))
        ctx.count("memo_corr_result:%s" % ("raised:" + obs[1] if obs[0] == "raised" else ("empty" if not obs[1] else "entries")))
    ctx.coq_cases("c11_xmemo", XHDR.replace("Options.YShow.", "Options.YShow Options.YMemo Options.YShowG."), mcases, shard=120,
                  label="structural(extended universe, DeepHash memo table: ==-equal set members of different type)")
    with mp.get_context("fork").Pool(core.NCPU) as pool:
        xres = pool.map(xmodel_case, [(pack(j[0]), pack(j[1])) + tuple(j[2:]) for j in xjobs], chunksize=16)
        ores = pool.map(oracle_case, [(pack(j[0]), pack(j[1])) + tuple(j[2:]) for j in ojobs], chunksize=16)
    cases = []
    gcases = []
    for (expr, obs, tile_ok, ntab, gexpr, gexp), job in zip(xres, xjobs):
        a, b, sp, zip_, thr, fam, name = job
        cases.append((expr, obs, {"family": fam, "options": name, "spec": sp, "zip": zip_, "thr": thr, "t1": lit(a), "t2": lit(b)}))
        if gexp is not None:      # only the raising runs can contradict the guard: the model must call them unsafe
            gcases.append((gexpr, gexp, {"guard": "safe", "options": name, "spec": sp, "t1": lit(a), "t2": lit(b), "impl": obs}))
            ctx.count("guard_observed:raising_runs_checked_unsafe")
        ctx.count("xcorr:%s" % fam)
        ctx.count("xcorr_result:%s" % ("raised:" + obs[1] if obs[0] == "raised" else ("empty" if not obs[1] else "entries")))
        if has_datetime(a, b):
            ctx.count("xcorr:with_datetime")
        ats = all_atoms_of(a, []) + all_atoms_of(b, [])
        if any(is_nan(x) for x in ats):
            ctx.count("xcorr:with_nan")
            if sp["nan"]:
                ctx.count("xcorr:with_nan_under_ignore_nan_inequality" + ("+eps" if sp["eps"] is not None else "") +
                          ("+sig" if sp["sig"] is not None else "") + ("+numty" if sp["numty"] else ""))
        if any(isinstance(x, ENUMS) for x in ats):
            ctx.count("xcorr:with_enum_member" + ("_under_use_enum_value" if sp["enum"] else ""))
        if any(isinstance(x, Decimal) for x in ats):
            ctx.count("xcorr:with_decimal")
        if any(isinstance(x, (datetime.date, datetime.time, datetime.timedelta)) and not isinstance(x, datetime.datetime) for x in ats):
            ctx.count("xcorr:with_date_time_timedelta")
        if sp.get("note"):
            ctx.count("xcorr:notation_e")
        ks = walk_keys(a, []) + walk_keys(b, [])
        if sp["case"] and (sp["strty"] or sp["enum"]) and any(isinstance(k, bytes) or isinstance(k, ENUMS) for k in ks):
            ctx.count("xcorr:bytes_or_enum_key_under_case+" + ("strty" if sp["strty"] else "") + ("enum" if sp["enum"] else ""))
        ctx.count("oracle_validity:opcode_tables", ntab)
        if not tile_ok:
            ctx.break_("correspondence", {"name": "opcode_validity", "case": lit(a) + " | " + lit(b)})
    ctx.coq_cases("c11_xstruct", XHDR, cases, shard=120, label="structural(extended universe: floats, datetimes)")
    ctx.coq_cases("c11_xguard", XHDR.replace("Options.YShow.", "Options.YShow Options.YShowG."), gcases, shard=200,
                  label="guard safe observed on raising runs (C11x_never_raises_partial)")
    report_oracle(ctx, ores, ojobs)

    # ---- direct oracle on the rich universe, all eleven options ----
    per_spec = 1000 if thorough else 40
    ojobs = []
    for name, sp in all_specs(rng, False):
        for fam, a, b, log in gen_pairs(rng, sp, per_spec, True):
            ojobs.append((a, b, sp, rng.random() < 0.35, fam, name, log))
    with mp.get_context("fork").Pool(core.NCPU) as pool:
        ores = pool.map(oracle_case, [(pack(j[0]), pack(j[1])) + tuple(j[2:]) for j in ojobs], chunksize=16)
    report_oracle(ctx, ores, ojobs)
    ctx.note("options_in_old_model", list(MODELLED))
    ctx.note("options_in_extended_model", list(XMODELLED))
    ctx.note("outside_every_model", ["numpy scalars", "named time zones", "the DeepHash memo table (K2)", "non-ASCII bytes / case folding",
                                     "a str-valued Enum member meeting a container under use_enum_value"])


def replay(ctx, data):
    case = data.get("case", {})
    if "t1" in case and "spec" in case:
        a, b = unlit(case["t1"]), unlit(case["t2"])
        sp = case["spec"]
        fam = case.get("family", "rand")
        log = [tuple(x.split("@")) for x in case.get("altered", [])]
        fails, _nt, st = oracle_case((a, b, sp, bool(case.get("zip")), fam, case.get("options", "replay"), log))
        ctx.evaluations += 1
        print("replay: plain=%s with_options=%s failures=%d" % (st[0], st[1], len(fails)))
        for f in fails:
            print("replay: clause %s: %s -> %s" % (f["clause"], f["what"], f["with_options"]))
            ctx.fail(f, "C11 clause %s: %s" % (f["clause"], f["what"]))
    else:
        run(ctx)

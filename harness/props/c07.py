"""C07 - DeepHash: different content hashes differently.

proof:           coq/theories/Hash/{HashModel,Equiv,HashProofs*}.v, Properties/C07.v
correspondence:  as C06 (exact hash strings and table entries under the hex
                 hasher, `hash_memo hexhash`), on the near-collision pool of
                 the property's quantifier, three modes; equality pattern of
                 the default SHA-256 hashes over the pool against the model's.
direct oracle:   an independent canonical form per mode (nested set / nested
                 multiset / ordered, type-tagged scalars); all pairs of the
                 pool: equal hashes with different canonical forms = failure.
"""
import copy
import itertools
import random
import sys

from harness import core, values
from harness.props import c06 as base
from harness.props.c06 import (SET_MODE, MULTI_MODE, ORDERED_MODE, MODES3, MODE_NAME, kw, hexhasher, impl_hash,
                               from_repr, has_container, in_model_range)

THEOREM_FILE = "Properties/C07.v"
COQCHK = ["Properties.C07"]
RULE = ("pool: hand-written near-collisions (same items in different containers, nestings that flatten to the same sequence, strings spelling "
        "serialisations incl. 'list:<sha256>', repeated items in different positions, == numbers of different types, empty containers) + random "
        "values with rebuilt (equal) and single-edit (different) neighbours; memo-order shapes (an atom in key / member / item position that is == to an atom "
        "visited earlier or later in the same root value, every carrier x holder x visiting order); a case = an unordered pair of pool values under one mode; "
        "non-trivial = the two hashes are equal or the values have the same type; distinct = distinct (mode, canonical pair)")
TRUSTED = [
    "Section hypotheses H_tok (hasher outputs non-empty, free of , ; : | { }) and H_inj (hasher injective) stand for SHA-256 hexdigest being "
    "collision-free; they are hypotheses (explicit premises) of the theorems, not axioms; proved for the hex hasher of the correspondence check on strings of code points < 0x110000 (HexHash.v: C07_hexhash_satisfies_hypotheses, and the hypothesis-free corollaries C07_*_hexhash_partial); for SHA-256 they remain assumptions",
    "bytes are modelled for ASCII content only; floats are half-integers with positional repr",
    "the exact relation heqb (Hash/HashAlike.v) is compared with the implementation's SHA-256 partition of the tag-safe alias-free part of the pool in all four mode combinations",
    "cyclic containers, numpy / pandas are outside every model; date / Decimal / Path / object leaves and the exclusion options live in the extended model checked by C06 (corr_x)",
]
ASSUMPTIONS = ["tree-shaped inputs", "no nan/inf/-0.0", "SHA-256 has no collisions on the strings DeepHash builds (H_inj)"]


# ---------------------------------------------------------------------------
# the independent canonical form (the spec of the mode's equivalence)
# ---------------------------------------------------------------------------

def canon_mode(v, o, seq=None, set_iter=False):
    """A string that is equal for two values iff they are equal under the
    mode's equivalence.  Written from the property text, not from deephash.py.
    seq: override for how list/tuple items are compared (used by matchers);
    set_iter: sets rendered in their iteration order (the mechanism of K3, used by its matcher only)."""
    ir, io, ip = o[0], o[1], o[2]

    def go(x):
        if x is None:
            return "N"
        if isinstance(x, bool):
            return "b%d" % x
        if isinstance(x, int):
            return "i%d" % x
        if isinstance(x, float):
            return "f%r" % x
        if isinstance(x, str):
            return "s%r" % x
        if isinstance(x, bytes):
            return "y%r" % x
        if isinstance(x, (list, tuple)):
            items = [go(y) for y in x]
            tag = "L" if isinstance(x, list) else "T"
            if seq is not None:
                items = seq(items)
            elif io and ir:
                items = sorted(set(items))
            elif io:
                items = sorted(items)
            elif ir:
                seen, out = set(), []
                for it in items:
                    if it not in seen:
                        seen.add(it)
                        out.append(it)
                items = out
            return tag + "[" + ",".join(items) + "]"
        if isinstance(x, (set, frozenset)):
            ms = [go(y) for y in x]
            return ("S" if isinstance(x, set) else "F") + "{" + ",".join(ms if set_iter else sorted(ms)) + "}"
        if isinstance(x, dict):
            its = []
            for k, y in x.items():
                if ip and isinstance(k, str) and k.startswith("__"):
                    continue
                its.append(go(k) + "=>" + go(y))
            return "D{" + ",".join(sorted(its)) + "}"
        raise TypeError(x)
    return go(v)


# ---------------------------------------------------------------------------
# known-finding matchers (narrow)
# ---------------------------------------------------------------------------

def _spelled(x, o, hex_=False):
    """the str that DeepHash cannot tell from the non-string x: x's pre-hash serialisation"""
    from deepdiff import DeepHash
    from deepdiff.deephash import sha256hex
    seen = []

    def cap(s):
        seen.append(s)
        return hexhasher(s) if hex_ else sha256hex(s)
    DeepHash(x, hasher=cap, **kw(o))
    s = seen[-1]
    return s[4:] if s.startswith("str:") else None


def _strings_in(v, out):
    if isinstance(v, str):
        out.add(v)
    elif isinstance(v, (list, tuple, set, frozenset)):
        for x in v:
            _strings_in(x, out)
    elif isinstance(v, dict):
        for k, x in v.items():
            _strings_in(k, out)
            _strings_in(x, out)
    return out


def _respell(v, o, present, hex_=False):
    """replace (bottom-up) every non-string sub-value whose serialisation is spelled by a str present in the pair by that str"""
    if isinstance(v, list):
        w = [_respell(x, o, present, hex_) for x in v]
    elif isinstance(v, tuple):
        w = tuple(_respell(x, o, present, hex_) for x in v)
    elif isinstance(v, dict):
        w = {}
        for k, x in v.items():
            k2 = _respell(k, o, present, hex_)
            w[k2] = _respell(x, o, present, hex_)
    elif isinstance(v, (set, frozenset)):
        w = type(v)(_respell(x, o, present, hex_) for x in v)
    else:
        w = v
    if isinstance(w, (str, bytes)):
        return w
    try:
        s = _spelled(w, o, hex_)
    except Exception:
        return w
    return s if s in present else w


def _collapse(v, first=None):
    """what the == -keyed memo table does inside one value: an object that is == to a table key visited earlier
    (numbers of another type, hashable tuples / frozensets; bools at top level are BoolObj and alias nothing)
    is read as that earlier object"""
    first = {} if first is None else first
    k = base._BoolKey(v) if isinstance(v, bool) else v
    hashable = True
    try:
        if k in first:
            return first[k]
    except TypeError:
        hashable = False
    if isinstance(v, list):
        r = [_collapse(x, first) for x in v]
    elif isinstance(v, tuple):
        r = tuple(_collapse(x, first) for x in v)
    elif isinstance(v, dict):
        r = {}
        for kk, x in v.items():
            k2 = _collapse(kk, first)
            r[k2] = _collapse(x, first)
    elif isinstance(v, (set, frozenset)):
        r = type(v)([_collapse(x, first) for x in v])
    else:
        r = v
    if hashable:
        first[k] = r
    return r


def _k1(case):
    """a str whose content equals the pre-hash serialisation of a non-string value at the same place of the other value
    (possibly after the memo-table aliasing of K2 inside a value)"""
    if case.get("kind") != "collision":       # the finding is about two unequal values sharing a hash, nothing else
        return False
    o = tuple(case["opts"])
    a, b = from_repr(case["value"]), from_repr(case["other"])
    present = {s for s in _strings_in(a, set()) | _strings_in(b, set()) if s == "NONE" or ":" in s}
    if not present:
        return False
    hx = case.get("hasher") == "hex"
    if canon_mode(_respell(a, o, present, hx), o) == canon_mode(_respell(b, o, present, hx), o):
        return True
    a, b = _collapse(a), _collapse(b)
    return canon_mode(_respell(a, o, present, hx), o) == canon_mode(_respell(b, o, present, hx), o)


def _k4(case):
    """ordered mode + repetition: equal as first-occurrence-ordered count tables, different as sequences"""
    if case.get("kind") != "collision":
        return False
    o = tuple(case["opts"])
    if o[0] or o[1]:
        return False
    a, b = from_repr(case["value"]), from_repr(case["other"])

    def table(items):
        cnt, order = {}, []
        for it in items:
            if it not in cnt:
                order.append(it)
            cnt[it] = cnt.get(it, 0) + 1
        return ["%s|%d" % (it, cnt[it]) for it in order]
    if canon_mode(a, o, seq=table) == canon_mode(b, o, seq=table):
        return True
    a, b = _collapse(a), _collapse(b)      # together with the memo aliasing of K2
    return canon_mode(a, o, seq=table) == canon_mode(b, o, seq=table)


def _k2(case):
    """memo aliasing, recomputed on the pair: the mechanism of the UNCHANGED code (_collapse: every hashable object is
    read as the first == table key visited before it in the same value; a bool is its BoolObj at EVERY position - item,
    dict key, set member - and aliases nothing) acts inside one of the values and makes the two canonical forms EQUAL,
    i.e. K2 predicts this very collision.  An == -alias that is merely present does not absorb a collision
    ([1, {True: 'x'}] / [1, {1: 'x'}] is not K2: the key True is looked up as BoolObj.TRUE, never as 1)"""
    if case.get("kind") != "collision":
        return False
    o = tuple(case["opts"])
    a, b = from_repr(case["value"]), from_repr(case["other"])
    ca, cb = _collapse(a), _collapse(b)
    if not (_differs(ca, a) or _differs(cb, b)):     # the table merges nothing inside either value: not this finding
        return False
    return canon_mode(ca, o) == canon_mode(cb, o)


def _differs(v, w):
    return canon_mode(v, ORDERED_MODE) != canon_mode(w, ORDERED_MODE)


MATCHERS = {"K1": _k1, "K4": _k4, "K2": _k2}


# ---------------------------------------------------------------------------
# the pool
# ---------------------------------------------------------------------------

def near_collisions():
    from deepdiff import DeepHash
    h1 = DeepHash(1)[1]
    h2 = DeepHash(2)[2]
    hs = sorted([h1, h2])
    x1 = hexhasher("str:int:1")
    x2 = hexhasher("str:int:2")
    P = [
        # same items in different containers
        [1, 2], (1, 2), {1, 2}, frozenset({1, 2}), {1: 2}, {2: 1}, [[1, 2]], [(1, 2)], ([1, 2],), [{1, 2}], {1: None, 2: None},
        ["a", "b"], ("a", "b"), {"a", "b"}, frozenset({"a", "b"}), {"a": "b"}, {"b": "a"},
        # nestings that flatten to the same sequence
        [[1], [2]], [1, [2]], [[1], 2], [[[1]], 2], [[1, 2], []], [[], [1, 2]], [[1], [2], []], [[[1, 2]]], [[1], [[2]]],
        ((1,), (2,)), (1, (2,)), ((1,), 2), [(1,), [2]], [[1], (2,)],
        {"a": [1, 2]}, {"a": [1], "b": [2]}, {"a": {"b": 1}}, {"a": "b", "b": 1}, {"a": 1, "b": {}}, {"a": {"b": {}}},
        {1: {2: 3}}, {1: 2, 2: 3}, {1: [2, 3]}, {1: 2, 3: None},
        # strings that spell serialisations
        None, "NONE", 1, "int:1", True, "bool:true", False, "bool:false", 1.5, "float:1.5", "float:1.0", 1.0,
        [], "list:", (), "tuple:", set(), "set:", frozenset(), "frozenset:", {}, "dict:{}",
        [1], "list:" + h1, [1, 2], "list:" + ",".join(hs), (1,), "tuple:" + h1, {1}, "set:" + h1, [[1]],
        {1: 2}, "dict:{%s:%s}" % (h1, h2),
        # the same spelled with the digests of the hex hasher of the correspondence run
        "list:" + x1, "list:" + ",".join(sorted([x1, x2])), "tuple:" + x1, "set:" + x1, "dict:{%s:%s}" % (x1, x2),
        "list:%s|1" % x1, "list:%s|2" % x1, "str:a", "a", b"a", "bytes:a", "str:NONE", "str:int:1", ["NONE"], [None], {"NONE": 1}, {None: 1},
        {"k": "int:1"}, {"k": 1}, ["int:1", 1], [1, "int:1"], ["int:1"], "int:2", 2, "int:01", "int:1.0", "float:1", "number:1", "none", "None",
        "", b"", [""], [b""], ":", "|", ",", ";", "{", "}", "1", "1.5", "True",
        # repeated items in different positions
        [1, 2, 1], [1, 1, 2], [2, 1, 1], [1, 2, 2], [2, 1], [1, 1, 2, 2], [1, 2, 1, 2], [1, 1, 1], [1, 1], (1, 2, 1), (1, 1, 2), (2, 1),
        [[1], [1]], [[1]], [[1], [1], [2]], [[1], [2], [1]], [[1], [2], [2]], ["a", "a"], ["a"], [None, None], [None],
        [1, [1]], [[1], 1], [1, [1], 1], [1, 1, [1]],
        # == numbers of different types, empties
        0, 0.0, [0], [0.0], [False], [True], [1.0], (1.0,), (True,), {1.0}, {True}, {1.0: 2}, {True: 2}, {1: 2.0}, {1: True},
        [[]], [()], [set()], [{}], [frozenset()], ([],), ((),), [[], []], [[], ()], [(), ()],
        # private keys (ignored by default: documented option)
        {"__p": 1}, {"__p": 2}, {"__p": 1, "a": 1}, {"a": 1}, {"_p": 1}, {"__": 1},
        # aliasing inside one value (memo)
        [1, 1.0], [1.0, 1], [1, True], [(1,), (1.0,)], [(1,), (True,)], [(1,)], {'a': 0.0, 0: 0.5}, {0: 0.5, 'a': 0.0}, {'a': 0.0, 0.0: 0.5}, {'a': 0, 0: 0.5},
        [frozenset({1}), frozenset({1.0})], [frozenset({1})],
        # misc
        -1, "-1", "int:-1", -0.5, 10, 12345678901234567890, "é", ["é"], "\U0001d1c0", "x y", ["x", "y"], ["x y"], ["x,y"], ["x", ",", "y"],
    ]
    return P


IDENTITY_ATOMS = ["1", "0", "None", "True", "'x'", "''", "2.5", "(1, 2)"]
IDENTITY_TEMPLATES = [   # (with the recurring object, with that occurrence removed)
    ("{'a': a, 'b': [a]}", "{'a': a, 'b': []}"),
    ("{'a': a, 'b': [a, 2]}", "{'a': a, 'b': [2]}"),
    ("{'a': a, 'b': {'c': a}}", "{'a': a, 'b': {}}"),
    ("{'a': a, 'b': (a, 'y')}", "{'a': a, 'b': ('y',)}"),
    ("{'a': a, 'b': set([a, 'y'])}", "{'a': a, 'b': set(['y'])}"),
    ("{'a': a, 'b': [[a]]}", "{'a': a, 'b': [[]]}"),
    ("[{'a': a, 'b': [a]}]", "[{'a': a, 'b': []}]"),
    ("{'b': [a, 'y'], 'a': a}", "{'b': ['y'], 'a': a}"),
    ("{'a': a, 'b': a, 'c': [a, a, 3]}", "{'a': a, 'b': a, 'c': [3]}"),
    ("{'a': [a], 'b': {'c': [a]}}", "{'a': [a], 'b': {'c': []}}"),
]


def identity_shapes():
    """dicts one of whose direct values re-appears BY IDENTITY inside a sibling container value (CPython shares small
    ints, None, bools, interned strs; floats / tuples / containers are shared explicitly), each next to the value in
    which that occurrence is removed; lists and dicts holding one container object at several positions"""
    out = []
    for a in IDENTITY_ATOMS:
        for t1, t2 in IDENTITY_TEMPLATES:
            out.append(from_repr("(lambda a: %s)(%s)" % (t1, a)))
            out.append(from_repr("(lambda a: %s)(%s)" % (t2, a)))
    for s_ in ["['payload']", "{'p': 1}", "set([1, 2])"]:
        for t1, t2 in [("{'a': s, 'b': [[s]]}", "{'a': s, 'b': [[]]}"), ("{'a': s, 'b': s}", "{'a': s}"),
                       ("[s, {'k': s}]", "[s, {}]"), ("{'a': s, 'b': {'c': s}}", "{'a': s, 'b': {}}")]:
            out.append(from_repr("(lambda s: %s)(%s)" % (t1, s_)))
            out.append(from_repr("(lambda s: %s)(%s)" % (t2, s_)))
    seen, res = set(), []
    for v in out:
        try:
            values.to_coq(v)        # sets of the universe hold scalars only
        except TypeError:
            continue
        k = base.expr_shared(v)
        if k not in seen:
            seen.add(k)
            res.append(v)
    return res


KEY_ATOMS = ["1", "0", "7", "None", "True", "'x'", "''", "2.5", "(3, 4)", "frozenset([5, 6])"]
KEY_TEMPLATES = [   # (the entry's value object sits inside the entry's own KEY, the same key without that element)
    ("{(a, 2): a}", "{(2,): a}"),
    ("{(a,): a}", "{(): a}"),
    ("{(2, a, 3): a}", "{(2, 3): a}"),
    ("{frozenset([a, 'y']): a}", "{frozenset(['y']): a}"),
    ("{((a,), 2): a}", "{((), 2): a}"),
    ("{(2, (a, 'y')): a}", "{(2, ('y',)): a}"),
    ("{(a, 2): a, 'z': 0}", "{(2,): a, 'z': 0}"),
    ("{(a, 2): a, (2,): 'w'}", "{(2,): a, (2, 2, 2): 'w'}"),
    ("[{(a, 2): a}]", "[{(2,): a}]"),
    ("{'k': {(a, 2): a}}", "{'k': {(2,): a}}"),
    ("[{(a, 2): a}, {(a,): a}]", "[{(2,): a}, {(): a}]"),
    ("{(a, 2): [a]}", "{(2,): [a]}"),           # controls: the element is not the item itself
    ("{(a, 2): 'other'}", "{(2,): 'other'}"),
]


def key_shapes():
    """dicts whose KEY is a container (tuple / frozenset / nested tuple) that holds, BY IDENTITY, the very object
    stored under that key (small ints, None, bools, interned strs are shared by CPython; floats / tuples / frozensets
    through a lambda), each next to the dict whose key lacks exactly that element; at the root, inside a list, under
    a str key.  Returns (expression, value) pairs."""
    out, seen = [], set()
    for a in KEY_ATOMS:
        for t1, t2 in KEY_TEMPLATES:
            for t in (t1, t2):
                e = "(lambda a: %s)(%s)" % (t, a)
                try:
                    v = from_repr(e)
                except TypeError:
                    continue
                k = canon_mode(v, ORDERED_MODE) + repr(base.has_sharing(v))
                if k not in seen:
                    seen.add(k)
                    out.append((e, v))
    return out


HEADER_KEYS = base.HEADER + "\nFrom DD Require Import Hash.HashKeys."


def oracle_keys(ctx):
    """all pairs of the container-key shapes, three modes: equal hashes only for equal content; and the exact hash
    string of every such dict (root / inside a list / under a str key) == the model, which hashes a key as a value"""
    shapes = key_shapes()
    pool = [v for _e, v in shapes]
    for o in MODES3:
        oracle_pool(ctx, pool, o, None, "sha256,container_keys")
    cases = []
    for e, v in shapes:
        if values.contains_alias(list(base.all_atoms_deep(v))):
            continue
        wrap, d = "root", v
        key = None
        if isinstance(v, list) and len(v) == 1:
            wrap, d = "list", v[0]
        elif isinstance(v, dict) and list(v) == ["k"]:
            wrap, d, key = "key", v["k"], "k"
        if not isinstance(d, dict) or isinstance(v, list) and len(v) != 1:
            continue
        try:
            kvs = "[%s]" % "; ".join("(%s, %s)" % (values.to_coq(k), values.to_coq(x)) for k, x in d.items())
        except TypeError:        # a set of the universe holds scalars only: oracle only
            ctx.count("keys:oracle_only")
            continue
        for o in MODES3:
            fn = {"root": "run_kdict %s %s", "list": "run_kdict_in_list %s %s"}.get(wrap)
            expr = (fn % (base.coq_opts(o), kvs)) if fn else "run_kdict_under_key %s %s %s" % (base.coq_opts(o), values.atom_to_coq(key), kvs)
            cases.append((expr, impl_hash(v, o, hexhasher)[0], {"value": e, "opts": list(o), "check": "dict with container keys: key hashed as a value"}))
    ctx.coq_cases("c07_keys", HEADER_KEYS, cases, shard=60, label="container_keys_exact_strings")


# ---------------------------------------------------------------------------
# memo-order inputs (after seeded C07-10): an atom k in a KEY / member / item position of a root value that also holds,
# at another position visited EARLIER or LATER, an atom t that is == to k (its twin of another type, or k itself).
# What _hash does before it consults the == -keyed table (bool -> BoolObj) must happen at EVERY position: a bool
# never takes the hash of its numeric twin, whatever was visited before it.
# ---------------------------------------------------------------------------

MEMO_TWINS = [   # (k, the atoms that are == to k: the twins of other types, then k itself)
    ("True", ["1", "1.0", "True"]), ("False", ["0", "0.0", "False"]),
    ("1", ["True", "1.0", "1"]), ("0", ["False", "0.0", "0"]), ("1.0", ["True", "1", "1.0"]), ("0.0", ["False", "0", "0.0"]),
    ("2", ["2.0", "2"]), ("'x'", ["'x'"]), ("None", ["None"]),
    # composite keys (outside the universe of the models: oracle only)
    ("(1, 2)", ["(True, 2)", "(1.0, 2)", "(1, 2)"]), ("(True, 2)", ["(1, 2)", "(1.0, 2)", "(True, 2)"]),
    ("frozenset([1])", ["frozenset([True])", "frozenset([1.0])", "frozenset([1])"]),
    ("frozenset([True])", ["frozenset([1])", "frozenset([True])"]),
]
MEMO_CARRIERS = [   # where k sits
    ("dict_key", "{k: 'x'}"), ("dict_key_later", "{'p': 'q', k: []}"), ("set_member", "set([k])"), ("frozenset_member", "frozenset([k, 'y'])"),
    ("list_item", "[k, 'x']"), ("tuple_item", "(k, 'x')"), ("dict_value", "{'v': k}"),
]
MEMO_HOLDERS = [    # where t sits
    ("bare", "t"), ("list_item", "[t]"), ("tuple_item", "(t,)"), ("set_member", "set([t])"), ("frozenset_member", "frozenset([t])"),
    ("dict_value", "{'w': t}"), ("dict_key", "{t: 'y'}"),
]
MEMO_ROOTS = [      # H = the holder of t, C = the carrier of k: both visiting orders, list / tuple / dict root, one level deeper
    ("list:t_first", "[H, C]"), ("list:k_first", "[C, H]"), ("dict:t_first", "{'a': H, 'b': C}"), ("dict:k_first", "{'b': C, 'a': H}"),
    ("tuple:t_first", "(H, C)"), ("deeper:k_first", "[[C], H]"), ("tuple:k_first", "(C, H)"), ("deeper:t_first", "{'a': H, 'b': [C]}"),
]
MEMO_SPECIAL = [    # k and t inside ONE dict: t the enclosing key, t the key's own item, t an earlier / later sibling item or key
    ("enclosing_key", "{t: {k: 'x'}}"), ("own_item", "{k: t}"), ("own_item_in_list", "{k: [t]}"), ("sibling_item_earlier", "{'z': t, k: 'x'}"),
    ("sibling_item_later", "{k: 'x', 'z': t}"), ("alone", "{k: 'x'}"), ("alone_in_list", "[{k: 'x'}]"), ("member_alone", "[set([k])]"),
    ("sibling_key_nested", "[{t: 'y', 'c': {k: 'x'}}]"), ("two_levels", "{'a': 0.5, 'b': [t, {'c': [{k: []}]}]}"),
]


def _in_universe(v):
    try:
        values.to_coq(v)
        return True
    except (TypeError, AssertionError):
        return False


def memo_order_shapes(roots=None, n_roots=6):
    """[(group, expression, value, (k, t))]: every (k, t) of MEMO_TWINS at every (carrier of k) x (holder of t) x (root
    shape), plus the one-dict shapes.  group = the shape without (k, t): the values of one group differ in k / t only, so
    a key that takes its twin's hash makes two values of one group collide."""
    out, seen = [], set()

    def add(group, e, kt):
        if e in seen:
            return
        try:
            v = from_repr(e)
        except TypeError:        # unhashable member / key: not a value
            return
        seen.add(e)
        out.append((group, e, v, kt))
    for k, ts in MEMO_TWINS:
        numeric = k in MEMO_NUMERIC
        composite = k[0] in "(f"
        for t in ts:
            bind = "(lambda k, t: %%s)(%s, %s)" % (k, t)
            for cn, c in (MEMO_CARRIERS[:3] if composite else MEMO_CARRIERS):
                for hn, h in (MEMO_HOLDERS[::2] if composite else MEMO_HOLDERS):
                    for rn, r in (roots or (MEMO_ROOTS[:n_roots] if numeric else MEMO_ROOTS[:2])):
                        add((rn, cn, hn), bind % r.replace("H", h).replace("C", c), (k, t))
            for sn, s_ in MEMO_SPECIAL:
                add(("one_dict", sn), bind % s_, (k, t))
    return out


MEMO_NUMERIC = ("True", "1", "1.0", "False", "0", "0.0")


def oracle_memo_order(ctx, shapes):
    """direct oracle on the memo-order inputs: all pairs, three modes (SHA-256; thorough: the hex hasher as well)"""
    pool = [s_[2] for s_ in shapes]
    for o in MODES3:
        oracle_pool(ctx, pool, o, None, "sha256,memo_order")
        if ctx.thorough:
            oracle_pool(ctx, pool, o, hexhasher, "hex,memo_order")
    for s_ in shapes:
        ctx.count("memo_order:values:" + s_[0][0])


def corr_memo_order(ctx, shapes):
    """the model (hash_memo: bool keys / members / items are BoolObj BEFORE the table lookup, everything else is looked up
    by ==) against the implementation on the memo-order inputs inside the universe: (a) per group, the equality pattern
    of the SHA-256 hashes == the pattern of `deephash hexhash`; (b) the exact root string and EVERY table entry (the
    per-object hashes) == run_one.  Quick tier: a systematic slice - (a) list roots in both visiting orders and
    the one-dict shapes, every carrier x holder, the True/1/1.0 and the False/0/0.0 family alternating, the three modes
    rotating so that every carrier and every holder meets every mode; (b) one value with a bool key or a bool twin per
    carrier x holder (list root, the visiting order alternating) and per one-dict shape (type-checking the expected
    tables is what costs).  Thorough: everything, three modes.  (The direct oracle sees all of it in every tier.)"""
    ci = {n: i for i, (n, _c) in enumerate(MEMO_CARRIERS)}
    hi = {n: i for i, (n, _h) in enumerate(MEMO_HOLDERS)}
    ri = {n: i for i, (n, _r) in enumerate(MEMO_ROOTS)}
    si = {n: i for i, (n, _s) in enumerate(MEMO_SPECIAL)}
    groups = {}
    for g, e, v, kt in shapes:
        if _in_universe(v):
            groups.setdefault(g, []).append((e, v, kt))
    cases, exact = [], []
    for g, evs in groups.items():
        if g[0] == "one_dict":
            rot, modes = si[g[1]], MODES3
            evs = [x for x in evs if x[2][0] in MEMO_NUMERIC or ctx.thorough]
        else:
            rot, modes = ci[g[1]] + hi[g[2]] + ri[g[0]], MODES3
            if not ctx.thorough:
                if ri[g[0]] >= 2:
                    continue
                fam = MEMO_NUMERIC[:3] if (ci[g[1]] + hi[g[2]] + ri[g[0]]) % 2 == 0 else MEMO_NUMERIC[3:]
                evs = [x for x in evs if x[2][0] in fam]
        if not ctx.thorough:
            modes = [MODES3[rot % 3]]
        vs = [v for _e, v, _kt in evs]
        body = ";\n ".join(values.to_coq(v) for v in vs)
        for o in modes:
            hs = [impl_hash(v, o)[0] for v in vs]
            cases.append(("run_classes %s [%s]" % (base.coq_opts(o), body), base.classes_of(hs),
                          {"group": list(g), "values": [e for e, _v, _kt in evs], "opts": list(o), "check": "memo-order inputs: sha256 equality pattern == model"}))
            ctx.count("corr:memo_order_pattern_pairs", len(vs) * (len(vs) - 1) // 2)
        # exact strings and tables: values in which k or t is a bool (the unchanged code keeps them apart from their twins)
        bools = [x for x in evs if x[2][0] != x[2][1] and ("True" in x[2] or "False" in x[2])]
        picks = bools if ctx.thorough else [bools[rot % len(bools)]] if bools and (g[0] == "one_dict" or ri[g[0]] == (ci[g[1]] + hi[g[2]]) % 2) else []
        for j, (e, v, _kt) in enumerate(picks):
            o = MODES3[(rot + 1 + j) % 3]
            root, dh = impl_hash(v, o, hexhasher)
            exact.append(("run_one %s %s" % (base.coq_opts(o), values.to_coq(v)), [root, base.table_of(dh.hashes, [v])],
                          {"value": e, "opts": list(o), "impl_root": base.unhex(root)[:300], "check": "memo-order input: root and every table entry"}))
    ctx.coq_cases("c07_memo_pattern", base.HEADER, cases, shard=max(4, len(cases) // core.NCPU + 1), label="memo_order_equality_patterns")
    ctx.coq_cases("c07_memo_exact", base.HEADER, exact, shard=max(20, len(exact) // core.NCPU + 1), label="memo_order_exact_strings_and_tables")


MATCHER_AUDIT = [   # (finding, value, other, mode, must the matcher accept?)
    ("K2", "[1, 1.0]", "[1]", SET_MODE, True), ("K2", "[(1,), (True,)]", "[(1,)]", SET_MODE, True),
    ("K2", "[1, {1.0: 'x'}]", "[1, {1: 'x'}]", MULTI_MODE, True),
    # an == -alias is present in each of these, but the table of the unchanged code never merges the pair:
    ("K2", "[1, {True: 'x'}]", "[1, {1: 'x'}]", SET_MODE, False), ("K2", "[1.0, {True: None}]", "[1.0, {1.0: None}]", ORDERED_MODE, False),
    ("K2", "{'a': 0, 'b': [{False: []}]}", "{'a': 0, 'b': [{0: []}]}", MULTI_MODE, False),
    ("K2", "[1, set([True])]", "[1, set([1])]", SET_MODE, False), ("K2", "[1, (True, 'x')]", "[1, (1, 'x')]", SET_MODE, False),
    ("K2", "[True, {1: 'x'}]", "[True, {True: 'x'}]", SET_MODE, False), ("K2", "[{1: 'x'}, 1.0]", "[{1: 'x'}, True]", SET_MODE, False),
    ("K2", "[1, 1.0, {True: 'x'}]", "[1, 1.0, {1: 'x'}]", SET_MODE, False), ("K2", "{True: 1}", "{1: 1}", SET_MODE, False),
    ("K4", "[1, {True: 'x'}]", "[1, {1: 'x'}]", ORDERED_MODE, False), ("K1", "[1, {True: 'x'}]", "[1, {1: 'x'}]", SET_MODE, False),
]


def matcher_audit(ctx):
    """the known-finding matchers must recompute the finding's MECHANISM on the pair (K2: the pair is equal once every
    object is read as the first == table key visited before it, a bool being its BoolObj at every position) - the mere
    presence of an == -alias must not absorb a collision the unchanged code does not have"""
    for key, a, b, o, want in MATCHER_AUDIT:
        case = {"kind": "collision", "opts": list(o), "value": a, "other": b, "hasher": "sha256"}
        got = bool(MATCHERS[key](case))
        ctx.count("matcher_audit:cases")
        if got != want:
            ctx.break_("harness", {"name": "matcher_audit", "detail": "matcher %s %s the pair %s / %s (%s mode); it must %s it" % (
                key, "accepts" if got else "rejects", a, b, MODE_NAME.get(o, "?"), "accept" if want else "reject")})


def spells_digest(v):
    return any(len(s) > 20 for s in _strings_in(v, set()))


def build_pool(rng, n_random, size):
    pool = near_collisions() + identity_shapes()
    rnd = base.make_values(rng, n_random, 3, alias_frac=0.15)
    for v in rnd:
        pool.append(v)
        pool.append(base.rebuild(v, rng, dict_order=True, set_order=True, seq_order=True))
        if isinstance(v, list) and v:
            pool.append(v + [copy.deepcopy(rng.choice(v))])   # a repetition
            pool.append(tuple(copy.deepcopy(v)))                # same items, other container
        for _ in range(2):
            w, kind = values.edit(rng, v, alias=False, strings=base.STRS)
            if kind is not None:
                pool.append(w)
    pool = [v for v in pool if in_model_range(v)]
    return pool[:size]


# ---------------------------------------------------------------------------
# direct oracle
# ---------------------------------------------------------------------------

def oracle_pool(ctx, pool, o, hasher=None, label="sha256"):
    hs = []
    for v in pool:
        try:
            hs.append(impl_hash(v, o, hasher)[0])
        except Exception as e:
            ctx.fail({"kind": "raise", "opts": list(o), "value": base.expr_shared(v), "error": repr(e)}, "DeepHash raised %r on %r" % (e, v))
            hs.append(None)
    cs = [canon_mode(v, o) for v in pool]
    groups = {}
    for i, h in enumerate(hs):
        groups.setdefault(h, []).append(i)
    n = len(pool)
    ctx.evaluations += n * (n - 1) // 2
    ctx.count("oracle:pairs:%s:%s" % (MODE_NAME[o], label), n * (n - 1) // 2)
    same_hash_pairs = 0
    for h, idx in groups.items():
        if h is None:
            continue
        for i, j in itertools.combinations(idx, 2):
            same_hash_pairs += 1
            ctx.nontrivial.add((label, o, i, j))
            if cs[i] != cs[j]:
                case = {"kind": "collision", "opts": list(o), "value": base.expr_shared(pool[i]), "other": base.expr_shared(pool[j]), "hasher": label}
                ctx.fail(case, "equal hashes for values that differ as %s: %r vs %r" % (
                    {"set": "nested sets", "multiset": "nested multisets", "ordered": "ordered values"}[MODE_NAME[o]], pool[i], pool[j]))
    # pairs of the same type with different hashes are the other non-trivial half
    ctx.count("oracle:equal_hash_pairs:%s:%s" % (MODE_NAME[o], label), same_hash_pairs)
    canon_groups = len(set(cs))
    ctx.count("oracle:canonical_classes:%s" % MODE_NAME[o], canon_groups)


def no_repeated_items(v, o):
    """K4 guard (ordered mode): no list / tuple holds two items that are equivalent under the mode"""
    if isinstance(v, (list, tuple)):
        cs = [canon_mode(x, o) for x in v]
        return len(set(cs)) == len(cs) and all(no_repeated_items(x, o) for x in v)
    if isinstance(v, dict):
        return all(no_repeated_items(x, o) for x in v.values())
    return True


def corr_spec(ctx, pool, name):
    """the specification used by the theorems (eqv, through hash_pure and the proved equivalence
    hash equal <-> eqv inside the guards) and the specification used by the oracle (canon_mode) induce the same
    partition of the guard-satisfying part of the pool"""
    cases = []
    for o in MODES3:
        vs = [v for v in pool if base.tag_safe_py(v) and not values.contains_alias(v) and not spells_digest(v)
              and (o[1] or (no_repeated_items(v, o) and base.small_sets_py(v)))]
        cs = base.classes_of([canon_mode(v, o) for v in vs])
        cases.append(("run_classes_pure %s [%s]" % (base.coq_opts(o), ";\n ".join(values.to_coq(v) for v in vs)), cs,
                      {"pool_in_guard": len(vs), "opts": list(o), "check": "canonical-form classes == hash_pure classes"}))
        ctx.count("spec:in_guard:%s" % MODE_NAME[o], len(vs))
        ctx.count("spec:classes:%s" % MODE_NAME[o], len(set(cs)))
    ctx.coq_cases(name, base.HEADER, cases, shard=1, label="spec_partition_pools")


HEADER_ALIKE = base.HEADER + "\nFrom DD Require Import Hash.HashAlike Hash.HashAlikeShow."
MODES4 = base.MODES4


def distinct_item_hashes(v, o):
    """the input-level K4 guard (norep) as observed on the implementation: no list / tuple inside v holds two items
    that DeepHash gives the same hash (each item hashed on a fresh table)"""
    if isinstance(v, (list, tuple)):
        hs = [impl_hash(x, o)[0] for x in v]
        return len(set(hs)) == len(hs) and all(distinct_item_hashes(x, o) for x in v)
    if isinstance(v, dict):
        return all(distinct_item_hashes(x, o) for x in v.values())
    return True


def corr_alike(ctx, pool, name):
    """C07_hash_alike_exact observed on the implementation: over the tag-safe, alias-free part of the pool (no other
    guard: repeated items, sets of any size, all FOUR (ignore_repetition, ignore_iterable_order) combinations), the
    partition by the default SHA-256 hash == the partition by the decidable relation heqb computed in Coq; and the
    input-level guard norep (Coq) == 'no list/tuple holds two items with the same DeepHash' (implementation)"""
    vs = [v for v in pool if base.tag_safe_py(v) and not values.contains_alias(v) and not spells_digest(v)]
    if not ctx.thorough:
        vs = vs[:300]          # the hand-written near-collisions and identity shapes come first
    cases, guards = [], []
    body = ";\n ".join(values.to_coq(v) for v in vs)
    for o in MODES4:
        hs = [impl_hash(v, o)[0] for v in vs]
        cs = base.classes_of(hs)
        cases.append(("run_classes_alike %s [%s]" % (base.coq_opts(o), body), cs,
                      {"pool_tag_safe_alias_free": len(vs), "opts": list(o), "check": "sha256 classes == heqb classes"}))
        n = len(vs)
        ctx.count("alike:pairs:%s" % MODE_NAME[o], n * (n - 1) // 2)
        ctx.count("alike:classes:%s" % MODE_NAME[o], len(set(cs)))
        ctx.evaluations += n * (n - 1) // 2
    o = ORDERED_MODE
    nr = [distinct_item_hashes(v, o) for v in vs]
    ctx.count("alike:norep:in", sum(nr))
    ctx.count("alike:norep:out", len(nr) - sum(nr))
    guards.append(("run_norep %s [%s]" % (base.coq_opts(o), body), nr,
                   {"pool": len(vs), "check": "norep (Coq, input level) == pairwise distinct item hashes (implementation)"}))
    ctx.coq_cases(name, HEADER_ALIKE, cases, shard=1, label="exact_relation_heqb_partition_pools")
    ctx.coq_cases(name + "_norep", HEADER_ALIKE, guards, shard=1, label="norep_guard_pools")


# ---- lazily built iterables, shared tables with temporaries (identity re-use), oracle only ----------------

class Rows:
    """a lazy table: iterating builds a brand new (unhashable) object for every row and drops it"""

    def __init__(self, data, conv):
        self.data = data
        self.conv = conv

    def __iter__(self):
        for r in self.data:
            row = self.conv(r)
            yield row


def _gen(data, conv):
    for r in data:
        yield conv(r)


LAZY_FACTORIES = {
    "Rows": lambda data, conv: Rows(data, conv),
    "generator": lambda data, conv: _gen(data, conv),
    "map": lambda data, conv: map(conv, data),
}
LAZY_SHAPES = {
    "list": (list, lambda i: (i,)),
    "list2": (list, lambda i: (i, i + 100)),
    "set": (set, lambda i: (i,)),
    "dict": (dict, lambda i: ((i, i),)),
    "nested": (lambda t: [list(t)], lambda i: (i, "r")),
}


def lazy_family(shape, n):
    """contents (lists of row seeds): the base and every variant in which row k is replaced by a copy of row j"""
    conv, mk = LAZY_SHAPES[shape]
    base = [mk(i) for i in range(n)]
    fam = [base]
    for j in range(n):
        for k in range(n):
            if j != k:
                other = list(base)
                other[k] = base[j]
                fam.append(other)
    return conv, fam


def lazy_check(ctx, factory, shape, n, o):
    """hash of a lazily built iterable depends on its content only: equal hashes => equal canonical content"""
    from deepdiff import DeepHash
    conv, fam = lazy_family(shape, n)
    seen = {}
    k = kw(o)
    for data in fam:
        v = LAZY_FACTORIES[factory](data, conv)
        h = DeepHash(v, **k)[v]
        c = canon_mode([conv(r) for r in data], o)
        ctx.evaluations += 1
        if h in seen and seen[h][0] != c:
            ctx.nontrivial.add(("lazy", factory, shape, n, o, c))
            ctx.fail({"kind": "lazy_rows", "opts": list(o), "factory": factory, "shape": shape, "n": n,
                      "rows": repr(seen[h][1]), "other_rows": repr(data)},
                     "a lazily built iterable (%s of %s rows) with rows %r shares its hash with one with rows %r" % (factory, shape, seen[h][1], data))
            return False
        seen.setdefault(h, (c, data))
    return True


def oracle_lazy(ctx):
    for o in MODES3:
        for factory in LAZY_FACTORIES:
            for shape in LAZY_SHAPES:
                for n in ((3, 4, 8) if not ctx.thorough else (3, 4, 8, 14)):
                    ctx.count("oracle:lazy_families")
                    if not lazy_check(ctx, factory, shape, n, o):
                        break


def shared_temporaries_check(ctx, o, n, variant):
    """one hashes= table shared by successive calls on short-lived values with pairwise different contents:
    a hash handed out twice must be for the same content"""
    from deepdiff import DeepHash
    shared, seen = {}, {}
    k = kw(o)
    for i in range(n):
        if variant == 0:
            v = [i, -i - 1]
        elif variant == 1:
            v = {"k": [i], "j": {i + 1000}}
        else:
            v = ([i, [i + 1]], {"x": i})
        c = canon_mode(v, o)
        h = DeepHash(v, hashes=shared, **k)[v]
        ctx.evaluations += 1
        if h in seen and seen[h][0] != c:
            ctx.fail({"kind": "shared_temporaries", "opts": list(o), "n": n, "variant": variant, "index": i,
                      "value": seen[h][1], "other": repr(v)},
                     "with a hashes= table shared across calls on short-lived values, %s and %r share a hash" % (seen[h][1], v))
            return
        seen[h] = (c, repr(v))
        del v


def oracle_shared_temporaries(ctx):
    for o in MODES3:
        for variant in (0, 1, 2):
            ctx.count("oracle:shared_temporaries_streams")
            shared_temporaries_check(ctx, o, 300, variant)


# ---- strings DeepHash may refuse: lone surrogates ---------------------------------------------

def surrogate_pool():
    s1, s2 = "caf\ud800", "caf\ud801"
    f1, f2 = "report-\udce9.txt", "report-\udce8.txt"
    P = [s1, s2, "caf?", "caf\ufffd", "caf", f1, f2, "report-?.txt", "\ud800", "\udfff", "?", "\ud800\udc00", "\udc00\ud800",
         [f1, "readme.md"], [f2, "readme.md"], ["report-?.txt", "readme.md"],
         {"name": f1, "size": 3}, {"name": f2, "size": 3}, {f1: 1}, {f2: 1}, {"report-?.txt": 1},
         (s1, s1, "x"), (s1, s2, "x"), (s2, s2, "x"), ("caf?", "caf?", "x"), {s1}, {s2}, {"caf?"}, [s1], [s2], [[s1]], [[s2]]]
    # what the other codec error handlers would turn a lone surrogate into (a hasher that encodes with one of them
    # instead of refusing maps the surrogate string onto one of these ordinary strings)
    P += ["caf\\ud800", "caf&#55296;", "caf\\udcc3\\udca9", "\\ud800", "&#55296;", ["caf\\ud800"], {"caf\\ud800": 1}]
    # escape surrogates U+DC80..U+DCFF (what os.fsdecode / sys.argv / os.listdir produce for undecodable bytes): the
    # escaped form of the UTF-8 bytes of a non-ASCII string, the string itself, and mixed forms (only some of the
    # non-ASCII characters escaped) - as leaves, list / tuple items, dict keys and values, set members, repeated items
    for s in SURROGATE_ESCAPE_SAMPLES:
        forms = [s] + escaped_forms(s)
        P += forms
        for f in forms:
            P += [[f, 1], [[f]], (f, "x"), {f: 1}, {"name": f}, {f}, frozenset([f, "y"])]
        e = forms[1]
        P += [[s, s, e], [s, e, e], [e, s], {s: e}, {e: s}, {s, "z"}, {e, "z"}]
    # escaped bytes that do NOT spell valid UTF-8 have no ordinary string to collide with, only each other
    P += ["\udcff", "\udcfe", "\udc80", "a\udc80", "\udcc3", "\udcc3\udc28", ["\udcff"], {"\udcff": 1}]
    return P


SURROGATE_ESCAPE_SAMPLES = ["caf\xe9", "€", "\xe9", "na\xefve caf\xe9", "\U0001d1c0", "\xff", "r\xe9sum\xe9.txt", "Жз"]


def escaped_forms(s):
    """the strings that encode to the same bytes as s under errors='surrogateescape': every non-ASCII UTF-8 byte as
    chr(0xDC00 + byte) (all of them / only those of the first / only those of the last non-ASCII character)"""
    def esc(ch):
        return "".join(chr(0xDC00 + b) for b in ch.encode("utf-8"))
    idx = [i for i, ch in enumerate(s) if ord(ch) >= 128]
    out = ["".join(esc(ch) if ord(ch) >= 128 else ch for ch in s)]
    if len(idx) > 1:
        out.append("".join(esc(ch) if i == idx[0] else ch for i, ch in enumerate(s)))
        out.append("".join(esc(ch) if i == idx[-1] else ch for i, ch in enumerate(s)))
    return out


def oracle_surrogates(ctx):
    """either DeepHash refuses the value (UnicodeEncodeError: no hash handed out) or unequal values get different hashes"""
    from deepdiff import DeepHash
    pool = surrogate_pool()
    for o in MODES3:
        for label, hasher in (("sha256", None), ("sha1", DeepHash.sha1hex)):
            hs = {}
            refused = 0
            for v in pool:
                try:
                    h = impl_hash(v, o, hasher)[0]
                except UnicodeEncodeError:
                    refused += 1
                    continue
                c = canon_mode(v, o)
                ctx.evaluations += 1
                if h in hs and hs[h][0] != c:
                    ctx.nontrivial.add(("surrogate", label, o, c))
                    ctx.fail({"kind": "collision", "opts": list(o), "value": base.expr_shared(hs[h][1]), "other": base.expr_shared(v), "hasher": label},
                             "equal hashes for different strings with lone surrogates: %s vs %s" % (ascii(hs[h][1]), ascii(v)))
                hs.setdefault(h, (c, v))
            ctx.count("oracle:surrogate_values:%s" % label, len(pool))
            ctx.count("oracle:surrogate_refused:%s" % label, refused)


def oracle_other_leaves(ctx):
    """families of pairwise unequal values of leaf types outside the models (uuid, complex, time with microseconds,
    ip interfaces, __slots__ objects, Enum members, numpy, pytz datetimes, ranges): no two share a hash"""
    fams, build = base.other_leaf_families()
    for name, exprs in fams.items():
        for o in MODES3:
            hs = []
            for e in exprs:
                v = build(e)
                try:
                    hs.append(impl_hash(v, o)[0])
                except Exception as ex:
                    hs.append(None)
                    ctx.count("oracle:other_leaves:raises:" + type(ex).__name__)
            n = len(exprs)
            ctx.evaluations += n * (n - 1) // 2
            ctx.count("oracle:other_leaf_families")
            for i, j in itertools.combinations(range(n), 2):
                if hs[i] is not None and hs[i] == hs[j]:
                    ctx.nontrivial.add(("other_leaf", name, o, i, j))
                    ctx.fail({"kind": "other_leaf_collision", "family": name, "opts": list(o), "value_expr": exprs[i], "other_expr": exprs[j]},
                             "equal hashes for the unequal values %s and %s" % (exprs[i], exprs[j]))


def oracle_hashers(ctx, pool):
    """hasher variants: the equality pattern over the pool does not depend on which collision-free hasher is plugged in -
    SHA-1, a hasher returning ints (joined through map(str, ...)), the default named explicitly - it is the pattern of
    the default SHA-256 run (which corr_pattern / corr_alike tie to the model)"""
    import hashlib
    from deepdiff import DeepHash
    variants = [("sha1", DeepHash.sha1hex), ("sha256_explicit", DeepHash.sha256hex),
                ("int_valued", lambda s: int(hashlib.sha256(s.encode("utf-8") if isinstance(s, str) else s).hexdigest(), 16)),
                ("md5_upper", lambda s: hashlib.md5(s.encode("utf-8") if isinstance(s, str) else s).hexdigest().upper())]
    vs = [v for v in pool if not spells_digest(v)]
    for o in MODES3:
        ref = base.classes_of([impl_hash(v, o)[0] for v in vs])
        for name, h in variants:
            got = base.classes_of([impl_hash(v, o, h)[0] for v in vs])
            n = len(vs)
            ctx.evaluations += n * (n - 1) // 2
            ctx.count("oracle:hasher_variant_pools")
            if got != ref:
                i = next(k for k in range(n) if got[k] != ref[k])
                j = got[i] if got[i] != i else ref[i]
                ctx.fail({"kind": "hasher_variant", "hasher": name, "opts": list(o), "value": base.expr_shared(vs[i]), "other": base.expr_shared(vs[j])},
                         "with hasher %s the pair %r / %r is told apart differently than with the default hasher" % (name, vs[i], vs[j]))


def replay_witnesses(ctx):
    from deepdiff import DeepHash
    for s, x in [("NONE", None), ("int:1", 1), ("bool:true", True), ("list:", []), ("float:1.5", 1.5), ("dict:{}", {})]:
        if DeepHash(s)[s] != DeepHash(x)[x]:
            ctx.break_("correspondence", {"name": "C07_str_vs_tagged_refuted",
                                          "detail": "K1 witness %r vs %r no longer collides: the model (final re-tagging step) is stale" % (s, x)})
    k = kw(ORDERED_MODE)
    a, b = [1, 2, 1], [1, 1, 2]
    if DeepHash(a, **k)[a] != DeepHash(b, **k)[b]:
        ctx.break_("correspondence", {"name": "C07_ordered_repetition_refuted",
                                      "detail": "K4 witness [1,2,1] vs [1,1,2] no longer collides in ordered mode: the model is stale"})
    a, b = [1, 1.0], [1]
    if DeepHash(a)[a] != DeepHash(b)[b]:
        ctx.break_("correspondence", {"name": "C07_memo_refuted", "detail": "K2 witness [1,1.0] vs [1] no longer collides: the model (memo keyed by ==) is stale"})
    # C07_extended_refuted: K1 on the leaf types of the extended model; apply_hash=False needs no hasher to collide
    import collections, datetime, decimal, pathlib
    for s, x in [("datetime:2020-01-02", datetime.date(2020, 1, 2)), ("Decimal:1.5", decimal.Decimal("1.5")),
                 ("PosixPath:/a/b", pathlib.PosixPath("/a/b")), ("ntPt:{}", collections.namedtuple("Pt", [])())]:
        if DeepHash(s)[s] != DeepHash(x)[x]:
            ctx.break_("correspondence", {"name": "C07_extended_refuted", "detail": "K1 witness %r vs %r no longer collides: the extended model is stale" % (s, x)})
    a, b = ["a,str:b"], ["a", "b"]
    if DeepHash(a, apply_hash=False)[a] != DeepHash(b, apply_hash=False)[b]:
        ctx.break_("correspondence", {"name": "C07_extended_refuted", "detail": "apply_hash=False witness ['a,str:b'] vs ['a','b'] no longer collides: the extended model is stale"})
    ctx.note("refuted_witnesses_replayed", ["C07_str_vs_tagged_refuted(K1)", "C07_ordered_repetition_refuted(K4)", "C07_memo_refuted(K2)",
                                            "C07_extended_refuted(K1 on date / Decimal / Path; apply_hash=False)"])


# ---------------------------------------------------------------------------
# source tie (DESIGN.md section 4.5), shared with c06: the serialiser regenerated from the current deephash.py
# (harness/translate/deephashprep.py -> DDGen.HashGen) is proved equal to Hash/HashModel.v on every run
# (coq/srctie/HashGenEquiv.v), and the injectivity theorems are restated about it (coq/srctie/HashGenEquivC07.v)
# ---------------------------------------------------------------------------
TIE_NAME = base.TIE_NAME
SOURCE_TIES = [dict(base.SOURCE_TIES[0], equiv=["HashGenEquiv", "HashGenEquivC07"],
                    needs=base.SOURCE_TIES[0]["needs"] + ["Properties.C07"])]


def on_source_tie_break(ctx, name, rec):
    """differing inputs of generated vs hand-written serialiser (c06.tie_difference) judged by this property's ordinary
    correspondence (exact strings and table) and direct oracle (all pairs of the differencing universe: equal hash only for
    equal canonical content).  A broken tie by itself calls neither ctx.fail nor ctx.break_."""
    res, picked = base.tie_difference(ctx, rec)
    if picked:
        base.tie_correspondence(ctx, picked)
        univ = [v for v in base.tie_universe() if _in_universe(v)]
        for o in MODES3:
            oracle_pool(ctx, univ, o, None, "sha256,source_tie")
        res["replayed"] = len(picked)
        res["oracle_pool"] = len(univ)
    return res


def run(ctx):
    rng = ctx.rng
    sys.setrecursionlimit(10000)
    replay_witnesses(ctx)
    pool = build_pool(rng, 45, 480)
    ctx.note("pool", {"size": len(pool), "hand_written_near_collisions": len(near_collisions()),
                      "identity_shapes(one object at several positions)": len(identity_shapes())})
    for v in pool[:3] + pool[-3:]:
        ctx.sample({"value": repr(v), "canonical(set mode)": canon_mode(v, SET_MODE)[:200]})
    for v in pool:
        ctx.count("pool:alias" if values.contains_alias(v) else "pool:alias_free")
    # correspondence: exact strings on the pool, three modes
    base.corr_single(ctx, pool, MODES3, "c07_single", "exact_strings_pool")
    base.corr_guards(ctx, pool, "c07", pure_stride=1 if ctx.thorough else 2)
    # correspondence: SHA-256 equality pattern == model pattern
    # (strings that spell a serialisation containing a SHA-256 digest collide under SHA-256 only: hasher-specific, left to the oracle)
    base.corr_pattern(ctx, [v for v in pool if not spells_digest(v)], MODES3, "c07_pattern")
    corr_spec(ctx, pool, "c07_spec")
    corr_alike(ctx, pool, "c07_alike")
    oracle_hashers(ctx, pool)
    oracle_other_leaves(ctx)
    oracle_keys(ctx)
    matcher_audit(ctx)
    shapes = memo_order_shapes(n_roots=8 if ctx.thorough else 6)
    oracle_memo_order(ctx, shapes)
    corr_memo_order(ctx, shapes)
    # direct oracle: all pairs, three modes, both hashers
    for o in MODES3:
        oracle_pool(ctx, pool, o, None, "sha256")
        oracle_pool(ctx, pool, o, hexhasher, "hex")
    # ignore_private_variables=False as well
    for o in MODES3:
        o2 = (o[0], o[1], False) + o[3:]
        MODE_NAME[o2] = MODE_NAME[o]
        oracle_pool(ctx, pool, o2, None, "sha256,private_kept")
    oracle_lazy(ctx)
    oracle_shared_temporaries(ctx)
    oracle_surrogates(ctx)
    if ctx.thorough or ctx.tie_broken(TIE_NAME):      # a source tie that is not intact escalates the search
        for r in range(6):
            pool2 = build_pool(random.Random(rng.randrange(1 << 30)), 80, 620)[len(near_collisions()) + len(identity_shapes()) - 40:]
            base.corr_pattern(ctx, [v for v in pool2[:300] if not spells_digest(v)], MODES3, "c07_pattern_%d" % r)
            for o in MODES3:
                oracle_pool(ctx, pool2, o, None, "sha256")
        big = base.make_values(rng, 400, 4)
        base.corr_single(ctx, big, MODES3, "c07_single_big", "exact_strings_random")


def replay(ctx, data):
    case = data.get("case", {})
    if case.get("kind") == "lazy_rows":
        o = tuple(case["opts"])
        ok = lazy_check(ctx, case["factory"], case["shape"], case["n"], o)
        print("replay: lazy rows factory=%s shape=%s n=%d -> %s" % (case["factory"], case["shape"], case["n"], "no collision" if ok else "collision"))
        return
    if case.get("kind") == "shared_temporaries":
        o = tuple(case["opts"])
        n0 = len(ctx.failures) + len(ctx.known_seen)
        shared_temporaries_check(ctx, o, case["n"], case["variant"])
        print("replay: shared hashes= table over %d short-lived values (variant %d)" % (case["n"], case["variant"]))
        return
    if case.get("kind") == "other_leaf_collision":
        oracle_other_leaves(ctx)
        print("replay: families of unequal values of leaf types outside the models: %s / %s" % (case.get("value_expr"), case.get("other_expr")))
        return
    if "value" not in case or "other" not in case:
        return run(ctx)
    if case.get("kind") == "hasher_variant":
        oracle_hashers(ctx, [from_repr(case["value"]), from_repr(case["other"])])
        print("replay: hasher variants on the pair %s / %s" % (case["value"], case["other"]))
        return
    o = tuple(case["opts"])
    MODE_NAME.setdefault(o, "opts")
    a, b = from_repr(case["value"]), from_repr(case["other"])
    from deepdiff import DeepHash
    hasher = DeepHash.sha1hex if case.get("hasher") == "sha1" else None
    try:
        ha, hb = impl_hash(a, o, hasher)[0], impl_hash(b, o, hasher)[0]
    except UnicodeEncodeError as e:
        ctx.evaluations += 1
        print("replay: DeepHash refuses the value (%s): no hash handed out" % type(e).__name__)
        return
    ca, cb = canon_mode(a, o), canon_mode(b, o)
    ctx.evaluations += 1
    print("replay: %s -> %s\n        %s -> %s\n        canonical forms %s" % (ascii(a), ha, ascii(b), hb, "equal" if ca == cb else "differ"))
    if ha == hb and ca != cb:
        ctx.fail(case, "equal hashes for values that differ under the mode's equivalence: %s vs %s" % (ascii(a), ascii(b)))

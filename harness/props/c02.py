"""C02 - an empty diff means equal; a structural copy always gives an empty diff;
DeepDiff never modifies its inputs.

proof:           Diff/DiffEmpty.v -> Properties/C02.v (all well-formed values, both alignment
                 modes, every threshold <= 1, every tiling opcode oracle for the copy clause,
                 every valid one for soundness)
correspondence:  the full tree-view result (+ recorded-opcode paths) and the full text-view
                 result (verbose 1 and 2) of DeepDiff vs the model, on copies, single-edit
                 neighbours and random pairs, x zip x threshold; the memo-threaded model on
                 ==-aliased set members; the numpy model (Diff/NpModel.v) and the extended-universe
                 model with datetimes / Decimals as atoms (Diff/XuModel.v) on their own streams
direct oracle:   DeepDiff(x, deepcopy(x), **cfg) is empty;  DeepDiff(a, b, **cfg) empty => a == b;
                 inputs unmodified; over view x verbose x threshold x zip x cache_size x max_passes
                 (the last two are inert in ordered mode: the result is compared with the
                 cache_size=0 / default max_passes run of the same configuration)
"""
import base64
import copy
import datetime
import pickle
import itertools

from harness import core, values as V, diffcommon as D

THEOREM_FILE = "Properties/C02.v"
COQCHK = ["Properties.C02"]
RULE = ("pairs: (a) (x, deepcopy(x)) for random nested values x (dict/list/tuple/set/frozenset/scalars, ==-aliased atoms in 30%), (b) single-edit "
        "neighbours: every EDIT_KIND of harness.values (13 kinds) applied at a random position, i.e. at every depth, several times per value, plus 3 near-miss "
        "edits per value (float +-0.5, int +-1, int<->float, bool<->int, str case/blank/newline, str<->bytes, list<->tuple, set<->frozenset, None<->False), "
        "(c) random independent pairs and all-atom list pairs related by insert/delete/replace/move/dup/rotate edits under 0-2 common levels, (d) a seeded sample (450 / 9000) of the ordered pairs of an exhaustive small universe (599 values), (e) values containing date/datetime/time/timedelta "
        "and numpy int/float arrays (direct oracle; a second set of such pairs - harness/xucommon.py, harness/npcommon.py - goes to the direct oracle AND to the correspondence with the extended / numpy models); configurations: view {text,tree} x verbose_level {1,2} x threshold_to_diff_deeper "
        "{0,0.33,0.9,1,1.0} x zip_ordered_iterables x cache_size {0,1,5000} x max_passes {0,1,10**7}: a random sample of 6 of the 360 per pair, the "
        "full grid on every 60th pair. Non-trivial = the two values are not Python-equal or the diff is non-empty; distinct by (t1, t2, cfg).")
TRUSTED = ["difflib.SequenceMatcher opcodes are an oracle: copy clause proved for every oracle that tiles the lists with balanced 'equal' blocks, soundness "
           "for every valid oracle ('equal' blocks pointwise ==); the correspondence feeds the model the opcodes difflib returns, and the Coq predicate "
           "valid_opcodes itself is evaluated on those opcodes (cases 'difflib_opcodes_valid'), so the hypothesis is observed, not only assumed",
           "DeepHash of set members: an abstract item hash in the main theorems (injective where the guard says); in the correspondence the DeepHash scalar model "
           "(hash_atom hexhash) and, for pairs whose sets hold ==-aliased numbers, the memo-threaded model Diff/DiffMemo.v run_diff_m (DeepDiff's run-wide ==-keyed table, "
           "filled in the implementation's order; cross-checked on 10% of the alias-free pairs too); equality patterns of SHA-256 and of the hex hasher are assumed to coincide",
           "datetimes / dates / times / timedeltas / Decimals and numeric arrays have their own models (Diff/Xu*.v over an extended atom universe, Diff/Np*.v) with their own "
           "correspondence streams (harness/xucommon.py c02xu, harness/npcommon.py c02np); str() / repr() of the exotic objects are oracles of the text view (finite tables); "
           "named time zones, NaN / Infinity Decimals, 0-d / object arrays, arrays nested in containers and dict keys whose repr DeepDiff cannot parse back (time, timedelta, aware datetime) "
           "are covered by the direct oracle only; Python == / numpy.array_equal + equal shape is the oracle there; failing cases carry a pickle of the inputs so that tzinfo, "
           "memory layout and shared containers survive the replay",
           "values are tree-shaped (fresh containers), floats are half-integers, no bytes dict keys (finding F5)",
           "cache_size / max_passes are not in the model (ordered mode never consults them): inertness is checked on the implementation",
           "source tie (second tie, in addition to the correspondence): harness/translate/diffdispatch.py (fail-closed ast -> Gallina translator, its rules D/D2/D3/O/S1-S4/T/T2/H "
           "listed in coq/theories/Diff/NOTES_srctie.md) and the Python-level primitives of Diff/DiffSrcPrims.v are trusted for the translated fragment of deepdiff/diff.py only "
           "(dispatcher, leaf comparers, _diff_dict, sequence comparers in default-options form); coq/srctie/DiffGenEquiv.v proves the regenerated definitions equal to "
           "Diff/DiffModel.v on every run (g_run_eq) and restates C02_copy_empty / C02_empty_sound / C02_empty_sound_public about them"]
ASSUMPTIONS = ["threshold_to_diff_deeper <= 1", "dict/set inputs satisfy Python's representation invariant (keys / members pairwise !=)",
               "soundness: ignore_private_variables=False, or no dict key starting with '__' (documented: such keys are not compared)",
               "soundness: the item hash is injective on the set members of the inputs; for the DeepHash scalar model: set members tag_safe (no str 'NONE' / containing ':'), "
               "any injective hasher (real DeepHash otherwise: finding K1)"]

THRS = (0, 0.33, 0.9, 1)          # model correspondence (1 = the upper end of the documented range: thr_num/thr_den = 1/1)
GRID_THRS = (0, 0.33, 0.9, 1, 1.0)   # direct oracle: the boundary value both as int and as float
GRID = [dict(view=v, verbose_level=vb, threshold_to_diff_deeper=thr, zip_ordered_iterables=z, cache_size=cs, max_passes=mp)
        for v in ("text", "tree") for vb in (1, 2) for thr in GRID_THRS for z in (True, False)
        for cs in (0, 1, 5000) for mp in (0, 1, 10 ** 7)]
STRINGS = V.STR_POOL + ["a\nb", "a\nc\n", "__p", "__q", "it's", "NONE", "int:1"]


# ---------------------------------------------------------------------------
# known findings
# ---------------------------------------------------------------------------

def _set_members(v, acc):
    if isinstance(v, (set, frozenset)):
        acc.extend(v)
    elif isinstance(v, (list, tuple)):
        for x in v:
            _set_members(x, acc)
    elif isinstance(v, dict):
        for x in v.values():
            _set_members(x, acc)
    return acc


def tag_text(a):
    if a is None:
        return "NONE"
    if isinstance(a, bool):
        return "bool:true" if a else "bool:false"
    if isinstance(a, int):
        return "int:%d" % a
    if isinstance(a, float):
        return "float:%r" % a
    return None


def k1_feature(t1, t2):
    """a set member string spells the DeepHash serialisation of a non-string set member (of either side)"""
    members = _set_members(t1, []) + _set_members(t2, [])
    try:
        tags = {tag_text(x) for x in members} - {None}
    except TypeError:
        return False
    return any(isinstance(x, str) and x in tags for x in members)


MATCHERS = {}       # filled below: every finding of this property is matched by the counterfactual test of _explained_by


# ---------------------------------------------------------------------------
# the property on the implementation
# ---------------------------------------------------------------------------

def strip_private(v):
    if isinstance(v, dict):
        return {k: strip_private(x) for k, x in v.items() if not (isinstance(k, str) and k.startswith("__"))}
    if isinstance(v, list):
        return [strip_private(x) for x in v]
    if isinstance(v, tuple):
        return tuple(strip_private(x) for x in v)
    return v


def has_private(v):
    if isinstance(v, dict):
        return any((isinstance(k, str) and k.startswith("__")) or has_private(x) for k, x in v.items())
    if isinstance(v, (list, tuple)):
        return any(has_private(x) for x in v)
    return False


def deep_eq(a, b):
    """Python == that also works for numpy arrays nested in containers (like Python's container
    comparison it takes one and the same object to be equal to itself: a shared NaN)"""
    if a is b:
        return True
    try:
        import numpy as np
    except Exception:  # pragma: no cover
        np = None
    if np is not None and (isinstance(a, np.ndarray) or isinstance(b, np.ndarray)):
        return isinstance(a, np.ndarray) and isinstance(b, np.ndarray) and a.shape == b.shape and bool((a == b).all())
    if type(a) in (list, tuple) and type(a) is type(b):
        return len(a) == len(b) and all(deep_eq(x, y) for x, y in zip(a, b))
    if type(a) is dict and type(b) is dict:
        return a.keys() == b.keys() and all(deep_eq(a[k], b[k]) for k in a)
    return bool(a == b)


def _is_literal(*vals):
    try:
        for v in vals:
            V.canon(v)
        return True
    except Exception:
        return False


def snap(v):
    """a snapshot that detects mutation (order of dict / set iteration included)"""
    try:
        return V.canon(v)
    except Exception:
        return repr(v)


def result_obs(r, view):
    """canonical form of a result for the inertness comparison"""
    try:
        return D.tree_obs(r) if view == "tree" else D.text_obs(r)
    except Exception:
        return repr(r)


def _fail(ctx, case, t1, t2, what):
    """ctx.fail with a pickle of the inputs when their repr does not determine them (tzinfo, numpy memory
    layout, the same container object at several positions)"""
    try:
        plain = _is_literal(t1, t2) and pickle.dumps((t1, t2)) == pickle.dumps(eval(repr((t1, t2))))
    except Exception:
        plain = False
    if not plain:
        case = dict(case, pickle=base64.b64encode(pickle.dumps((t1, t2))).decode("ascii"))
    return ctx.fail(case, what)


def run_cfg(ctx, t1, t2, cfg, is_copy, ip, stats_key):
    from deepdiff import DeepDiff
    a, b = copy.deepcopy(t1), copy.deepcopy(t2)
    sa, sb = snap(a), snap(b)
    case = dict(t1=repr(t1), t2=repr(t2), cfg=cfg, ip=ip)
    try:
        r = DeepDiff(a, b, ignore_private_variables=ip, **cfg)
    except Exception as e:  # noqa
        _fail(ctx, dict(case, clause="DeepDiff raised " + type(e).__name__), t1, t2, "DeepDiff raised " + repr(e))
        return None
    if snap(a) != sa or snap(b) != sb:
        _fail(ctx, dict(case, clause="inputs modified"), t1, t2, "DeepDiff modified an input")
    empty = (len(r) == 0) and (r == {})
    equal = deep_eq(t1, t2)
    ctx.seen((case["t1"], case["t2"], repr(sorted(cfg.items())), ip), nontrivial=(not equal) or (not empty))
    ctx.count("%s:%s" % (stats_key, "empty" if empty else "nonempty"))
    if is_copy:
        ctx.count("clause:copy_evaluated")
        if not empty:
            _fail(ctx, dict(case, clause="non-empty diff for a structural copy", result=repr(r)[:600]), t1, t2,
                  "DeepDiff(x, deepcopy(x)) is not empty: " + repr(r)[:300])
    if empty:
        if ip:
            ctx.count("clause:sound_evaluated(ip=True, modulo __ keys)")
            ok = equal or deep_eq(strip_private(t1), strip_private(t2))
        else:
            ctx.count("clause:sound_evaluated(ip=False)")
            ok = equal
        if not ok:
            _fail(ctx, dict(case, clause="empty diff but t1 != t2"), t1, t2, "DeepDiff(t1, t2) is empty although t1 != t2")
    return r


def oracle_pair(ctx, t1, t2, is_copy, full_grid, stats_key, model_ok=True):
    rng = ctx.rng
    cfgs = GRID if full_grid else rng.sample(GRID, 6)
    base = {}
    for cfg in cfgs:
        ip = rng.random() < 0.5
        r = run_cfg(ctx, t1, t2, cfg, is_copy, ip, stats_key)
        if r is None or not model_ok:
            continue
        # inertness of cache_size / max_passes
        if cfg["cache_size"] == 0 and cfg["max_passes"] == 10 ** 7:
            continue
        from deepdiff import DeepDiff
        key = (cfg["view"], cfg["verbose_level"], cfg["threshold_to_diff_deeper"], cfg["zip_ordered_iterables"], ip)
        if key not in base:
            c0 = dict(cfg, cache_size=0, max_passes=10 ** 7)
            base[key] = result_obs(DeepDiff(copy.deepcopy(t1), copy.deepcopy(t2), ignore_private_variables=ip, **c0), cfg["view"])
        ctx.count("inert:compared")
        if result_obs(r, cfg["view"]) != base[key]:
            ctx.fail(dict(t1=repr(t1), t2=repr(t2), cfg=cfg, ip=ip, clause="cache_size/max_passes changed the result"),
                     "result depends on cache_size / max_passes in ordered mode")


def corr_pair(ctx, t1, t2, cases, every=False, mcases=None):
    """model correspondence: full tree result and full text result.  Pairs with ==-aliased set
    members (finding K2) go to the memo-threaded model Diff/DiffMemo.v (mcases)."""
    rng = ctx.rng
    memo = not D.in_model_guard(t1, t2)
    if memo:
        ctx.count("aliased_set_members:run_on_memo_model" if mcases is not None else "outside_model_guard")
        if mcases is None:
            return
    elif mcases is not None and rng.random() < 0.1:
        memo = True                      # the memo model is valid everywhere: cross-check it on alias-free pairs too
        ctx.count("alias_free:also_run_on_memo_model")
    combos = list(itertools.product((True, False), THRS)) if every else [(rng.random() < 0.5, rng.choice(THRS))]
    for zip_, thr in combos:
        try:
            _corr_one(ctx, t1, t2, mcases if memo else cases, every, zip_, thr, memo)
        except Exception as e:  # noqa  (a malformed result cannot be canonicalised)
            ctx.break_("correspondence", {"name": "c02", "case": dict(t1=repr(t1), t2=repr(t2), zip=zip_, thr=thr),
                                          "detail": "result cannot be canonicalised: " + repr(e)})


def _corr_one(ctx, t1, t2, cases, every, zip_, thr, memo=False):
        rng = ctx.rng
        tree_case, text_case, tag = (D.memo_tree_case, D.memo_text_case, "memo:") if memo else (D.tree_case, D.text_case, "")
        case, r, unmod = tree_case(t1, t2, zip_, thr)
        if case is not None:
            case[2]["view"] = "tree"
            cases.append(case)
            ctx.count("corr:" + tag + "tree")
        zip2, thr2 = (zip_, thr) if every else (rng.random() < 0.5, rng.choice(THRS))
        for verbose in ((1, 2) if every else (rng.choice((1, 2)),)):
            case, r, unmod = text_case(t1, t2, zip2, thr2, verbose, ignore_private=rng.random() < 0.5)
            if case is not None:
                cases.append(case)
                ctx.count("corr:%stext_v%d" % (tag, verbose))


def opcode_validity_cases(t1, t2):
    """the hypothesis of C02_empty_sound / C02_copy_empty observed: the opcodes difflib
    really returns for every pair of all-atom lists compared at one path satisfy the Coq
    predicate valid_opcodes (tiling with well-shaped blocks + 'equal' blocks pointwise ==)"""
    out = []
    for cp, ops in D.opcode_table(t1, t2):
        xs, ys = V.get_at(t1, D.py_path(cp)), _get_t2(t1, t2, cp)
        expr = "sx_bool (valid_opcodes %s [%s] [%s])" % (
            core.coq_list("mkOp %s %d %d %d %d" % (D.TAGS[o[0]], o[1], o[2], o[3], o[4]) for o in ops),
            "; ".join(V.to_coq(x) for x in xs), "; ".join(V.to_coq(y) for y in ys))
        out.append((expr, True, {"what": "difflib opcodes valid", "xs": repr(xs), "ys": repr(ys), "ops": repr(ops)}))
    return out


def hash_hypothesis_cases(t1, t2):
    """the other hypothesis of C02_empty_sound(_separating / _deephash) observed as a Coq boolean: on the tag-safe set
    members of this pair the DeepHash scalar model gives equal item hashes only to ==-equal members"""
    ms = _set_members(t1, []) + _set_members(t2, [])
    if not ms:
        return []
    try:
        lst = core.coq_list(V.atom_to_coq(a) for a in ms)
    except Exception:  # noqa  (a member outside the atom universe, e.g. a tuple)
        return []
    expr = ("sx_bool (let l := filter DD.Hash.HashModel.tag_safe_atom %s in "
            "forallb (fun a => forallb (fun b => implb (pystr_eqb (hatom_deep a) (hatom_deep b)) (py_eq a b)) l) l)" % lst)
    return [(expr, True, {"what": "item hash separates non-== tag-safe set members", "members": repr(ms)[:300]})]


def _get_t2(t1, t2, cp):
    """the object of t2 at the canonical path cp (dict keys are looked up by ==)"""
    cur = t2
    for tag, x in cp:
        cur = cur[x] if tag == "x" else cur[D.uncanon_atom(x)]
    return cur


# ---------------------------------------------------------------------------
# generators
# ---------------------------------------------------------------------------

def near_miss(rng, v):
    """One smallest-possible change somewhere in v (the differences a tolerant or
    type-blind comparer would miss): float +-0.5, int +-1, int <-> ==-float, bool <-> ==-int,
    str case / trailing blank / trailing newline, str <-> bytes, list <-> tuple,
    set <-> frozenset, None <-> False.  Returns (value, kind) or (v, None)."""
    v = copy.deepcopy(v)
    path = rng.choice(list(V.positions(v)))
    sub = V.get_at(v, path)
    new, kind = None, None
    if isinstance(sub, bool):
        new, kind = (int(sub) if rng.random() < 0.5 else (not sub)), "near:bool"
    elif isinstance(sub, float):
        new, kind = rng.choice([sub + 0.5, sub - 0.5] + ([int(sub)] if sub == int(sub) else [])), "near:float"
    elif isinstance(sub, int):
        new, kind = rng.choice([sub + 1, sub - 1, float(sub)] + ([bool(sub)] if sub in (0, 1) else [])), "near:int"
    elif isinstance(sub, str):
        cands = [sub + " ", sub + "\n", sub.swapcase(), sub.encode("latin-1", "replace")]
        new, kind = rng.choice([c for c in cands if not (isinstance(c, str) and c == sub)] or [sub + "x"]), "near:str"
    elif isinstance(sub, bytes):
        new, kind = rng.choice([sub + b" ", sub.decode("latin-1")]), "near:bytes"
    elif sub is None:
        new, kind = rng.choice([False, 0, "None"]), "near:none"
    elif isinstance(sub, list):
        new, kind = tuple(sub), "near:list_to_tuple"
    elif isinstance(sub, tuple):
        new, kind = list(sub), "near:tuple_to_list"
    elif isinstance(sub, frozenset):
        new, kind = set(sub), "near:frozenset_to_set"
    elif isinstance(sub, set):
        new, kind = frozenset(sub), "near:set_to_frozenset"
    else:
        return v, None
    return V.set_at(v, path, new), kind


def stable_order(v):
    """a copy of v whose set / dict iteration order survives a further deepcopy: DeepDiff is run on
    deep copies, and which member of a set represents a DeepHash collision class (first in iteration
    order) must be the one the model is given"""
    for _ in range(8):
        w = copy.deepcopy(v)
        if repr(w) == repr(v):
            return w
        v = w
    return v


def gen_model_pairs(ctx, n_values):
    """(t1, t2, kind, is_copy)"""
    rng = ctx.rng
    out = []
    for _ in range(n_values):
        alias = rng.random() < 0.3
        x = V.gen_value(rng, depth=3, width=4, alias=alias, strings=STRINGS)
        out.append((x, copy.deepcopy(x), "copy", True))
        # single-edit neighbours: every kind, position chosen at random among all depths
        for kind in V.EDIT_KINDS:
            for _try in range(12):
                y, k = V.edit(rng, x, alias=alias, strings=STRINGS, kinds=[kind])
                if k is not None:
                    out.append((x, y, "edit:" + k, False))
                    break
        for _try in range(3):
            y, k = near_miss(rng, x)
            if k is not None:
                out.append((x, y, k, False))
        if rng.random() < 0.5:
            out.append((x, V.gen_value(rng, depth=3, width=4, alias=alias, strings=STRINGS), "independent", False))
        # all-atom lists related by insert/delete/replace/move/dup/rotate edits (the shapes on which
        # the difflib pass and the pairwise pass each win sometimes), under 0-2 common levels
        a, b, _kinds = V.gen_atom_list_pair(rng)
        t1, t2 = V.plant(rng, rng.choice([0, 0, 1, 2]), (a, b))
        out.append((t1, t2, "atom_list_edit", False))
    return out


ALIAS_POOL = [1, 1.0, True, 0, 0.0, False, 2, 2.0, "int:1", "float:1.0", "int:2", "bool:true", "NONE", None, "a", 1.5]


def gen_alias_pairs(ctx, n):
    """pairs whose sets hold ==-aliased numbers and strings spelling type tags, in one or several set
    pairs of one run (list positions, dict values with t2's key order shuffled, nested): the shapes on
    which DeepDiff's run-wide DeepHash table - and the order in which it is filled - is observable"""
    rng = ctx.rng

    def aset():
        out = set()
        for a in rng.sample(ALIAS_POOL, rng.randint(0, 3)):
            if all(not (a == b) for b in out):
                out.add(a)
        return frozenset(out) if rng.random() < 0.25 else out

    out = [({"x": {1.0}, "y": {1}}, {"y": {"int:1"}, "x": {1.0}}), ({"x": {1.0}, "y": {1}}, {"x": {1.0}, "y": {"int:1"}}),
           ({"y": {1}, "x": {1.0}}, {"x": {1.0}, "y": {"int:1"}}), ({1, "a"}, {1.0, "a"}), ([{1.0}, {1}], [{1.0}, {"int:1"}]),
           ([{1}, {1.0}], [{"int:1"}, {1.0}]), ({True}, {1}), ({0}, {False})]
    for _ in range(n):
        k = rng.choice([1, 2, 2, 3])
        pairs = []
        for _i in range(k):
            a = aset()
            b = aset() if rng.random() < 0.7 else type(a)(a)
            if type(a) is not type(b) and rng.random() < 0.8:
                b = type(a)(b)
            pairs.append((a, b))
        shape = rng.choice(["list", "dict", "dict", "nested", "tuple"])
        if k == 1 and rng.random() < 0.5:
            t1, t2 = pairs[0]
        elif shape == "list":
            t1, t2 = [a for a, _ in pairs], [b for _, b in pairs]
        elif shape == "tuple":
            t1, t2 = tuple(a for a, _ in pairs), tuple(b for _, b in pairs)
        else:
            keys = rng.sample(["x", "y", "z", 1, None], k)
            order2 = list(range(k))
            rng.shuffle(order2)
            t1 = {keys[i]: pairs[i][0] for i in range(k)}
            t2 = {keys[i]: pairs[i][1] for i in order2}
            if shape == "nested":
                t1, t2 = [0, {"d": t1}], [0, {"d": t2}]
        out.append((t1, t2))
    return [(a, b, "aliased_set_members", False) for a, b in out]


def gen_shared_pairs(ctx, n):
    """t1 holds the SAME container object at two or three positions of one list / tuple / dict (sibling
    sharing: still a tree as far as the diff is concerned, and what CPython does by itself for ()); t2 is
    built from fresh copies, the first one equal and a later one changed.  A cycle guard that leaks
    from one sibling to the next skips the later comparison."""
    rng = ctx.rng
    x1 = [1]
    out = [([(), ()], [(), (1,)]), ([x1, x1], [[1], [2]]), ((x1, x1), ([1], [2])), ({"a": x1, "b": x1}, {"a": [1], "b": [2]}),
           ([[x1, 0], [x1, 0]], [[[1], 0], [[3], 0]]), ([(), [()]], [(), [(2,)]])]
    for _ in range(n):
        x = V.gen_value(rng, depth=2, width=3, strings=STRINGS, kinds="LTDSF")
        if not isinstance(x, (list, tuple, dict, set, frozenset)):
            x = rng.choice([(), [x], (x,), {"k": x}])
        k = rng.randint(2, 3)
        changed = None
        for _try in range(6):
            y, kind = near_miss(rng, x) if rng.random() < 0.5 else V.edit(rng, x, strings=STRINGS)
            if kind is not None and not deep_eq(x, y):
                changed = y
                break
        if changed is None:
            changed = [x, "extra"]
        j = rng.randint(1, k - 1)                       # a later occurrence differs, the first one is equal
        items2 = [copy.deepcopy(x) if i != j else changed for i in range(k)]
        shape = rng.choice(["list", "tuple", "dict", "spaced"])
        if shape == "list":
            t1, t2 = [x] * k, items2
        elif shape == "tuple":
            t1, t2 = tuple([x] * k), tuple(items2)
        elif shape == "dict":
            keys = rng.sample(["a", "b", "c", 1, None], k)
            t1, t2 = {q: x for q in keys}, {q: v for q, v in zip(keys, items2)}
        else:
            t1, t2 = [0, x, "s", x] + [x] * (k - 2), [0, items2[0], "s", items2[1]] + items2[2:]
        t1, t2 = V.plant(rng, rng.choice([0, 0, 1, 2]), (t1, t2))
        out.append((t1, t2))
    return [(a, b, "shared_sibling_containers", False) for a, b in out]


def small_pairs(ctx, n, big=None):
    u = V.small_universe(atoms=(None, True, 1, 1.0, "a", "NONE"), maxlen=2, depth=1, kinds="LTDS")
    u += [frozenset(x) for x in u if isinstance(x, set)]
    ctx.count("small_universe_values", len(u))
    pairs = [(a, b) for a in u for b in u]
    # all 599^2 ordered pairs x 6+ configurations do not fit the time budget: a seeded sample
    # (20x larger in thorough)
    pairs = ctx.rng.sample(pairs, n * 20 if (ctx.thorough if big is None else big) else n)
    return [(a, b, "small_universe", False) for a, b in pairs]


# ---------------------------------------------------------------------------
# datetimes and numeric arrays (named in the statement; outside the Coq model:
# direct oracle only).  Python == / numpy.array_equal is the oracle.
# ---------------------------------------------------------------------------

TZS = [None, datetime.timezone.utc, datetime.timezone(datetime.timedelta(hours=2)),
       datetime.timezone(datetime.timedelta(hours=-5, minutes=-30))]
MICROS = [0, 1, 2, 500000, 913070]


def gen_moment(rng):
    """a datetime / date / time / timedelta"""
    r = rng.randrange(6)
    if r <= 2:
        return datetime.datetime(2024, rng.choice([1, 5]), rng.choice([1, 17]), rng.choice([0, 22]), rng.choice([0, 15]),
                                 rng.choice([0, 34]), rng.choice(MICROS), tzinfo=rng.choice(TZS))
    if r == 3:
        return datetime.date(2024, rng.choice([1, 5]), rng.choice([1, 17]))
    if r == 4:
        return datetime.time(rng.choice([0, 22]), rng.choice([0, 15]), rng.choice([0, 34]), rng.choice(MICROS), tzinfo=rng.choice(TZS[:3]))
    return datetime.timedelta(days=rng.choice([0, 1]), seconds=rng.choice([0, 7]), microseconds=rng.choice(MICROS))


def moment_variants(rng, m):
    """[(other, how)]: values close to m.  Whether they are equal is decided by Python ==."""
    out = [(copy.deepcopy(m), "copy")]
    us = datetime.timedelta(microseconds=1)
    if isinstance(m, datetime.datetime):
        out += [(m + us, "plus_1us"), (m.replace(microsecond=0), "us_dropped"), (m + datetime.timedelta(seconds=1), "plus_1s")]
        if m.tzinfo is None:
            out.append((m.replace(tzinfo=datetime.timezone.utc), "naive_to_aware"))
        else:
            out += [(m.astimezone(rng.choice(TZS[1:])), "same_instant_other_zone"), (m.replace(tzinfo=None), "aware_to_naive"),
                    (m.replace(tzinfo=rng.choice(TZS[1:])), "other_zone_same_wall_clock")]
    elif isinstance(m, datetime.date):
        out += [(m + datetime.timedelta(days=1), "plus_1day"), (datetime.datetime(m.year, m.month, m.day), "date_to_datetime")]
    elif isinstance(m, datetime.time):
        out += [(m.replace(microsecond=(m.microsecond + 1) % 1000000), "plus_1us"), (m.replace(microsecond=0), "us_dropped"),
                (m.replace(second=(m.second + 1) % 60), "plus_1s"), (m.replace(tzinfo=rng.choice(TZS[:3])), "other_zone_same_wall_clock")]
    else:
        out += [(m + us, "plus_1us"), (m + datetime.timedelta(seconds=1), "plus_1s")]
    return out


MOMENT_POSITIONS = {
    "bare": lambda x: x,
    "dict_value": lambda x: {"k": x, "z": 0},
    "list_item": lambda x: [1, x],
    "tuple_item": lambda x: (x, "t"),
    "set_member": lambda x: {x, "other", 3},
    "frozenset_member": lambda x: frozenset([x]),
    "tuple_inside_set": lambda x: {(x, "in a tuple")},
    "frozenset_inside_set": lambda x: {frozenset([x, 1])},
    "dict_key": lambda x: {x: [1, 2]},
    "deep": lambda x: {"k": [1, ({x},)]},
}


def gen_moment_pairs(ctx, n):
    rng = ctx.rng
    out = []
    for _ in range(n):
        m = gen_moment(rng)
        for other, how in moment_variants(rng, m):
            pos = rng.choice(sorted(MOMENT_POSITIONS))
            wrap = MOMENT_POSITIONS[pos]
            out.append((wrap(m), wrap(other), "moment:%s:%s@%s" % (type(m).__name__, how, pos), how == "copy"))
    # hashable containers as set members (no datetimes needed): order / repetition inside a member
    for a, b in [((1, 2), (2, 1)), ((1, 1, 2), (1, 2)), ((1, (2, 3)), (1, (3, 2))), ((1, 2), (1, 2))]:
        out.append(({a, "x"}, {b, "x"}, "tuple_member_of_set", a == b))
        out.append((frozenset([a]), frozenset([b]), "tuple_member_of_frozenset", a == b))
    return out


def np_layouts(rng, a):
    """the same array (shape, dtype, content) in another memory layout"""
    import numpy as np
    k = rng.randrange(4)
    if k == 0:
        return np.asfortranarray(a), "fortran"
    if k == 1 and a.ndim >= 2:
        perm = list(range(a.ndim))
        rng.shuffle(perm)
        inv = [perm.index(i) for i in range(a.ndim)]
        return np.ascontiguousarray(a.transpose(perm)).transpose(inv), "transposed_view"
    if k == 2:
        big = np.zeros((a.shape[0] * 2,) + a.shape[1:], dtype=a.dtype, order=rng.choice("CF"))
        big[::2] = a
        return big[::2], "strided_view"
    return a.copy(order="C"), "c_copy"


def gen_numpy_pairs(ctx, n):
    import numpy as np
    rng = ctx.rng
    out = []

    def nest(x, y):
        k = rng.randrange(4)
        if k == 0:
            return {"arr": x, "n": 1}, {"arr": y, "n": 1}
        if k == 1:
            return [1, {"x": (x,)}], [1, {"x": (y,)}]
        return x, y

    # arrays without elements
    for sh1, sh2 in [((0, 3), (0, 2)), ((0,), (0, 1)), ((2, 0), (2, 0)), ((0, 3), (0, 3))]:
        out.append((np.zeros(sh1), np.zeros(sh2), "numpy:no_elements", sh1 == sh2))
    for _ in range(n):
        nd = rng.choice([1, 2, 2, 3, 3, 3, 4])
        shape = tuple(rng.choice([1, 2, 2, 3]) for _ in range(nd))
        if rng.random() < 0.03:
            shape = shape[:-1] + (0,)
        dtype = rng.choice(["int64", "float64", "bool", "int32"])
        size = int(np.prod(shape))
        if dtype == "bool":
            a = np.array([rng.random() < 0.5 for _ in range(size)], dtype=dtype).reshape(shape)
        elif rng.random() < 0.5:
            a = np.arange(size).astype(dtype).reshape(shape)          # all rows distinct
        else:
            a = np.array([rng.randrange(4) / (2 if dtype == "float64" else 1) for _ in range(size)]).astype(dtype).reshape(shape)
        if rng.random() < 0.3:
            a = np.asfortranarray(a)
        b, how = np_layouts(rng, a)
        x, y = nest(a, b)
        out.append((x, y, "numpy:copy_in_other_layout:" + how, True))
        if size:
            c, how2 = np_layouts(rng, a)
            c = c.copy(order="K") if not c.flags.writeable or not c.flags.owndata else c.copy(order="K")
            idx = tuple(rng.randrange(d) for d in shape)
            c[idx] = (not c[idx]) if dtype == "bool" else c[idx] + 1
            x, y = nest(a, c)
            out.append((x, y, "numpy:element_changed:" + how2, False))
        if nd >= 2 and shape[0] > 1:
            perm = list(range(shape[0]))
            rng.shuffle(perm)
            c, how3 = np_layouts(rng, a[perm])
            x, y = nest(a, c)
            out.append((x, y, "numpy:rows_permuted:" + how3, False))
        if nd >= 3 and size:
            # the same rows attached to other leading indexes, in Fortran order (and a plain transpose)
            lead, last = shape[:-1], shape[-1]
            c = np.asfortranarray(np.ascontiguousarray(a).reshape(-1, last).reshape(lead + (last,), order="F"))
            x, y = nest(np.ascontiguousarray(a), c)
            out.append((x, y, "numpy:rows_relabelled_fortran", False))
            axes = (1, 0) + tuple(range(2, nd))
            x, y = nest(a, np.asfortranarray(a.transpose(axes)))
            out.append((x, y, "numpy:leading_axes_swapped_fortran", False))
        other = rng.choice(["int64", "float64"])
        if other != dtype:
            out.append((a, a.astype(other), "numpy:dtype_changed", False))
    return out


def gen_nan_copies(ctx, n):
    """values with NaN leaves (float('nan'), math.nan, Decimal('NaN')) at list / tuple / dict-value positions
    against their deepcopy / shallow copy (the NaN objects are then shared by identity: a structural copy,
    must give an empty diff) and against a rebuilt copy with distinct NaN objects (not equal for ==)"""
    import decimal
    import math
    rng = ctx.rng

    def val(depth):
        r = rng.random()
        if depth == 0 or r < 0.3:
            return rng.choice([float("nan"), math.nan, decimal.Decimal("NaN"), 1, 2.5, "a", None])
        m = rng.randint(1, 3)
        if r < 0.55:
            return [val(depth - 1) for _ in range(m)]
        if r < 0.75:
            return tuple(val(depth - 1) for _ in range(m))
        return {k: val(depth - 1) for k in rng.sample(["a", "b", "c", 1, None], m)}

    def recreate(v):
        if isinstance(v, float) and v != v:
            return float("nan")
        if isinstance(v, decimal.Decimal):
            return decimal.Decimal("NaN")
        if isinstance(v, dict):
            return {k: recreate(x) for k, x in v.items()}
        if isinstance(v, (list, tuple)):
            return type(v)(recreate(x) for x in v)
        return v

    n0 = float("nan")
    out = [([n0], [n0], "nan:copy", True), ({"a": (1, n0)}, {"a": (1, n0)}, "nan:copy", True)]
    for _ in range(n):
        t = val(3)
        if not isinstance(t, (list, tuple, dict)):
            t = [t, 0]
        out.append((t, copy.deepcopy(t), "nan:deepcopy", True))
        out.append((t, copy.copy(t), "nan:shallow_copy", True))
        out.append((t, recreate(t), "nan:recreated", False))
    return out


def gen_exotic(ctx, n):
    """(t1, t2, kind, is_copy) with datetimes / numeric arrays / NaN; is_copy = a structural copy by construction"""
    return gen_moment_pairs(ctx, n) + gen_numpy_pairs(ctx, n) + gen_nan_copies(ctx, n // 2)


# --- known defects of the unchanged tree in this domain: counterfactual matchers -------------
# Each defect has a normalisation N_d of the inputs that removes exactly the information the
# implementation loses.  A failing soundness case (empty diff, t1 != t2) is attributed to defect d
# iff the inputs become equal when ALL known normalisations are applied and do NOT become equal
# when all but N_d are applied (the defect is necessary for the failure).  A failure that no
# combination explains stays a VIOLATION.

def _map(v, f, in_set=False):
    """rebuild v bottom-up, applying f(x, in_set) to every node (in_set: inside a set/frozenset member)"""
    import numpy as np
    if isinstance(v, dict):
        v = {_map(k, f, in_set): _map(x, f, in_set) for k, x in v.items()}
    elif isinstance(v, list):
        v = [_map(x, f, in_set) for x in v]
    elif isinstance(v, tuple):
        v = tuple(_map(x, f, in_set) for x in v)
    elif isinstance(v, frozenset):
        v = frozenset(_map(x, f, True) for x in v)
    elif isinstance(v, set):
        v = set(_map(x, f, True) for x in v)
    elif isinstance(v, np.ndarray):
        pass
    return f(v, in_set)


def n_time_tz_in_set(v, in_set):
    """datetime.time set members are hashed as seconds since midnight: tzinfo is lost
    (the microsecond part of the old finding C02-TIME-IN-SET is fixed in /repo 82f0543 and is
    deliberately NOT normalised away: if it comes back it is a VIOLATION)"""
    if in_set and isinstance(v, datetime.time):
        return v.replace(tzinfo=None)
    return v


def n_naive_is_utc(v, in_set):
    """naive datetimes are taken to be UTC (default_timezone) before any comparison"""
    if isinstance(v, datetime.datetime) and v.tzinfo is None:
        return v.replace(tzinfo=datetime.timezone.utc)
    return v


def n_member_order(v, in_set):
    """tuples inside set members are hashed ignoring order and repetition"""
    if in_set and isinstance(v, tuple):
        return frozenset(v)
    return v


def n_empty_array(v, in_set):
    """arrays without elements have no rows to compare, whatever their shapes"""
    import numpy as np
    if isinstance(v, np.ndarray) and v.size == 0:
        return np.zeros((0,), dtype=v.dtype)
    return v


def n_tag_text(v, in_set):
    """a non-string scalar inside a set member is hashed as the str spelling its type-tagged serialisation
    (finding K1: None ~ 'NONE', 1 ~ 'int:1', True ~ 'bool:true', 1.5 ~ 'float:1.5')"""
    if in_set and (v is None or isinstance(v, (bool, int, float))) and not isinstance(v, (datetime.date, datetime.time, datetime.timedelta)):
        return _canon_tag(tag_text(v))
    if in_set and isinstance(v, str):
        return _canon_tag(v)
    return v


def _canon_tag(s):
    """the run-wide ==-keyed table serves ONE hash for == numbers of different type (1 / 1.0: whichever was hashed first),
    so 'float:1.0' and 'int:1' are one tag as far as explaining an empty diff goes"""
    if s.startswith("float:"):
        try:
            x = float(s[6:])
            if x.is_integer():
                return "int:%d" % int(x)
        except (ValueError, OverflowError):
            pass
    return s


NORMALISERS = {"K1": n_tag_text, "C02-TIME-TZ-IN-SET": n_time_tz_in_set, "C02-NAIVE-AWARE": n_naive_is_utc,
               "C02-SET-MEMBER-ORDER": n_member_order, "C02-EMPTY-ARRAY-SHAPE": n_empty_array}
# the specific feature the inputs of a finding must show, besides the counterfactual test (lead's broadcast, point 1)
FEATURES = {"K1": k1_feature}


def _case_values(case):
    import base64
    import pickle
    if "pickle" in case:
        return pickle.loads(base64.b64decode(case["pickle"]))
    return eval(case["t1"]), eval(case["t2"])


def _explained_by(key):
    def matcher(case):
        if case.get("clause") != "empty diff but t1 != t2":
            return False
        t1, t2 = _case_values(case)

        def norm(keys):
            a, b = t1, t2
            for k in keys:
                a, b = _map(a, NORMALISERS[k]), _map(b, NORMALISERS[k])
            return deep_eq(a, b)
        if key in FEATURES and not FEATURES[key](t1, t2):
            return False
        allk = sorted(NORMALISERS)
        return norm(allk) and not norm([k for k in allk if k != key])
    return matcher


for _k in NORMALISERS:
    MATCHERS[_k] = _explained_by(_k)


def bytes_key_probe(ctx):
    """bytes dict keys (finding F5: a difference below such a key made the path
    printer raise TypeError; fixed in /repo by commit 0fac13b).  They are not in
    the model's generators; the two clauses are probed here and recorded."""
    from deepdiff import DeepDiff
    note = {}
    try:
        note["copy"] = repr(DeepDiff({b"a": [1]}, {b"a": [1]}))
    except Exception as e:  # noqa
        note["copy"] = "raised " + repr(e)
    try:
        note["different"] = repr(DeepDiff({b"a": 1}, {b"a": 2}))
    except Exception as e:  # noqa
        note["different"] = "raised " + type(e).__name__
    ctx.note("bytes_dict_keys_F5", note)
    if note["copy"] != "{}":
        ctx.fail(dict(t1="{b'a': [1]}", t2="{b'a': [1]}", clause="non-empty diff for a structural copy", cfg={}, ip=True), "bytes-key copy not empty: " + note["copy"])


def replay_witnesses(ctx):
    """the Coq _refuted witnesses, replayed on the implementation"""
    from deepdiff import DeepDiff
    open_keys = {f["key"] for f in ctx.findings if f.get("status") == "open"}
    # C02_empty_sound_refuted_private: documented behaviour of ignore_private_variables=True
    r = DeepDiff({"__a": 1}, {"__a": 2})
    if r != {}:
        ctx.break_("correspondence", {"name": "private-key witness", "detail": "DeepDiff({'__a':1},{'__a':2}) is no longer empty: C02_empty_sound_refuted_private's witness is out of date", "impl": repr(r)})
    if DeepDiff({"__a": 1}, {"__a": 2}, ignore_private_variables=False) == {}:
        ctx.fail(dict(t1="{'__a': 1}", t2="{'__a': 2}", cfg={}, ip=False, clause="empty diff but t1 != t2"), "private keys ignored although ignore_private_variables=False")
    import numpy as np
    us = datetime.timezone.utc
    n = datetime.datetime(2024, 5, 17, 22, 15, 34)
    witnesses = {"C02-TIME-TZ-IN-SET": ({datetime.time(1, 2, 3, tzinfo=us)}, {datetime.time(1, 2, 3, tzinfo=datetime.timezone(datetime.timedelta(hours=2)))}),
                 "C02-NAIVE-AWARE": (n, n.replace(tzinfo=us)),
                 "C02-SET-MEMBER-ORDER": ({(1, 2)}, {(2, 1)}),
                 "C02-EMPTY-ARRAY-SHAPE": (np.zeros((0, 3)), np.zeros((0, 2)))}
    for key, (a, b) in witnesses.items():
        if key in open_keys:
            if DeepDiff(copy.deepcopy(a), copy.deepcopy(b)) != {}:
                ctx.break_("correspondence", {"name": key + " witness", "detail": "finding %s no longer reproduces on the implementation; known_findings.d/C02.json is out of date" % key})
            run_cfg(ctx, a, b, dict(view="text", verbose_level=1), False, False, "verdict_exotic")
    # C02_visiting_order_observable / C02_table_transparent_refuted: the two Coq witnesses on the implementation
    r1 = DeepDiff({"x": {1.0}, "y": {1}}, {"y": {"int:1"}, "x": {1.0}})
    r2 = DeepDiff({"x": {1.0}, "y": {1}}, {"x": {1.0}, "y": {"int:1"}})
    r3 = DeepDiff({1, "a"}, {1.0, "a"})
    if r1 != {} or sorted(r2.keys()) != ["set_item_added", "set_item_removed"] or r3 != {}:
        ctx.break_("correspondence", {"name": "DeepHash table witnesses", "detail": "the implementation no longer behaves like C02_visiting_order_observable / "
                                      "C02_table_transparent_refuted; Diff/DiffMemo.v is out of date", "impl": [repr(r1), repr(r2), repr(r3)]})
    # C02_copy_empty_refuted_threshold: outside the documented range 0..1 the copy clause fails (not a finding: outside the domain)
    d2 = {"a": 1, "b": 2}
    if DeepDiff(d2, dict(d2), threshold_to_diff_deeper=1.5) == {} or DeepDiff(d2, dict(d2), threshold_to_diff_deeper=1) != {}:
        ctx.break_("correspondence", {"name": "threshold witness", "detail": "DeepDiff no longer behaves like C02_copy_empty_refuted_threshold "
                                      "(threshold_to_diff_deeper=1.5 on {'a':1,'b':2} vs itself); Diff/DiffStrip.v thr_d is out of date"})
    # fixed:82f0543 (microseconds of time set members): must stay fixed
    for a, b in (({datetime.time(1, 2, 3, 5)}, {datetime.time(1, 2, 3, 6)}), ({(datetime.time(1, 2, 3, 5), 1)}, {(datetime.time(1, 2, 3, 6), 1)})):
        run_cfg(ctx, a, b, dict(view="text", verbose_level=1), False, False, "verdict_exotic")
    if "K1" in open_keys:
        r = DeepDiff({"NONE"}, {None})
        if r != {}:
            ctx.break_("correspondence", {"name": "K1 witness", "detail": "DeepDiff({'NONE'},{None}) is no longer empty: C02_empty_sound_refuted_hash's witness / known_findings.d/C02.json are out of date", "impl": repr(r)})
        run_cfg(ctx, {"NONE"}, {None}, dict(view="text", verbose_level=1), False, False, "witness")


# ---------------------------------------------------------------------------
# source tie (second tie between model and code): harness/translate/diffdispatch.py regenerates the dispatcher
# DeepDiff._diff and the comparers _diff_booleans / _diff_numbers / _diff_types / _diff_str / _diff_set / _diff_tuple /
# _diff_iterable / _diff_dict / _report_result and the sequence comparers (_diff_iterable_in_order, the pairwise pass, the difflib
# opcode replay) from the CURRENT deepdiff/diff.py as Gallina text (DDGen.DiffGen);
# coq/srctie/DiffGenEquiv.v proves them equal to Diff/DiffModel.v (g_run_eq) and restates C02's theorems about them
# ---------------------------------------------------------------------------

SOURCE_TIES = [{"name": "diffdispatch", "translator": "diffdispatch", "gen_module": "DiffGen", "equiv": ["DiffGenEquiv"],
                "needs": ["Diff.DiffSrcPrims", "Diff.DiffEmpty", "Diff.DiffSpecProofs", "Diff.DiffFaithful", "Properties.C02"],
                "sources": ["deepdiff/diff.py", "deepdiff/helper.py"],
                "fragment": "DeepDiff._diff (dispatcher), _report_result, _diff_booleans, _diff_numbers, _diff_types, _diff_str, _diff_set, "
                            "_diff_tuple, _diff_iterable, _diff_dict, _diff_iterable_in_order, _diff_by_forming_pairs_and_comparing_one_by_one, "
                            "_get_matching_pairs, _compare_in_order, _diff_ordered_iterable_by_difflib in their default-options form"}]

TIE_STATE = {"decided": False}
TIE_CFGS = [(False, 0.33, True), (True, 0, True), (False, 1, False), (True, 0.9, False), (False, 0, True)]


def tie_universe():
    """the small exhaustive universe of the generated-vs-hand comparison: values of depth <= 2 over 13 atoms"""
    A = [None, True, 1, 1.0, 2, "a", "b", "a\nb", "a\nc", b"a", b"a\nb", b"\xff", "__p"]
    A6 = [None, True, 1, 1.0, "a", "a\nb"]
    u = list(A)
    u += [[]] + [[x] for x in A6] + [[x, y] for x in A6 for y in A6]
    u += [()] + [(x,) for x in A6] + [(1, "a"), ("a", 1), (1, 2), (2, 1)]
    u += [{}] + [{k: v} for k in (1, "a", "__p", True) for v in (1, 2, "a")]
    u += [{"a": 1, "b": 2}, {"b": 2, "a": 1}, {"a": 1, "b": 3}, {"a": 1, 1: 2}, {"b": 1, "c": 2}, {"a": 1, "__p": 2}, {"a": 1, "__p": 3},
          {"a": 1, "b": 2, "c": 3}, {"c": 3, "d": 4, "a": 1}, {1: 1, 2: 2}, {1.0: 1, "a": 2}]
    S4 = [None, 1, "a", 2]
    u += [set()] + [{x} for x in S4] + [{x, y} for i, x in enumerate(S4) for y in S4[i + 1:]] + [{1.0}, {"NONE"}, {True}]
    u += [frozenset()] + [frozenset({x}) for x in S4] + [frozenset({1, "a"}), frozenset({None, 2})]
    # longer all-atom sequences: the shapes on which the difflib pass and the pairwise pass differ (insert / delete / move / replace)
    u += [[1, 2, "a"], [1, "a", 2], [2, 1, "a"], ["a", 1, 2], [1, 2, "a", None], [2, "a", None, 1], [1, 1, 2], [1, 2, 2], [None, 1, 2, "a"],
          [1, 2, 3, "a", None], [1, 3, "a", None], [1, 2, "b", "a", None], [3, "a", None, 1, 2], [1, 1.0, True], (1, 2, "a"), (2, 1, "a"), (1, "a")]
    u += [[[1]], [[1], [2]], [[1, 2]], [[2, 1]], [{"a": 1}], [{"a": 2}], [{1}], [{2}], {"a": [1]}, {"a": [1, 2]}, {"a": [2]}, {"a": {"b": 1}},
          {"a": {"b": 2}}, {"a": {1}}, {"a": {2}}, ([1],), ([2],), [(1,)], [(1,), 1], {"a": (1, 2)}, {"a": {"b": 1}, "c": 1}]
    return u


def _tie_pairs():
    u = tie_universe()
    out = []
    for i, a in enumerate(u):
        for j, b in enumerate(u):
            if type(a) is type(b) or (i * 31 + j) % 7 == 0:
                out.append((a, b))
    return out


def _tie_expr(t1, t2, zip_, thr, ip):
    """(generated, hand): the complete result (reported levels + recorded opcode paths, sorted) of the fuel-closed generated
    _diff and of DiffModel.diff on one pair, same oracles"""
    env = "(tbl_udiff %s) (tbl_ops %s) no_paths no_paths" % (D.coq_udiff_table(D.udiff_table(t1, t2)), D.coq_ops_table(D.opcode_table(t1, t2)))
    cfg = D.coq_cfg(zip_, thr, ip)
    a, b = V.to_coq(t1), V.to_coq(t2)
    gen = "sx_tree (g_run (mkEnv hatom_deep %s false %s) 8 (mkLevel (Some %s) (Some %s) [] [] None))" % (env, cfg, a, b)
    hand = "sx_tree (diff hatom_deep %s %s %s %s [] [])" % (env, cfg, a, b)
    return gen, hand


def tie_search(ctx, rec, cfgs=None):
    """Evaluate the fuel-closed generated _diff against DiffModel.diff inside Coq on the small exhaustive universe.
    Returns (what was searched, the differing jobs (t1, t2, (zip, thr, ip)) smallest first)."""
    import os
    import re as _re
    from concurrent.futures import ThreadPoolExecutor
    gen_dir = os.path.join(ctx.scratch, "srctie")
    if rec.get("status") in ("translator-rejected", "generated-model-does-not-compile") or not os.path.exists(os.path.join(gen_dir, "DiffGen.vo")):
        return {"searched": "nothing inside Coq (no compiled generated model: %s); run() escalates the model streams to thorough size" % rec.get("status")}, []
    hdr = D.MODEL_HDR + "\nFrom DD Require Import Diff.DiffSrcPrims."
    ctx.ensure_built(hdr)
    jobs = []
    for n, (a, b) in enumerate(_tie_pairs()):
        for cfg in (cfgs or (TIE_CFGS[0], TIE_CFGS[1 + n % 4])):
            jobs.append((a, b, cfg))
    shard = max(1, (len(jobs) + 15) // 16)
    files = []
    for k in range(0, len(jobs), shard):
        fn = os.path.join(ctx.scratch, "tie_cases_%d.v" % (k // shard))
        with open(fn, "w") as f:
            f.write("From Coq Require Import List String ZArith NArith Bool.\nImport ListNotations.\nFrom DD Require Import Base.Sx.\n" + hdr +
                    "\nFrom DDGen Require Import DiffGen.\nLocal Open Scope string_scope.\nDefinition cases : list (sx * sx) := [\n")
            f.write(";\n".join("(%s,\n %s)" % _tie_expr(a, b, *cfg) for (a, b, cfg) in jobs[k:k + shard]))
            f.write("\n].\nEval vm_compute in run_cases cases.\n")
        files.append((k, fn))

    def one(kf):
        return core.sh(["coqc", "-Q", core.THEORIES, "DD", "-Q", gen_dir, "DDGen", kf[1]], timeout=900, cwd=ctx.scratch)
    with ThreadPoolExecutor(max_workers=core.NCPU) as ex:
        results = list(ex.map(one, files))
    differing, errors = [], []
    for (k, fn), (rc, out) in zip(files, results):
        m = _re.search(r'"BEGIN\n(.*)END"', out, _re.S)
        if rc != 0 or not m:
            errors.append(out[-400:])
            continue
        for line in m.group(1).splitlines():
            if line.strip():
                differing.append(jobs[k + int(line.partition("\t")[0])])
    res = {"searched": "%d evaluations (generated g_run vs DiffModel.diff, complete sorted result) on %d pairs of the small universe (%d values)"
                       % (len(jobs), len(_tie_pairs()), len(tie_universe())),
           "differing": len(differing), "coq_errors": errors[:2]}
    differing.sort(key=lambda j: len(repr(j[0])) + len(repr(j[1])))
    return res, differing


def tie_select(differing):
    """the smallest differing pairs, at most 3 per type of t1 (the comparers are per type), at most 15 in all"""
    seenp, per_type, out = set(), {}, []
    for (a, b, cfg) in differing:
        key = (repr(a), repr(b))
        if key in seenp:
            continue
        per_type[type(a).__name__] = per_type.get(type(a).__name__, 0) + 1
        if per_type[type(a).__name__] > 3:
            continue
        seenp.add(key)
        out.append((a, b, cfg))
        if len(out) >= 15:
            break
    return out


def on_source_tie_break(ctx, name, rec):
    """The generated model no longer equals the hand-written one (or could not be generated).  Search for a concrete pair on
    which the two differ (both evaluated inside Coq on the small exhaustive universe), then judge that pair like any
    generated case: direct oracle on the full configuration grid + correspondence of the hand model with the implementation."""
    if name != "diffdispatch":
        return {"searched": "nothing (unknown tie)"}
    res, differing = tie_search(ctx, rec)
    if not differing:
        return res
    judged = []
    cases, mcases = [], []
    f0, b0 = len(ctx.failures), len(ctx.breaks)
    for (a, b, cfg) in tie_select(differing):
        t1, t2 = stable_order(a), stable_order(b)
        is_copy = snap(t1) == snap(t2)
        ctx.count("gen:source_tie_differing_pair")
        oracle_pair(ctx, t1, t2, is_copy, full_grid=True, stats_key="verdict_tie")
        corr_pair(ctx, t1, t2, cases, every=True, mcases=mcases)
        judged.append({"t1": repr(a), "t2": repr(b), "first_cfg(zip,thr,ip)": list(cfg)})
    ctx.coq_cases("c02tie", D.MODEL_HDR, cases, shard=150, label="source_tie_differing_pairs")
    ctx.coq_cases("c02tiem", D.MODEL_HDR_M, mcases, shard=150, label="source_tie_differing_pairs_memo")
    res["first_differing"] = judged
    res["judged"] = {"new_oracle_failures": len(ctx.failures) - f0, "new_breaks": len(ctx.breaks) - b0, "known_findings_seen": sorted(ctx.known_seen)}
    if len(ctx.failures) > f0 or len(ctx.breaks) > b0:
        TIE_STATE["decided"] = True          # a concrete pair was found and judged: no need to escalate the random streams
    return res


def run(ctx):
    # a source tie that is not intact escalates the streams that exercise the translated fragment to thorough size
    big = ctx.thorough or (ctx.tie_broken("diffdispatch") and not TIE_STATE["decided"])
    if big and not ctx.thorough:
        ctx.count("escalated_by_broken_source_tie")
    n_values = 1100 if big else 130
    pairs = gen_model_pairs(ctx, n_values) + small_pairs(ctx, 450, big) + gen_alias_pairs(ctx, 3000 if big else 250) + gen_shared_pairs(ctx, 1500 if big else 260)
    cases, vcases, mcases = [], [], []
    pairs = [(stable_order(t1), stable_order(t2), kind, is_copy) for (t1, t2, kind, is_copy) in pairs]
    for i, (t1, t2, kind, is_copy) in enumerate(pairs):
        ctx.count("gen:" + kind)
        oracle_pair(ctx, t1, t2, is_copy, full_grid=(i % 60 == 0), stats_key="verdict")
        corr_pair(ctx, t1, t2, cases, every=(i % 25 == 0), mcases=mcases)
        if i % 3 == 0 or kind == "atom_list_edit":
            vcases += opcode_validity_cases(t1, t2)
        if i % 3 == 1:
            vcases += hash_hypothesis_cases(t1, t2)
        if i % 7 == 2:
            # the representation invariant (guard wf) and the key guard observed: real dicts / sets satisfy wf under the model's py_eq,
            # and inputs_ok (keep_key c) holds exactly when no looked-at-by-default '__' key occurs
            for t in (t1, t2):
                try:
                    vcases.append(("sx_bool (wf %s)" % V.to_coq(t), True, {"what": "wf of a real value", "t": repr(t)[:300]}))
                    vcases.append(("sx_bool (inputs_ok (keep_key (mkCfg false 33 100 true)) any_atom %s)" % V.to_coq(t), not has_private(t),
                                   {"what": "key guard = no '__' key", "t": repr(t)[:300]}))
                except Exception:  # noqa  (a value outside the atom universe)
                    pass
    for (t1, t2, kind, is_copy) in gen_exotic(ctx, 1500 if ctx.thorough else 150):
        ctx.count("gen:" + kind.split("@")[0])
        if "@" in kind:
            ctx.count("gen:moment_position:" + kind.split("@")[1])
        oracle_pair(ctx, t1, t2, is_copy, full_grid=False, stats_key="verdict_exotic", model_ok=False)
    # numeric arrays INSIDE a model (Diff/NpModel.v np_run_diff): the same pairs go to the direct oracle and to the
    # correspondence (complete tree view incl. index tuples and numpy-scalar leaves, text view, array_equal, tolist)
    from harness import npcommon as NP
    np_pairs = NP.gen_pairs(ctx.rng, 60 if ctx.thorough else 12)
    for (a, b, kind, is_copy) in np_pairs:
        ctx.count("gen:numpy_model:" + kind.split(":")[0])
        oracle_pair(ctx, a, b, is_copy, full_grid=False, stats_key="verdict_numpy_model", model_ok=False)
    NP.stream_c02(ctx, np_pairs)
    # datetimes / dates / times / timedeltas / Decimals INSIDE a model (Diff/XuModel.v over the extended universe
    # Diff/XuValue.v): the same pairs go to the direct oracle and to the correspondence (tree view incl. the normalised
    # datetimes DeepDiff reports, text view, Python == vs py_eq, DeepHash's pre-hash texts)
    from harness import xucommon as XU
    xu_pairs = XU.gen_pairs(ctx.rng, 40 if ctx.thorough else 6)
    for (a, b, kind, is_copy) in xu_pairs:
        ctx.count("gen:xu_model:" + ":".join(kind.split("@")[0].split(":")[:2]))
        oracle_pair(ctx, a, b, is_copy, full_grid=False, stats_key="verdict_xu_model", model_ok=False)
    XU.stream_c02(ctx, xu_pairs)
    bytes_key_probe(ctx)
    replay_witnesses(ctx)
    for c in cases[:3]:
        ctx.sample(c[2])
    ctx.coq_cases("c02", D.MODEL_HDR, cases, shard=150, label="tree_and_text")
    ctx.coq_cases("c02m", D.MODEL_HDR_M, mcases, shard=150, label="memo_model_tree_and_text")
    ctx.coq_cases("c02v", D.MODEL_HDR + "\nFrom DD Require Import Diff.DiffEmpty.", vcases, shard=300, label="hypotheses_observed(valid_opcodes,hash_separates)")

    # extension: class instances (attributes) inside the same models - beyond the property's stated domain,
    # recorded in the evidence file, never a violation (core.Ctx.extension; coq/theories/Obj)
    with ctx.extension("Obj"):
        from harness import objcommon as O
        O.stream_c02(ctx)


def replay(ctx, data):
    case = data.get("case", {})
    if "t1" in case:
        env = {"datetime": datetime, "frozenset": frozenset}
        try:
            t1, t2 = _case_values(case) if "pickle" in case else (eval(case["t1"], env), eval(case["t2"], env))
        except Exception as e:  # noqa
            ctx.break_("harness", {"error": "cannot rebuild the replay inputs: " + repr(e)})
            return
        cfg = case.get("cfg") or {}
        if cfg:
            run_cfg(ctx, t1, t2, cfg, case.get("clause") == "non-empty diff for a structural copy", case.get("ip", True), "replay")
        else:
            oracle_pair(ctx, t1, t2, False, True, "replay")
    else:
        run(ctx)

"""C08 - bidirectional deltas invert exactly and detect a mismatched base.

proof:           Delta/*.v -> Properties/C08.v
correspondence:  payload of the bidirectional delta, t1 + d, t2 - d, and d applied to
                 corrupted bases (result + whether an error was logged), implementation vs model
direct oracle:   t2 - d == t1, (t2 - d) + d == t2, back-and-forth sequences (+,-,+,...) of
                 length <= 6; every single-location corruption at a values_changed / type_changes
                 path raises (raise_errors=True) or logs (raise_errors=False); a directed delta
                 refuses subtraction.
"""
import copy

from harness import core, values as V, diffcommon as D, deltacommon as DC
from harness.props import c01

THEOREM_FILE = "Properties/C08.v"
COQCHK = ["Properties.C08"]
COQ_NEEDS = ["Delta.DeltaVerifyHyp"]
RULE = ("pairs as in C01 (ordered mode; random nested values with 1-3 edits, planted atom-list edits, independent pairs) x zip x threshold; "
        "the refusal of subtraction is checked for bidirectional=False x always_include_values x raise_errors; operation sequences (+corrupted, +corrupted, +t1, -t2, +corrupted, +corrupted) "
        "on ONE Delta object (raise_errors True and False) are compared step by step with a fresh object and with the pure model; "
        "for each delta every values_changed / type_changes path is corrupted once with a value that differs (Python !=) from the recorded "
        "old value; back-and-forth sequences of length <= 6. Non-trivial = non-empty delta; distinct by (t1,t2,config[,corruption]).")
TRUSTED = c01.TRUSTED
ASSUMPTIONS = c01.ASSUMPTIONS

HYP_HDR = DC.HDR[:-1] + " Delta.DeltaVerify Delta.DeltaVerifyIndep Delta.DeltaVerifyHyp."


def keys_nonneg(v):
    """mirror of DeltaVerifyIndep.keys_nonneg: no negative int among the dict keys"""
    if isinstance(v, (list, tuple)):
        return all(keys_nonneg(x) for x in v)
    if isinstance(v, dict):
        return all(not (type(k) is int and k < 0) and keys_nonneg(x) for k, x in v.items())
    return True


def korder(t1, t2):
    """mirror of DeltaReverseSym.korder: dicts paired by the diff list their common keys in the same order"""
    if (type(t1) is list and type(t2) is list) or (type(t1) is tuple and type(t2) is tuple):
        return all(korder(x, y) for x, y in zip(t1, t2))
    if isinstance(t1, dict) and isinstance(t2, dict):
        c1 = [V.canon_atom(k) for k in t1 if k in t2]
        c2 = [V.canon_atom(k) for k in t2 if k in t1]
        return c1 == c2 and all(korder(v, t2[k]) for k, v in t1.items() if k in t2)
    return True


def mutual_clash(t1, t2, cfg):
    """does TreeResult.mutual_add_removes_to_become_value_changes find a path that is both added and removed
    (observed on the implementation; mirror of the negation of DeltaReverseDefault.no_clash)"""
    from deepdiff import DeepDiff
    from deepdiff.model import TreeResult
    seen = []
    orig = TreeResult.mutual_add_removes_to_become_value_changes

    def wrapped(self):
        a, r = self.get('iterable_item_added'), self.get('iterable_item_removed')
        if a is not None and r is not None:
            seen.append(bool({i.path() for i in a} & {i.path() for i in r}))
        return orig(self)
    TreeResult.mutual_add_removes_to_become_value_changes = wrapped
    try:
        DeepDiff(copy.deepcopy(t1), copy.deepcopy(t2), view="tree", **cfg)
    finally:
        TreeResult.mutual_add_removes_to_become_value_changes = orig
    return any(seen)


def ntp_vals(t2, d):
    """mirror of DeltaVerifyHyp.ntp_valsb: no tuple is the parent (in t2) of a location the subtraction writes a
    value change to (the reverse key of a values_changed entry is its new_path, else its path)"""
    for p, ch in d.diff.get("values_changed", {}).items():
        keys = py_path(DC.parse_pathc(ch["new_path"] if ch.get("new_path") else p))
        if not keys:
            continue
        try:
            parent = get_at(t2, keys[:-1])
        except Exception:
            continue
        if isinstance(parent, tuple):
            return False
    return True


def hyp_expr8(t1, t2, zip_, thr, conv_tbl, kn):
    """Coq expression (sx) of the observed guards of the C08 theorems on the bidirectional delta of the diff:
    indep_verified d (claimed by C08_indep_guard_of_diff when keys_nonneg t2), ops_ok 0 on every difflib opcode
    list (ops_disjoint), sym_okb on every entry of the result tree (sym_ok incl. moved_identical), keys_nonneg t2"""
    ops = D.coq_ops_table(D.opcode_table(t1, t2))
    return ("(let r := run_diff hatom_deep (tbl_udiff %s) (tbl_ops %s) no_paths no_paths %s %s %s in "
            "let d := to_delta (tbl_conv %s) true false (tbl_ops %s) %s %s (fst r) (snd r) in "
            "sx_c08hyp8 %s (ops_table_disjointb %s) (forallb sym_okb (fst r)) (keys_nonneg %s) (korderb %s %s) "
            "(no_clashb (fst (diff hatom_deep (tbl_udiff %s) (tbl_ops %s) no_paths no_paths %s %s %s [] []))) "
            "(ntp_valsb %s d) (ops_table_sorted2b %s))") % (
        D.coq_udiff_table(D.udiff_table(t1, t2)), ops, D.coq_cfg(zip_, thr, True), V.to_coq(t1), V.to_coq(t2),
        conv_tbl, ops, V.to_coq(t1), V.to_coq(t2),
        "(indep_verified d)" if kn else "true", ops, V.to_coq(t2), V.to_coq(t1), V.to_coq(t2),
        D.coq_udiff_table(D.udiff_table(t1, t2)), ops, D.coq_cfg(zip_, thr, True), V.to_coq(t1), V.to_coq(t2),
        V.to_coq(t2), ops)


def holds8(t1, t2, cfg, always=False):
    """the inversion clause of C08 on one input"""
    from deepdiff import DeepDiff, Delta
    try:
        d = Delta(DeepDiff(copy.deepcopy(t1), copy.deepcopy(t2), **cfg), bidirectional=True)
        with DC.Counting() as cnt:
            fwd = copy.deepcopy(t1) + d
            back = copy.deepcopy(t2) - d
            again = copy.deepcopy(back) + d
        return V.typed_eq(fwd, t2) and V.typed_eq(back, t1) and V.typed_eq(again, t2) and cnt.n == 0
    except Exception:
        return False


def m_path_cache(case):
    """F9: the input fails in the current process state and passes once the process-global lru_cache of
    deepdiff.path._path_to_elements (polluted by an earlier, unrelated Delta application) is cleared"""
    from deepdiff.path import _path_to_elements
    t1, t2, cfg, _always = c01._inputs(case)
    if holds8(t1, t2, cfg):
        return False
    _path_to_elements.cache_clear()
    return holds8(t1, t2, cfg)


MATCHERS = {"F4": lambda c: c01.m_tuple_container(c, holds8), "KA": lambda c: c01.m_alias(c, holds8),
            "F7": lambda c: False,   # bidirectional deltas always carry the values
            "F9": m_path_cache}
THRS = (0, 0.33, 0.9)


def py_path(pc):
    return [D.uncanon_atom(x) for _t, x in pc]


def get_at(v, keys):
    for k in keys:
        v = v[k]
    return v


def set_at(v, keys, new):
    if not keys:
        return new
    k = keys[0]
    if isinstance(v, list):
        c = list(v); c[k] = set_at(v[k], keys[1:], new); return c
    if isinstance(v, tuple):
        c = list(v); c[k] = set_at(v[k], keys[1:], new); return tuple(c)
    if isinstance(v, dict):
        c = dict(v); c[k] = set_at(v[k], keys[1:], new); return c
    raise TypeError(v)


def corrupt_value(rng, old):
    for _ in range(20):
        c = rng.choice([None, "zz", 77, 7.5, ["q"], {"q": 1}, (5,), "q"])
        try:
            if c != old and not (c == old):
                return c
        except Exception:
            pass
    return "zz9"


def one_pair(ctx, t1, t2, cases, corr=True, hyp_cases=None):
    from deepdiff import DeepDiff, Delta
    from deepdiff.delta import DeltaError
    rng = ctx.rng
    guard = c01.in_guard(t1, t2)
    ctx.count("in_model_guard" if guard else "outside_model_guard")
    for zip_ in (False, True):
        thr = rng.choice(THRS)
        cfg = dict(zip_ordered_iterables=zip_, threshold_to_diff_deeper=thr)
        desc = c01.describe(t1, t2)
        base_case = dict(t1=repr(t1), t2=repr(t2), cfg=cfg, **desc)
        try:
            dd = DeepDiff(copy.deepcopy(t1), copy.deepcopy(t2), view="tree", **cfg)
            d = Delta(dd, bidirectional=True)
        except Exception as e:
            ctx.fail(dict(base_case, observed="raised %s" % type(e).__name__), "building a bidirectional delta raised")
            continue
        ctx.seen((repr(t1), repr(t2), zip_, thr), nontrivial=bool(d.diff))
        # --- inversion ---
        try:
            with DC.Counting() as cnt:
                fwd = copy.deepcopy(t1) + d
                back = copy.deepcopy(t2) - d
                again = copy.deepcopy(back) + d
            nerr = cnt.n
            okf, okb, oka = V.typed_eq(fwd, t2), V.typed_eq(back, t1), V.typed_eq(again, t2)
            if not (okf and okb and oka) or nerr:
                ctx.fail(dict(base_case, observed=dict(add=repr(fwd), sub=repr(back), add_again=repr(again), errors=nerr)),
                         "bidirectional delta does not invert: " + ("t1+d != t2" if not okf else "t2-d != t1" if not okb else "(t2-d)+d != t2" if not oka else "errors logged"))
        except Exception as e:
            fwd = back = None
            ctx.fail(dict(base_case, observed="raised %s: %s" % (type(e).__name__, str(e)[:150])), "bidirectional delta raised while inverting")
        # --- back and forth ---
        if rng.random() < 0.3:
            cur, side = copy.deepcopy(t1), 1
            try:
                for step in range(rng.randint(2, 6)):
                    cur = (cur + d) if side == 1 else (cur - d)
                    want = t2 if side == 1 else t1
                    if not V.typed_eq(cur, want):
                        ctx.fail(dict(base_case, observed=repr(cur), step=step), "back-and-forth sequence diverges at step %d" % step)
                        break
                    side = -side
                ctx.count("back_and_forth_sequences")
            except Exception as e:
                ctx.fail(dict(base_case, observed="raised %s" % type(e).__name__), "back-and-forth sequence raised")
        # --- a directed delta refuses subtraction, whatever the other flags are ---
        refused = {}
        for aiv in (False, True):
            for re_ in (False, True):
                flags = dict(bidirectional=False, always_include_values=aiv, raise_errors=re_)
                ctx.count("refusal:aiv=%s,raise=%s" % (aiv, re_))
                try:
                    got = copy.deepcopy(t2) - Delta(dd, **flags)
                    refused[(aiv, re_)] = False
                    ctx.fail(dict(base_case, delta_flags=flags, observed="no exception: " + repr(got)[:120]),
                             "a non-bidirectional delta accepted subtraction")
                except ValueError:
                    refused[(aiv, re_)] = True
                except Exception as e:
                    refused[(aiv, re_)] = False
                    ctx.fail(dict(base_case, delta_flags=flags, observed="raised %s" % type(e).__name__),
                             "a non-bidirectional delta did not refuse subtraction with ValueError")
        # --- corruption detection ---
        corrupt_cases = []
        corrupt2 = []
        for cat in ("values_changed", "type_changes"):
            for p, ch in d.diff.get(cat, {}).items():
                if "old_value" not in ch:
                    continue
                keys = py_path(DC.parse_pathc(p))
                try:
                    get_at(t1, keys)
                except Exception:
                    continue
                cv = corrupt_value(rng, ch["old_value"])
                try:
                    base = set_at(copy.deepcopy(t1), keys, cv)
                except Exception:
                    continue
                ctx.count("corruptions")
                ccase = dict(base_case, corrupted_path=p, corrupted_to=repr(cv), old_value=repr(ch["old_value"]))
                raised = False
                try:
                    copy.deepcopy(base) + Delta(dd, bidirectional=True, raise_errors=True)
                except DeltaError:
                    raised = True
                except Exception as e:
                    raised = True   # some other exception: not silently accepted
                with DC.Counting() as cnt:
                    try:
                        res = copy.deepcopy(base) + d
                    except Exception as e:
                        res = e
                ctx.seen((repr(t1), repr(t2), zip_, thr, p, repr(cv)), nontrivial=True)
                if not raised:
                    ctx.fail(dict(ccase, observed="raise_errors=True did not raise"), "a mismatched base was accepted (raise_errors=True)")
                elif cnt.n == 0 and not isinstance(res, Exception):
                    ctx.fail(dict(ccase, observed="no error logged"), "a mismatched base was silently accepted (raise_errors=False)")
                if not isinstance(res, Exception):
                    corrupt_cases.append((base, res, cnt.n))
                # the same location corrupted on the t2 side (for raising subtractions)
                if "new_value" in ch and not corrupt2:
                    try:
                        keys2 = py_path(DC.parse_pathc(ch["new_path"])) if ch.get("new_path") else keys
                        get_at(t2, keys2)
                        corrupt2.append(set_at(copy.deepcopy(t2), keys2, corrupt_value(rng, ch["new_value"])))
                    except Exception:
                        pass
        # --- correspondence ---
        if guard and fwd is not None:   # (a replay runs this block too: its cases are simply not compiled)
            rem, add = DC.impl_orders(d)
            # reversed delta orders
            rd = Delta(dd, bidirectional=True)
            rd.diff = rd._get_reverse_diff()
            rrem, radd = DC.impl_orders(rd)
            pairs = DC.type_change_pairs(dd)
            conv = DC.conv_table(pairs)
            payload = DC.delta_obs(d.diff)
            tag = dict(t1=repr(t1), t2=repr(t2), zip=zip_, thr=thr)
            cases.append((DC.model_expr(t1, t2, zip_, thr, True, False, t1, conv, rem, add),
                          [payload, [DC.canon_unordered(fwd), False]], dict(tag, op="add")))
            cases.append((DC.model_expr(t1, t2, zip_, thr, True, False, t2, conv, rrem, radd, want="sub"),
                          [payload, [DC.canon_unordered(back), False]], dict(tag, op="sub")))
            # the refusal in the model (a function of bidirectional only), always_include_values varied independently
            for aiv in ((False, True) if (ctx.thorough or rng.random() < 0.2) else ()):
                try:
                    dird = Delta(dd, always_include_values=aiv)
                    cases.append((DC.model_expr(t1, t2, zip_, thr, False, aiv, t2, conv, rem, add, want="sub"),
                                  [DC.delta_obs(dird.diff), "NotBidirectional" if refused.get((aiv, False)) else "accepted"],
                                  dict(tag, op="sub refused", always_include_values=aiv)))
                except Exception:
                    pass
            # --- operation sequences on ONE Delta object: the model's apply is a pure function of (delta, base) ---
            if corrupt_cases and (not corr or rng.random() < (0.5 if ctx.thorough else 0.3)):
                cbase = corrupt_cases[0][0]
                C, G = True, False     # corrupted / good base
                seq = [("add", cbase, C), ("add", cbase, C), ("add", t1, G), ("sub", t2, G), ("add", cbase, C), ("add", cbase, C)]
                # raising subtractions and the states they leave behind (fixed in /repo by 2fbf190, finding F10):
                # a failed '-' must not leave the object reversed, a failed '+' must not leave post-processing state
                # (the base with lists where t1 has tuples shows a stale tuple conversion)
                if corrupt2:
                    seq = [("sub", corrupt2[0], C), ("add", t1, G), ("sub", t2, G)] + seq + [("sub", corrupt2[0], C), ("sub", t2, G), ("add", t1, G)]
                lt1 = c01.detuple(t1)
                seq = seq + [("add", cbase, C), ("add", lt1, G), ("add", t1, G)]
                ctx.count("reuse_sequences")
                for re_ in (True, False):
                    obj = Delta(dd, bidirectional=True, raise_errors=re_)
                    for k, (op, base, is_corrupt) in enumerate(seq):
                        def run_on(o):
                            with DC.Counting() as c0:
                                try:
                                    r0 = (copy.deepcopy(base) + o) if op == "add" else (copy.deepcopy(base) - o)
                                    return ("ok", r0, c0.n)
                                except Exception as e:
                                    return ("raised " + type(e).__name__, None, c0.n)
                        got = run_on(obj)
                        ref = run_on(Delta(dd, bidirectional=True, raise_errors=re_))
                        same = got[0] == ref[0] and (got[1] is None or V.typed_eq(got[1], ref[1])) and (got[2] > 0) == (ref[2] > 0)
                        if not same:
                            ctx.fail(dict(base_case, raise_errors=re_, step=k, sequence=[(o, repr(b)) for o, b, _c in seq],
                                          observed=dict(reused=(got[0], repr(got[1]), got[2]), fresh=(ref[0], repr(ref[1]), ref[2]))),
                                     "a reused Delta object behaves differently from a fresh one (history dependence) at step %d" % k)
                            break
                        if is_corrupt and re_ and got[0] == "ok":
                            ctx.fail(dict(base_case, raise_errors=True, step=k, base=repr(base), observed="no exception"),
                                     "a mismatched base was accepted by a reused Delta object (raise_errors=True)")
                            break
                        # correspondence: every step of the logging object against the pure model
                        if not re_ and got[0] == "ok" and (k % 2 == 1 if ctx.thorough else k in (1, 2, 7)) and DC.in_universe(base) and DC.in_universe(got[1]):
                            if op == "add":
                                cv2 = DC.conv_table(pairs + [(type(x.t2), get_safe(base, x)) for x in dd.get("type_changes", []) if get_safe(base, x) is not DC._NF])
                                cases.append((DC.model_expr(t1, t2, zip_, thr, True, False, base, cv2, rem, add),
                                              [payload, [DC.canon_unordered(got[1]), got[2] > 0]], dict(tag, op="reused object, step %d: add" % k, base=repr(base))))
                            else:
                                cases.append((DC.model_expr(t1, t2, zip_, thr, True, False, base, conv, rrem, radd, want="sub"),
                                              [payload, [DC.canon_unordered(got[1]), got[2] > 0]], dict(tag, op="reused object, step %d: sub" % k)))
            if hyp_cases is not None:
                kn = keys_nonneg(t2)
                ctx.count("hyp:keys_nonneg_true" if kn else "hyp:keys_nonneg_false")
                ctx.count("hyp:cases")
                if D.opcode_table(t1, t2):
                    ctx.count("hyp:cases_with_opcode_tables")
                if d.diff.get("iterable_item_moved"):
                    ctx.count("hyp:cases_with_moved_items")
                # expected: every guard holds on in-guard inputs (indep_verified is claimed only when keys_nonneg t2)
                ko = korder(t1, t2)
                ctx.count("hyp:korder_true" if ko else "hyp:korder_false")
                if zip_:
                    ctx.count("hyp:positional_all_guards_of_sub_inverts" if (ko and kn and keys_nonneg(t1))
                              else "hyp:positional_outside_guards_of_sub_inverts")
                nc = not mutual_clash(t1, t2, cfg)
                ctx.count("hyp:no_clash_true" if nc else "hyp:no_clash_false")
                ctx.count("hyp:all_data_guards_of_sub_inverts_default_partial" if (ko and nc)
                          else "hyp:outside_data_guards_of_sub_inverts_default_partial")
                nt = ntp_vals(t2, d)
                kn1 = keys_nonneg(t1)
                ctx.count("hyp:ntp_vals_true" if nt else "hyp:ntp_vals_false")
                if not nc:
                    ctx.count("hyp:clash_case_inside_guards_of_sub_inverts_default" if (ko and nt and kn1)
                              else "hyp:clash_case_outside_guards_of_sub_inverts_default")
                ctx.count("hyp:all_data_guards_of_sub_inverts_default" if (ko and (nc or (nt and kn1)))
                          else "hyp:outside_data_guards_of_sub_inverts_default")
                hyp_cases.append((hyp_expr8(t1, t2, zip_, thr, conv, kn), [True, True, True, kn, ko, nc, nt, True],
                                  dict(tag, hypotheses="indep_verified/ops_disjoint/sym_ok/keys_nonneg/korder/no_clash/ntp_vals/ops_sorted2")))
            for base, res, n in corrupt_cases[:2]:
                if not DC.in_universe(base) or not DC.in_universe(res):
                    continue
                # conv may be asked about the corrupted value: extend the table
                conv2 = DC.conv_table(pairs + [(type(x.t2), get_safe(base, x)) for x in dd.get("type_changes", []) if get_safe(base, x) is not DC._NF])
                cases.append((DC.model_expr(t1, t2, zip_, thr, True, False, base, conv2, rem, add),
                              [payload, [DC.canon_unordered(res), n > 0]], dict(tag, op="add on corrupted base", base=repr(base))))


def get_safe(base, level):
    try:
        keys = [k for k in level.path(output_format="list")]
        return get_at(base, keys)
    except Exception:
        return DC._NF


def run(ctx):
    cases = []
    hyp_cases = []
    pairs = c01.gen_random(ctx, 2000 if ctx.thorough else 350)
    for t1, t2 in pairs:
        one_pair(ctx, t1, t2, cases, hyp_cases=hyp_cases)
    for c in cases[:3]:
        ctx.sample(c[2])
    ctx.coq_cases("c08", DC.HDR, cases, shard=120, label="payload+add+sub+corrupted")
    ctx.coq_cases("c08hyp", HYP_HDR, hyp_cases, shard=160, label="theorem-guards")


def replay(ctx, data):
    case = data.get("case", {})
    if "t1" in case:
        one_pair(ctx, eval(case["t1"]), eval(case["t2"]), [], corr=False)
    else:
        run(ctx)
